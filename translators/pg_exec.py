"""translators/pg_exec.py — symbolic execution of parser function bodies (C09 grammar translator).

A function body is executed over *symbolic values* in continuation-passing style.  The only things tracked are
input states (`Pos(id)`: the ParseString held by some variable), parser results (`ROk` / `RErr`) and parser-valued
expressions (function references, nom combinators, closures).  Everything else is `OPQ` (opaque).  Each application
of a parser to an input state forks the execution into its outcomes and becomes an `app` node of the output tree;
conditions that depend on opaque data become `if` nodes; anything not understood raises `Unknown`, which is caught at
the innermost fork and becomes an explicit `unk` node — never a guess.

Output trees (nested tuples):
  stmt:  ('ret', mode, x)  mode: ok | err | fail | asis
         ('app', pexp, x, y, e, kok, kerr, kfail|None)
         ('if', site, a, b)  ('guard', site, y, k)  ('unk', site, callees)
  pexp:  ('leaf', name, consuming)  ('punk', site, callees)  ('call', key)  ('eof',)
         ('altbest', ((flag, pexp), ...))  ('block', stmt)
         derived (defined in Coq by the core forms): ('seq', (p..)) ('alt', site, (p..)) ('opt', p) ('peek', p) ('not', p) ('cut', p)
"""
import rustmini as R


class Unknown(Exception):
    pass


class NeedKind(Exception):
    def __init__(self, eid):
        Exception.__init__(self, "need kind of %r" % (eid,))
        self.eid = eid


class ImpureLoop(Exception):
    pass


# ------------------------------------------------------------------------------------------------ values
class V:
    pass


class Pos(V):
    def __init__(self, id, origin=None):
        self.id, self.origin = id, origin


class Fresh(V):            # a ParseString over some other text (nested parse)
    pass


class Stale(V):            # an input state that cannot be related to the current function's entry
    pass


class Opq(V):
    pass


OPQ = Opq()
UNIT = OPQ


class Tup(V):
    def __init__(self, items):
        self.items = list(items)


class ROk(V):
    def __init__(self, val):
        self.val = val


class RErr(V):
    def __init__(self, kind, id):
        self.kind, self.id = kind, id


class NomErr(V):
    def __init__(self, kind, id):
        self.kind, self.id = kind, id


class PErr(V):
    def __init__(self, id):
        self.id = id


class SomeV(V):
    def __init__(self, val):
        self.val = val


class NoneV(V):
    pass


NONE = NoneV()


class BoolV(V):
    def __init__(self, b):
        self.b = b


class StrV(V):
    def __init__(self, s):
        self.s = s


class FnRef(V):
    def __init__(self, key):
        self.key = key


class HofRef(V):
    def __init__(self, fi):
        self.fi = fi


class OtherFn(V):          # a function of the crate that is neither a parser nor a combinator
    def __init__(self, fi):
        self.fi = fi


class NomRef(V):
    def __init__(self, name):
        self.name = name


class Comb(V):
    def __init__(self, name, args, pos):
        self.name, self.args, self.pos = name, args, pos


class Clo(V):
    def __init__(self, params, body, env, mod):
        self.params, self.body, self.env, self.mod = params, body, env, mod


class VecV(V):
    def __init__(self, items):
        self.items = list(items)


class Special(V):
    def __init__(self, name):
        self.name = name


def has_pos(v):
    if isinstance(v, (Pos, Fresh, Stale, PErr, NomErr, RErr)):
        return True
    if isinstance(v, (Tup, VecV)):
        return any(has_pos(x) for x in v.items)
    if isinstance(v, (ROk, SomeV)):
        return has_pos(v.val)
    return False


def is_parser_value(v):
    return isinstance(v, (FnRef, HofRef, NomRef, Comb, Clo))


def has_parser(v):
    if is_parser_value(v):
        return True
    if isinstance(v, (Tup, VecV)):
        return any(has_parser(x) for x in v.items)
    if isinstance(v, (ROk, SomeV)):
        return has_parser(v.val)
    return False


# ------------------------------------------------------------------------------------------------ environment
class Env:
    """persistent environment: a tuple of frames (dicts); never mutated in place"""
    __slots__ = ("frames",)

    def __init__(self, frames):
        self.frames = tuple(frames)

    def push(self):
        return Env(self.frames + ({},))

    def pop(self):
        return Env(self.frames[:-1])

    def depth(self):
        return len(self.frames)

    def lookup(self, name):
        for f in reversed(self.frames):
            if name in f:
                return f[name]
        return None

    def bind(self, name, val):
        top = dict(self.frames[-1])
        top[name] = val
        return Env(self.frames[:-1] + (top,))

    def assign(self, name, val):
        for i in range(len(self.frames) - 1, -1, -1):
            if name in self.frames[i]:
                f = dict(self.frames[i])
                f[name] = val
                return Env(self.frames[:i] + (f,) + self.frames[i + 1:]), i
        return None, -1

    def truncated(self, depth):
        return Env(self.frames[:depth])

    def items(self):
        for i, f in enumerate(self.frames):
            for k, v in f.items():
                yield i, k, v

    def replace(self, i, name, val):
        f = dict(self.frames[i])
        f[name] = val
        return Env(self.frames[:i] + (f,) + self.frames[i + 1:])


class Scope:
    """variable numbering of one block (function body, closure, loop function)"""

    def __init__(self):
        self.n = 0
        self.apps = 0

    def fresh(self):
        self.n += 1
        return self.n


class ProbeBox:
    """shared by every context of one function translation: when `cur` is a set, reads of tagged input-state variables
    are recorded in it (used to find the variables a loop carries)"""
    def __init__(self):
        self.cur = None


class Cx:
    def __init__(self, scope, ret_k, mod, fn, loop=None, noapp=False, probe=None):
        self.scope, self.ret_k, self.mod, self.fn = scope, ret_k, mod, fn
        self.loop, self.noapp, self.probe = loop, noapp, (probe if probe is not None else ProbeBox())

    def with_(self, **kw):
        c = Cx(self.scope, self.ret_k, self.mod, self.fn, self.loop, self.noapp, self.probe)
        for k, v in kw.items():
            setattr(c, k, v)
        return c


class LoopCtx:
    def __init__(self, on_break, on_continue, base_depth):
        self.on_break, self.on_continue, self.base_depth = on_break, on_continue, base_depth


PURE_POS_METHODS = {"is_empty", "len", "loc", "peek", "current", "next", "rest", "slice", "output", "is_last_grapheme", "input_len"}
POS_FIELDS = {"cursor", "graphemes", "error_log", "location"}
SEQ_COMBS = {"pair", "preceded", "delimited", "terminated", "separated_pair"}


def alpha_eq(a, b, m=None):
    """equality of output trees up to the names of the variables bound inside them (app binds y and e)"""
    m = dict(m or {})
    if not (isinstance(a, tuple) and isinstance(b, tuple)):
        return a == b
    if len(a) != len(b) or (a and a[0] != b[0]):
        return False
    if not a:
        return True
    k = a[0]
    if k == "ret":
        return a[1] == b[1] and m.get(a[2], a[2]) == b[2]
    if k == "app":
        if m.get(a[2], a[2]) != b[2] or not alpha_eq(a[1], b[1], {}):
            return False
        mo = dict(m); mo[a[3]] = b[3]
        me = dict(m); me[a[4]] = b[4]
        if not alpha_eq(a[5], b[5], mo) or not alpha_eq(a[6], b[6], me):
            return False
        if (a[7] is None) != (b[7] is None):
            return False
        return a[7] is None or alpha_eq(a[7], b[7], me)
    if k == "if":
        return a[1] == b[1] and alpha_eq(a[2], b[2], m) and alpha_eq(a[3], b[3], m)
    if k == "guard":
        return a[1] == b[1] and m.get(a[2], a[2]) == b[2] and alpha_eq(a[3], b[3], m) and alpha_eq(a[4], b[4], m)
    if k == "block":
        return alpha_eq(a[1], b[1], {})
    if k in ("unk", "punk", "leaf", "call", "eof", "panic"):
        return a == b
    # pexp forms with children
    return all(alpha_eq(x, y, {}) if isinstance(x, tuple) else x == y for x, y in zip(a[1:], b[1:]))


class CmpV(V):
    """`a.cursor == b.cursor` (neg: `!=`) of two tracked input states"""
    def __init__(self, x, y, neg):
        self.x, self.y, self.neg = x, y, neg


# ------------------------------------------------------------------------------------------------ executor
class Exec:
    def __init__(self, S, keys):
        self.S = S                      # pg_load.Sources
        self.keys = keys                # (module, name) -> grammar key   (parser functions)
        self.aux = {}                   # aux function key -> pexp body
        self.aux_order = []
        self.rep_sites = {}             # aux key -> (kind, fn, line, col)
        self.loop_sites = {}            # aux key -> (fn, line, col)
        self.nested = {}                # site -> sorted callee names   (parses of a different text)
        self.panic_sites = set()
        self.unknown_sites = {}         # site -> reason
        self.cur_callees = ()
        self.other_mentions = {}

    # -- small helpers
    def site(self, cx, pos):
        return "%s:%d.%d" % (cx.fn, pos[0], pos[1])

    def unk(self, cx, pos, why):
        s = self.site(cx, pos)
        self.unknown_sites.setdefault(s, str(why)[:160])
        return ("unk", s, tuple(self.cur_callees))

    def guarded(self, cx, pos, thunk):
        try:
            return thunk()
        except Unknown as u:
            return self.unk(cx, pos, u)
        except RecursionError:
            return self.unk(cx, pos, "translator recursion limit")

    # -- expressions
    def ev_list(self, es, env, cx, k, acc=None):
        acc = acc or []
        if not es:
            return k(acc, env)
        return self.ev(es[0], env, cx, lambda v, env2: self.ev_list(es[1:], env2, cx, k, acc + [v]))

    def ev(self, e, env, cx, k):
        t = e[0]
        m = getattr(self, "ev_" + t, None)
        if m is None:
            raise Unknown("expression form %s" % t)
        return m(e, env, cx, k)

    def ev_lit(self, e, env, cx, k):
        if e[1] == "str":
            return k(StrV(e[2]), env)
        if e[1] == "bool":
            return k(BoolV(e[2]), env)
        return k(OPQ, env)

    def ev_path(self, e, env, cx, k):
        segs = e[1]
        if len(segs) == 1:
            v = env.lookup(segs[0])
            if v is not None:
                if cx.probe.cur is not None and isinstance(v, Pos) and v.origin is not None:
                    cx.probe.cur.add(v.origin)
                return k(v, env)
        return k(self.global_path(segs, cx), env)

    def global_path(self, segs, cx):
        last = segs[-1]
        if len(segs) == 1:
            if last in ("Ok", "Err", "Some"):
                return Special(last)
            if last == "None":
                return NONE
            if last == "Failure":                   # `use nom::Err::Failure`
                return Special("Err::Failure")
            r = self.S.resolve(last, cx.mod)
            return self.ref_of(r)
        j = "::".join(segs)
        if segs[-2:] == ["Err", "Error"]:
            return Special("Err::Error")
        if segs[-2:] == ["Err", "Failure"]:
            return Special("Err::Failure")
        if segs[-2:] == ["Err", "Incomplete"]:
            return OPQ
        if segs[-2:] == ["ParseError", "new"] or last == "make_error":
            return Special("ParseError::new")
        if segs[-2:] == ["Box", "new"]:
            return Special("Box::new")
        if segs[-2:] == ["ParseString", "new"]:
            return Special("ParseString::new")
        if segs[0] == "crate" and len(segs) >= 3 and segs[-2] in self.S.fns and last in self.S.fns[segs[-2]]:
            return self.ref_of(("fn", segs[-2], last))
        if segs[0] in ("nom",) and last in ("Ok", "Err"):
            return Special(last)
        return OPQ

    def ref_of(self, r):
        if r is None:
            return OPQ
        if r[0] == "nom":
            return NomRef(r[1])
        fi = self.S.fns[r[1]][r[2]]
        if (r[1], r[2]) in self.keys:
            return FnRef(self.keys[(r[1], r[2])])
        if fi.is_hof:
            return HofRef(fi)
        return OtherFn(fi)

    def ev_tuple(self, e, env, cx, k):
        return self.ev_list(e[1], env, cx, lambda vs, env2: k(Tup(vs), env2))

    def ev_array(self, e, env, cx, k):
        return self.ev_list(e[1], env, cx, lambda vs, env2: k(VecV(vs), env2))

    def ev_cast(self, e, env, cx, k):
        return self.ev(e[1], env, cx, lambda v, env2: k(OPQ, env2))

    def ev_range(self, e, env, cx, k):
        es = [x for x in (e[1], e[2]) if x is not None]
        return self.ev_list(es, env, cx, lambda vs, env2: k(OPQ, env2))

    def ev_unary(self, e, env, cx, k):
        op = e[1]

        def cont(v, env2):
            if op in ("&", "&mut", "*"):
                return k(v, env2)
            if op == "!" and isinstance(v, BoolV):
                return k(BoolV(not v.b), env2)
            if op == "!" and isinstance(v, CmpV):
                return k(CmpV(v.x, v.y, not v.neg), env2)
            if has_pos(v) or has_parser(v):
                raise Unknown("operator %s on a tracked value" % op)
            return k(OPQ, env2)
        return self.ev(e[2], env, cx, cont)

    def cursor_of(self, e, env):
        """`v.cursor` for a variable v holding a tracked input state -> its position id"""
        if e[0] == "field" and e[2] == "cursor" and e[1][0] == "path" and len(e[1][1]) == 1:
            v = env.lookup(e[1][1][0])
            if isinstance(v, Pos):
                return v
        return None

    def ev_binary(self, e, env, cx, k):
        op = e[1]
        if op in ("==", "!="):
            a, b = self.cursor_of(e[2], env), self.cursor_of(e[3], env)
            if a is not None and b is not None:
                for v in (a, b):
                    if cx.probe.cur is not None and v.origin is not None:
                        cx.probe.cur.add(v.origin)
                return k(CmpV(a.id, b.id, op == "!="), env)

        def left(a, env2):
            if op in ("&&", "||") and isinstance(a, BoolV):
                if (op == "&&") == a.b:
                    return self.ev(e[3], env2, cx, lambda b, env3: k(b if isinstance(b, BoolV) else OPQ, env3))
                return k(a, env2)
            cxr = cx.with_(noapp=True) if op in ("&&", "||") else cx

            def right(b, env3):
                if op in ("&&", "||") and isinstance(b, BoolV):
                    # a is opaque: x && false = false, x || true = true, otherwise opaque
                    if (op == "&&" and not b.b) or (op == "||" and b.b):
                        return k(OPQ, env3)       # the left operand was still evaluated; keep it opaque (conservative)
                return k(OPQ, env3)
            return self.ev(e[3], env2, cxr, right)
        return self.ev(e[2], env, cx, left)

    def ev_struct(self, e, env, cx, k):
        es = [x for _, x in e[2]] + ([e[3]] if e[3] is not None else [])

        def cont(vs, env2):
            if any(has_pos(v) for v in vs):
                raise Unknown("input state stored in a struct literal")
            return k(OPQ, env2)
        return self.ev_list(es, env, cx, cont)

    def ev_index(self, e, env, cx, k):
        return self.ev_list([e[1], e[2]], env, cx, lambda vs, env2: k(OPQ, env2))

    def ev_field(self, e, env, cx, k):
        name = e[2]

        def cont(v, env2):
            if isinstance(v, (Pos, Fresh, Stale)):
                if name in POS_FIELDS:
                    return k(OPQ, env2)
                raise Unknown("field %s of an input state" % name)
            if isinstance(v, PErr):
                if name == "remaining_input":
                    return k(Pos(v.id) if v.id is not None else Fresh(), env2)
                return k(OPQ, env2)
            if isinstance(v, Tup) and name.isdigit() and int(name) < len(v.items):
                return k(v.items[int(name)], env2)
            if has_pos(v) and not isinstance(v, Tup):
                raise Unknown("field %s of a tracked value" % name)
            return k(OPQ, env2)
        return self.ev(e[1], env, cx, cont)

    def ev_closure(self, e, env, cx, k):
        return k(Clo(e[1], e[2], env, cx.mod), env)

    def ev_try(self, e, env, cx, k):
        def cont(v, env2):
            if isinstance(v, ROk):
                return k(v.val, env2)
            if isinstance(v, RErr):
                return cx.ret_k(v, env2)
            raise Unknown("`?` on a value that is not a parser result")
        return self.ev(e[1], env, cx, cont)

    def ev_return(self, e, env, cx, k):
        if e[1] is None:
            return cx.ret_k(UNIT, env)
        return self.ev(e[1], env, cx, lambda v, env2: cx.ret_k(v, env2))

    def ev_break(self, e, env, cx, k):
        if cx.loop is None or e[1] is not None:
            raise Unknown("break outside a translated loop / break with a value")
        return cx.loop.on_break(env)

    def ev_continue(self, e, env, cx, k):
        if cx.loop is None:
            raise Unknown("continue outside a translated loop")
        return cx.loop.on_continue(env)

    def ev_assign(self, e, env, cx, k):
        op, lhs, rhs = e[1], e[2], e[3]

        def cont(v, env2):
            if lhs[0] == "path" and len(lhs[1]) == 1:
                name = lhs[1][0]
                old = env2.lookup(name)
                if op != "=":
                    if has_pos(v) or (old is not None and has_pos(old)):
                        raise Unknown("compound assignment on a tracked value")
                    return k(UNIT, env2)
                if old is None:
                    raise Unknown("assignment to unknown variable %s" % name)
                if cx.loop is not None and cx.loop.base_depth < 0 and (has_pos(v) or has_pos(old)):
                    raise ImpureLoop()
                env3, _ = env2.assign(name, v)
                return k(UNIT, env3)
            # field / index assignment: only refuse what could move an input state
            root = lhs
            fields = []
            while root[0] in ("field", "index"):
                if root[0] == "field":
                    fields.append(root[2])
                root = root[1]
            if root[0] == "unary":
                root = root[2]
            if root[0] == "path" and len(root[1]) == 1:
                rv = env2.lookup(root[1][0])
                if isinstance(rv, (Pos, Fresh, Stale)) and (not fields or fields[-1] in ("cursor", "location", "graphemes")):
                    raise Unknown("assignment to the cursor of an input state")
            if has_pos(v):
                raise Unknown("input state stored through a field assignment")
            return k(UNIT, env2)
        return self.ev(rhs, env, cx, cont)

    def ev_macro(self, e, env, cx, k):
        name, toks, pos = e[1], e[2], e[3]
        if name in ("panic", "unreachable", "todo", "unimplemented"):
            s = self.site(cx, pos)
            self.panic_sites.add(s)
            return ("panic", s + ":" + name)
        if name in self.S.macros and name in ("label", "labelr"):
            out = R.expand_macro(self.S.macros[name], toks)
            if out is None:
                raise Unknown("macro %s! does not expand" % name)
            p = R.Parser(list(out), self.S.cfg_eval)
            try:
                ex = p.expr()
                if p.peek().k != "eof":
                    raise R.ParseFail("trailing tokens")
            except R.ParseFail as pf:
                raise Unknown("macro %s!: %s" % (name, pf))
            # the macro bodies refer to functions of parser.rs
            return self.ev(ex, env, cx.with_(mod=cx.mod), k)
        if name == "vec":
            parts = R.split_top(toks)
            es = []
            for part in parts:
                p = R.Parser(list(part), self.S.cfg_eval)
                try:
                    es.append(p.expr())
                except R.ParseFail as pf:
                    raise Unknown("vec!: %s" % pf)
            return self.ev_list(es, env, cx, lambda vs, env2: k(VecV(vs), env2))
        if name in ("matches", "format", "println", "print", "eprintln", "write", "writeln", "assert", "assert_eq", "debug_assert", "dbg", "concat", "stringify"):
            # their arguments may mention variables but cannot apply a parser to an input state we track, except by a call
            # expression: refuse those that contain an opening parenthesis directly after an identifier that names a parser
            for n, t in enumerate(toks):
                if t.k == "id" and n + 1 < len(toks) and toks[n + 1].s == "(" and self.S.resolve(t.s, cx.mod) is not None and env.lookup(t.s) is None:
                    if name != "matches":
                        raise Unknown("macro %s! with a call inside" % name)
            return k(OPQ, env)
        raise Unknown("macro %s!" % name)

    # -- calls
    def ev_call(self, e, env, cx, k):
        f, args, pos = e[1], e[2], e[3]

        def with_f(fv, env1):
            return self.ev_list(args, env1, cx, lambda avs, env2: self.do_call(fv, avs, env2, cx, k, pos))
        return self.ev(f, env, cx, with_f)

    def do_call(self, fv, avs, env, cx, k, pos):
        if isinstance(fv, Special):
            return k(self.special(fv.name, avs, cx, pos), env)
        if isinstance(fv, NomRef):
            if fv.name == "eof" and len(avs) == 1 and isinstance(avs[0], (Pos, Fresh, Stale)):
                return self.apply(fv, avs[0], env, cx, k, pos)
            return k(Comb(fv.name, avs, pos), env)
        if isinstance(fv, HofRef):
            if fv.fi.name == "alt_best":
                return self.alt_best(avs, env, cx, k, pos)
            return self.call_hof(fv.fi, avs, env, cx, k, pos)
        if isinstance(fv, OtherFn):
            return self.call_other(fv.fi, avs, env, cx, k, pos)
        if avs and isinstance(avs[0], (Pos, Fresh, Stale)) and (is_parser_value(fv) or isinstance(fv, Opq)):
            if isinstance(fv, FnRef) or len(avs) == 1:
                return self.apply(fv, avs[0], env, cx, k, pos)
        if isinstance(fv, Opq):
            if any(has_pos(a) for a in avs):
                raise Unknown("input state passed to an unknown function")
            for a in avs:
                self.check_opaque_arg(a, cx)
            return k(OPQ, env)
        raise Unknown("call of a parser value with unexpected arguments")

    def check_opaque_arg(self, a, cx):
        """a value handed to code we do not follow must not be able to run a parser on a tracked input"""
        if isinstance(a, Clo):
            if self.mentions_parser(a.body, a.env, a.mod, a.params):
                raise Unknown("closure that mentions a parser handed to opaque code")
        elif is_parser_value(a):
            raise Unknown("parser handed to opaque code")
        elif isinstance(a, (Tup, VecV)):
            for x in a.items:
                self.check_opaque_arg(x, cx)

    def mentions_parser(self, ast, env, mod, params=()):
        found = []
        bound = set()

        def pats(n):
            if isinstance(n, tuple):
                if n and n[0] == "pid":
                    bound.add(n[1])
                for x in n:
                    pats(x)
            elif isinstance(n, list):
                for x in n:
                    pats(x)
        pats(ast)
        pats(list(params))

        def walk(n):
            if found or not isinstance(n, tuple):
                return
            if n and n[0] == "path" and isinstance(n[1], list):
                segs = n[1]
                if len(segs) == 1:
                    if segs[0] in bound:
                        return
                    if env.lookup(segs[0]) is None:
                        r = self.S.resolve(segs[0], mod)
                        if r is not None and (r[0] == "nom" or (r[1], r[2]) in self.keys or self.S.fns[r[1]][r[2]].is_hof):
                            found.append(segs[0])
                    else:
                        v = env.lookup(segs[0])
                        if has_pos(v) or has_parser(v):
                            found.append(segs[0])
                elif segs[0] == "crate":
                    found.append("::".join(segs))
                return
            if n and n[0] == "macro":
                for t in n[2]:
                    if t.k == "id" and t.s not in bound and self.S.resolve(t.s, mod) is not None and env.lookup(t.s) is None:
                        r = self.S.resolve(t.s, mod)
                        if r[0] == "nom" or (r[1], r[2]) in self.keys:
                            found.append(t.s)
                return
            for x in n:
                if isinstance(x, tuple):
                    walk(x)
                elif isinstance(x, list):
                    for y in x:
                        if isinstance(y, tuple):
                            walk(y)
        walk(ast)
        return bool(found)

    def special(self, name, avs, cx, pos):
        a = avs[0] if avs else OPQ
        if name == "Ok":
            return ROk(a)
        if name == "Some":
            return SomeV(a)
        if name == "Box::new":
            return a
        if name == "ParseString::new":
            return Fresh()
        if name == "ParseError::new":
            if isinstance(a, Pos):
                return PErr(a.id)
            if isinstance(a, Fresh):
                return PErr(None)
            raise Unknown("ParseError built from an untracked input")
        if name in ("Err::Error", "Err::Failure"):
            kind = "E" if name.endswith("Error") else "F"
            if isinstance(a, PErr):
                return NomErr(kind, a.id)
            raise Unknown("nom::Err built from an untracked error")
        if name == "Err":
            if isinstance(a, NomErr):
                return RErr(a.kind, a.id)
            if isinstance(a, Opq):
                return RErr("?", None)
            raise Unknown("Err(..) of an unexpected value")
        raise Unknown("constructor %s" % name)

    def call_other(self, fi, avs, env, cx, k, pos):
        """a crate function that is not a parser: opaque, unless it can reach the grammar (then it is a parse of another text)"""
        if any(has_pos(a) for a in avs):
            raise Unknown("input state passed to the non-parser function %s" % fi.name)
        for a in avs:
            self.check_opaque_arg(a, cx)
        names = self.fn_mentions(fi)
        if names:
            self.nested.setdefault(self.site(cx, pos), sorted(names))
        return k(OPQ, env)

    def fn_mentions(self, fi):
        key = (fi.file, fi.name)
        if key not in self.other_mentions:
            names = set()
            for t in fi.body_toks:
                if t.k == "id":
                    r = self.S.resolve(t.s, fi.file)
                    if r is not None and r[0] == "fn" and (r[1], r[2]) in self.keys:
                        names.add(self.keys[(r[1], r[2])])
            self.other_mentions[key] = names
        return self.other_mentions[key]

    def call_hof(self, fi, avs, env, cx, k, pos):
        """inline a combinator defined in the parser sources (null, range, is, is_not, label_*, tag, recover)"""
        if fi.ast is None:
            p = R.Parser(list(fi.body_toks), self.S.cfg_eval)
            try:
                fi.ast = p.block()
            except R.ParseFail as pf:
                raise Unknown("combinator %s: %s" % (fi.name, pf))
        frame = {}
        for n, (pname, _) in enumerate(fi.params):
            frame[pname] = avs[n] if n < len(avs) else OPQ
        env_in = Env(({}, frame))
        cx_in = Cx(cx.scope, lambda v, env_r: k(v, env), fi.file, cx.fn, None, cx.noapp, cx.probe)
        return self.ex_block(fi.ast, env_in, cx_in, lambda v, env_r: k(v, env))

    def alt_best(self, avs, env, cx, k, pos):
        if len(avs) != 2 or not isinstance(avs[0], (Pos, Fresh, Stale)):
            raise Unknown("alt_best with unexpected arguments")
        if not self.S.alt_best_ok or not isinstance(avs[1], VecV):
            raise Unknown("alt_best is not the modelled version / parser table is not a literal vec!")
        alts = []
        for it in avs[1].items:
            if not (isinstance(it, Tup) and len(it.items) == 2 and isinstance(it.items[0], StrV)):
                raise Unknown("alt_best table entry is not (label, parser)")
            alts.append((it.items[0].s == "mech_code", self.to_pexp(it.items[1], cx, pos)))
        return self.apply_pexp(("altbest", tuple(alts)), avs[0], env, cx, k, pos)

    # -- application of a parser to an input state: the fork
    def apply(self, pv, posv, env, cx, k, pos):
        return self.apply_pexp(self.to_pexp(pv, cx, pos), posv, env, cx, k, pos)

    def apply_pexp(self, p, posv, env, cx, k, pos):
        if cx.noapp:
            if cx.loop is not None and cx.loop.base_depth < 0:
                raise ImpureLoop()
            raise Unknown("parser applied inside a conditionally evaluated operand")
        cx.scope.apps += 1
        if isinstance(posv, Stale):
            raise Unknown("parser applied to an input state that cannot be related to the function's entry")
        if isinstance(posv, Fresh):
            s = self.site(cx, pos)
            self.nested.setdefault(s, sorted(self.pexp_calls(p)))
            okv = ROk(Tup([Fresh(), OPQ]))
            a = self.guarded(cx, pos, lambda: k(okv, env))
            try:
                b = self.guarded(cx, pos, lambda: k(RErr("?", None), env))
            except NeedKind as nk:
                if nk.eid is not None:
                    raise
                b1 = self.guarded(cx, pos, lambda: k(RErr("E", None), env))
                b2 = self.guarded(cx, pos, lambda: k(RErr("F", None), env))
                b = b1 if alpha_eq(b1, b2) else ("if", s + ":nested-kind", b1, b2)
            return a if alpha_eq(a, b) else ("if", s + ":nested-parse", a, b)
        x = posv.id
        y, e = cx.scope.fresh(), cx.scope.fresh()
        okv = ROk(Tup([Pos(y), OPQ]))
        kok = self.guarded(cx, pos, lambda: k(okv, env))
        kfail = None
        try:
            kerr = self.guarded(cx, pos, lambda: k(RErr("?", e), env))
        except NeedKind as nk:
            if nk.eid != e:
                raise
            kerr = self.guarded(cx, pos, lambda: k(RErr("E", e), env))
            kfail = self.guarded(cx, pos, lambda: k(RErr("F", e), env))
            if alpha_eq(kfail, kerr):
                kfail = None
        return ("app", p, x, y, e, kok, kerr, kfail)

    def pexp_calls(self, p):
        out = set()

        def walk(n):
            if isinstance(n, tuple):
                if n and n[0] == "call":
                    out.add(n[1])
                for x in n:
                    walk(x)
        walk(p)
        return out

    # -- method calls
    def ev_mcall(self, e, env, cx, k):
        recv, name, args, pos = e[1], e[2], e[3], e[4]
        # `x.consume_*(..)` mutates the variable x: handle before evaluating the receiver
        if name.startswith("consume_") and recv[0] == "path" and len(recv[1]) == 1:
            rv = env.lookup(recv[1][0])
            if isinstance(rv, Pos):
                return self.ev_list(args, env, cx, lambda avs, env2: self.consume(recv[1][0], name, avs, env2, cx, k, pos))

        def with_r(rv, env1):
            return self.ev_list(args, env1, cx, lambda avs, env2: self.do_mcall(rv, name, avs, env2, cx, k, pos))
        return self.ev(recv, env, cx, with_r)

    def consume(self, var, meth, avs, env, cx, k, pos):
        rv = env.lookup(var)
        if cx.probe.cur is not None and rv.origin is not None:
            cx.probe.cur.add(rv.origin)
        ok = self.S.consuming.get(meth, False)
        nm = meth
        if meth == "consume_tag":
            a = avs[0] if avs else OPQ
            if isinstance(a, StrV):
                if a.s == "":
                    ok, nm = False, "consume_tag_empty"
            else:
                ok, nm = False, "consume_tag_dyn"
        elif meth not in self.S.consuming:
            raise Unknown("unknown ParseString method %s" % meth)
        leaf = ("leaf", nm, bool(ok))

        def cont(v, env2):
            if isinstance(v, ROk):
                y = v.val.items[0]
                env3, _ = env2.assign(var, y)
                return k(SomeV(OPQ), env3)
            return k(NONE, env2)
        if cx.loop is not None and cx.loop.base_depth < 0:
            raise ImpureLoop()
        return self.apply_pexp(leaf, rv, env, cx, cont, pos)

    def do_mcall(self, rv, name, avs, env, cx, k, pos):
        if isinstance(rv, (Pos, Fresh, Stale)):
            if name == "clone":
                return k(rv, env)
            if name in PURE_POS_METHODS:
                return k(OPQ, env)
            raise Unknown("method %s on an input state" % name)
        if isinstance(rv, (ROk, RErr)):
            ok = isinstance(rv, ROk)
            if name == "is_ok":
                return k(BoolV(ok), env)
            if name == "is_err":
                return k(BoolV(not ok), env)
            if name == "clone":
                return k(rv, env)
            if name == "ok":
                return k(SomeV(rv.val) if ok else NONE, env)
            if name == "map" and len(avs) == 1:
                if not ok:
                    return k(rv, env)
                return self.call_value(avs[0], [rv.val], env, cx, lambda v, env2: k(ROk(v), env2), pos)
            if name == "unwrap" or name == "expect":
                if ok:
                    return k(rv.val, env)
                s = self.site(cx, pos)
                self.panic_sites.add(s)
                return ("panic", s + ":unwrap")
            raise Unknown("method %s on a parser result" % name)
        if isinstance(rv, (SomeV, NoneV)):
            some = isinstance(rv, SomeV)
            if name == "is_some":
                return k(BoolV(some), env)
            if name == "is_none":
                return k(BoolV(not some), env)
            if name in ("clone", "copied", "cloned", "as_ref", "as_mut"):
                return k(rv, env)
            if name == "unwrap" and some:
                return k(rv.val, env)
            if has_pos(rv):
                raise Unknown("method %s on an option holding an input state" % name)
            for a in avs:
                self.check_opaque_arg(a, cx)
            return k(OPQ, env)
        if isinstance(rv, PErr):
            if name in ("log", "clone"):
                return k(rv if name == "clone" else UNIT, env)
            raise Unknown("method %s on a ParseError" % name)
        if isinstance(rv, NomErr):
            if name == "clone":
                return k(rv, env)
            raise Unknown("method %s on a nom error" % name)
        if is_parser_value(rv):
            if name == "parse" and len(avs) == 1 and isinstance(avs[0], (Pos, Fresh, Stale)):
                return self.apply(rv, avs[0], env, cx, k, pos)
            if name == "clone":
                return k(rv, env)
            raise Unknown("method %s on a parser" % name)
        if isinstance(rv, Tup) and has_pos(rv):
            if name == "clone":
                return k(rv, env)
            raise Unknown("method %s on a tuple holding an input state" % name)
        if has_pos(rv) or has_parser(rv):
            if name in ("clone", "iter", "into_iter"):
                return k(rv, env)
            raise Unknown("method %s on a container of tracked values" % name)
        if any(has_pos(a) for a in avs):
            raise Unknown("input state passed to method %s" % name)
        for a in avs:
            self.check_opaque_arg(a, cx)
        if isinstance(rv, StrV) and name in ("to_string", "clone", "into", "to_owned"):
            return k(rv, env)
        return k(OPQ, env)

    def call_value(self, fv, avs, env, cx, k, pos):
        """call a closure value on ordinary arguments (Result::map's closure)"""
        if isinstance(fv, Clo):
            env_in = fv.env.push()
            for n, ppat in enumerate(fv.params):
                st, env_in = self.bind(ppat, avs[n] if n < len(avs) else OPQ, env_in)
            cx_in = Cx(cx.scope, lambda v, env_r: k(v, env), fv.mod, cx.fn, None, cx.noapp, cx.probe)
            return self.ev(fv.body, env_in, cx_in, lambda v, env_r: k(v, env))
        if isinstance(fv, Special):
            return k(self.special(fv.name, avs, cx, pos), env)
        if any(has_pos(a) for a in avs):
            raise Unknown("input state passed to an unknown function value")
        return k(OPQ, env)

    # -- blocks, statements
    def ev_block(self, e, env, cx, k):
        return self.ex_block(e, env, cx, k)

    def ex_block(self, blk, env, cx, k):
        stmts, tail = blk[1], blk[2]
        return self.ex_stmts(stmts, 0, tail, env.push(), cx, lambda v, env2: k(v, env2.pop()))

    def ex_stmts(self, stmts, i, tail, env, cx, k):
        if i >= len(stmts):
            if tail is None:
                return k(UNIT, env)
            return self.ev(tail, env, cx, k)
        st = stmts[i]
        nxt = lambda env2: self.ex_stmts(stmts, i + 1, tail, env2, cx, k)
        if st[0] == "item":
            return nxt(env)
        if st[0] == "let":
            pat, init, els = st[1], st[2], st[3]
            if init is None:
                _, env2 = self.bind(pat, OPQ, env)
                return nxt(env2)

            def cont(v, env2):
                stt, env3 = self.bind(pat, v, env2)
                if stt == "no":
                    if els is not None:
                        return self.ex_block(els, env2, cx, lambda v2, env4: nxt(env4))
                    raise Unknown("let pattern cannot match")
                if stt == "maybe" and els is not None:
                    a = self.guarded(cx, st[4], lambda: nxt(env3))
                    b = self.guarded(cx, st[4], lambda: self.ex_block(els, env2, cx, lambda v2, env4: nxt(env4)))
                    return ("if", self.site(cx, st[4]), a, b)
                return nxt(env3)
            return self.ev(init, env, cx, cont)
        if st[0] == "expr":
            return self.ev(st[1], env, cx, lambda v, env2: nxt(env2))
        raise Unknown("statement form %s" % st[0])

    # -- patterns:  returns ('yes' | 'no' | 'maybe', env)
    def bind(self, pat, v, env):
        t = pat[0]
        if t == "pwild" or t == "prest":
            return "yes", env
        if t == "pid":
            env2 = env.bind(pat[1], v)
            if pat[2] is not None:
                st, env2 = self.bind(pat[2], v, env2)
                return st, env2
            return "yes", env2
        if t == "pref":
            return self.bind(pat[1], v, env)
        if t == "ptuple":
            ps = pat[1]
            if isinstance(v, Tup) and len(v.items) == len(ps) and not any(p[0] == "prest" for p in ps):
                res = "yes"
                for p, x in zip(ps, v.items):
                    st, env = self.bind(p, x, env)
                    if st == "no":
                        return "no", env
                    if st == "maybe":
                        res = "maybe"
                return res, env
            if has_pos(v) and not isinstance(v, Tup):
                raise Unknown("tuple pattern on a tracked non-tuple value")
            if isinstance(v, Tup) and has_pos(v):
                raise Unknown("tuple pattern of different arity on a tracked tuple")
            res = "yes"
            for p in ps:
                st, env = self.bind(p, OPQ, env)
                if st != "yes":
                    res = "maybe"
            return res, env
        if t == "por":
            res = "no"
            for p in pat[1]:
                st, env2 = self.bind(p, v, env)
                if st == "yes":
                    return "yes", env2
                if st == "maybe":
                    res = "maybe"
                    envm = env2
            return (res, envm) if res == "maybe" else ("no", env)
        if t == "pts":
            path, ps = pat[1], pat[2]
            last = path[-1]
            sub = ps[0] if ps else ("pwild",)
            if last == "Ok" and len(path) == 1:
                if isinstance(v, ROk):
                    return self.bind(sub, v.val, env)
                if isinstance(v, RErr):
                    return "no", env
            elif last == "Err" and len(path) == 1:
                if isinstance(v, RErr):
                    return self.bind(sub, NomErr(v.kind, v.id), env)
                if isinstance(v, ROk):
                    return "no", env
            elif last in ("Error", "Failure") and (len(path) == 1 and last == "Failure" or path[-2:-1] == ["Err"]):
                if isinstance(v, NomErr):
                    if v.kind == "?":
                        raise NeedKind(v.id)
                    if (v.kind == "E") == (last == "Error"):
                        return self.bind(sub, PErr(v.id), env)
                    return "no", env
            elif last == "Incomplete":
                if isinstance(v, NomErr):
                    return "no", env
            elif last == "Some" and len(path) == 1:
                if isinstance(v, SomeV):
                    return self.bind(sub, v.val, env)
                if isinstance(v, NoneV):
                    return "no", env
            if has_pos(v):
                raise Unknown("pattern %s on a tracked value" % "::".join(path))
            for p in ps:
                _, env = self.bind(p, OPQ, env)
            return "maybe", env
        if t == "ppath":
            if pat[1] == ["None"]:
                if isinstance(v, NoneV):
                    return "yes", env
                if isinstance(v, SomeV):
                    return "no", env
            if has_pos(v):
                raise Unknown("path pattern on a tracked value")
            return "maybe", env
        if t == "pstruct":
            if has_pos(v):
                raise Unknown("struct pattern on a tracked value")
            for _, p in pat[2]:
                _, env = self.bind(p, OPQ, env)
            return "maybe", env
        if t in ("plit", "prange"):
            if has_pos(v):
                raise Unknown("literal pattern on a tracked value")
            return "maybe", env
        if t == "pslice":
            if has_pos(v):
                raise Unknown("slice pattern on a tracked value")
            for p in pat[1]:
                _, env = self.bind(p, OPQ, env)
            return "maybe", env
        raise Unknown("pattern form %s" % t)

    # -- if / match
    def ev_if(self, e, env, cx, k):
        cond, then, els, pos = e[1], e[2], e[3], e[4]

        def run_else(env2):
            if els is None:
                return k(UNIT, env2)
            return self.ev(els, env2, cx, k)
        if cond[0] == "letcond":
            def cont(v, env2):
                st, env3 = self.bind(cond[1], v, env2.push())
                if st == "yes":
                    return self.ex_block(then, env3, cx, lambda r, env4: k(r, env4.pop()))
                if st == "no":
                    return run_else(env2)
                a = self.guarded(cx, pos, lambda: self.ex_block(then, env3, cx, lambda r, env4: k(r, env4.pop())))
                b = self.guarded(cx, pos, lambda: run_else(env2))
                return a if alpha_eq(a, b) else ("if", self.site(cx, pos), a, b)
            return self.ev(cond[2], env, cx, cont)

        def cont(v, env2):
            if isinstance(v, BoolV):
                return self.ex_block(then, env2, cx, k) if v.b else run_else(env2)
            if isinstance(v, CmpV) and (v.x == 0) != (v.y == 0):
                # an explicit progress check against the entry position of this function / loop iteration
                other = v.y if v.x == 0 else v.x
                same = self.guarded(cx, pos, lambda: self.ex_block(then, env2, cx, k))
                diff = self.guarded(cx, pos, lambda: run_else(env2))
                if v.neg:
                    same, diff = diff, same
                return ("guard", "src:" + self.site(cx, pos), other, same, diff)
            a = self.guarded(cx, pos, lambda: self.ex_block(then, env2, cx, k))
            b = self.guarded(cx, pos, lambda: run_else(env2))
            return a if alpha_eq(a, b) else ("if", self.site(cx, pos), a, b)
        return self.ev(cond, env, cx, cont)

    def ev_match(self, e, env, cx, k):
        scrut, arms, pos = e[1], e[2], e[3]

        def cont(v, env2):
            return self.match_arms(v, arms, 0, env2, cx, k, pos)
        return self.ev(scrut, env, cx, cont)

    def later_arm_possible(self, v, arms, i, env):
        for pat, guard, body in arms[i:]:
            try:
                st, _ = self.bind(pat, v, env.push())
            except (NeedKind, Unknown):
                return True
            if st != "no":
                return True
        return False

    def match_arms(self, v, arms, i, env, cx, k, pos):
        if i >= len(arms):
            raise Unknown("no match arm applies")
        pat, guard, body = arms[i]
        st, env_b = self.bind(pat, v, env.push())
        if st == "no":
            return self.match_arms(v, arms, i + 1, env, cx, k, pos)
        run = lambda: self.ev(body, env_b, cx, lambda r, env3: k(r, env3.pop()))
        last = i == len(arms) - 1
        if st == "yes" and guard is None:
            return run()
        if st == "maybe" and guard is None and (last or not self.later_arm_possible(v, arms, i + 1, env)):
            return run()
        if guard is not None:
            def gcont(gv, env_g):
                if isinstance(gv, BoolV) and st == "yes":
                    return self.ev(body, env_g, cx, lambda r, env3: k(r, env3.pop())) if gv.b else self.match_arms(v, arms, i + 1, env, cx, k, pos)
                a = self.guarded(cx, pos, lambda: self.ev(body, env_g, cx, lambda r, env3: k(r, env3.pop())))
                b = self.guarded(cx, pos, lambda: self.match_arms(v, arms, i + 1, env, cx, k, pos))
                return a if alpha_eq(a, b) else ("if", "%s:arm%d" % (self.site(cx, pos), i), a, b)
            return self.ev(guard, env_b, cx.with_(noapp=True), gcont)
        a = self.guarded(cx, pos, run)
        b = self.guarded(cx, pos, lambda: self.match_arms(v, arms, i + 1, env, cx, k, pos))
        return a if alpha_eq(a, b) else ("if", "%s:arm%d" % (self.site(cx, pos), i), a, b)

    # -- loops
    def ev_while(self, e, env, cx, k):
        cond, body, pos = e[1], e[2], e[3]
        brk = ("block", [("expr", ("break", None, pos), True, pos)], None, pos)
        inner = ("block", [("expr", ("if", cond, body, brk, pos), False, pos)], None, pos)
        return self.ev_loop(("loop", inner, pos), env, cx, k)

    def ev_for(self, e, env, cx, k):
        pat, it, body, pos = e[1], e[2], e[3], e[4]

        def cont(itv, env2):
            if has_pos(itv) or has_parser(itv):
                raise Unknown("for loop over tracked values")
            _, env3 = self.bind(pat, OPQ, env2.push())
            try:
                return self.pure_loop(body, env3, cx, lambda v, env4: k(UNIT, env2), pos)
            except ImpureLoop:
                raise Unknown("for loop that applies parsers (iteration count is not driven by the input)")
        return self.ev(it, env, cx, cont)

    def pure_loop(self, body, env, cx, k, pos):
        """a loop that applies no parser and moves no input state: its iterations only matter through their `return`s.
        Modelled as: opaque choice between running the body once and skipping it."""
        assigned = self.assigned_names(body)
        for i, name, v in list(env.items()):
            if name in assigned and not isinstance(v, Opq):
                if has_pos(v):
                    raise ImpureLoop()
                env = env.replace(i, name, OPQ)
        lc = LoopCtx(lambda env2: k(UNIT, env), lambda env2: k(UNIT, env), -1)
        cx_in = cx.with_(loop=lc, noapp=True)
        once = self.ex_block(body, env, cx_in, lambda v, env2: k(UNIT, env))
        skip = k(UNIT, env)
        return once if alpha_eq(once, skip) else ("if", self.site(cx, pos) + ":pure-loop", once, skip)

    def ev_loop(self, e, env, cx, k):
        body, pos = e[1], e[2]
        # 1. a loop without parser applications?
        try:
            return self.pure_loop(body, env, cx, k, pos)
        except ImpureLoop:
            if cx.loop is not None and cx.loop.base_depth < 0:
                raise
        assigned = self.assigned_names(body)
        for i, name, v in list(env.items()):
            if name in assigned and not has_pos(v) and not isinstance(v, Opq):
                env = env.replace(i, name, OPQ)
        if cx.noapp:
            raise Unknown("parsing loop inside a conditionally evaluated operand")
        base = env.depth()
        # 2. probe: which input-state variables of the enclosing scope does the loop body read (at their entry value)?
        def tagged(envx):
            out = envx
            for i, name, v in list(envx.items()):
                if isinstance(v, Pos):
                    out = out.replace(i, name, Pos(v.id, origin=(i, name)))
            return out
        probe = set()
        dummy = ("ret", "ok", 0)
        lc0 = LoopCtx(lambda env2: dummy, lambda env2: dummy, base)
        cx0 = Cx(Scope(), lambda v, env2: dummy, cx.mod, cx.fn, lc0, False, cx.probe)
        saved = self.snapshot()
        old_cur = cx.probe.cur
        cx.probe.cur = probe
        try:
            self.ex_block(body, tagged(env), cx0, lambda v, env2: dummy)
        finally:
            cx.probe.cur = old_cur
            self.restore(saved)
        ids = set(env.frames[i][name].id for (i, name) in probe)
        if len(ids) != 1:
            raise Unknown("loop reads %d different input states of the enclosing scope" % len(ids))
        v0 = ids.pop()
        # 3. which of them does the code after the loop read?
        probe_after = set()
        old_cur = cx.probe.cur
        cx.probe.cur = probe_after
        saved = self.snapshot()
        try:
            try:
                k(UNIT, tagged(env))
            except Unknown:
                pass
        finally:
            cx.probe.cur = old_cur
            self.restore(saved)
        # 4. the code after the loop, run on the loop's exit position y
        y, eerr = cx.scope.fresh(), cx.scope.fresh()
        if not probe_after:
            # nothing after the loop reads an input state: the loop is left only by `return` (a `break` is refused below)
            after = ("ret", "ok", y)
        else:
            env_after = env
            for i, name, v in list(env.items()):
                if isinstance(v, (Pos, PErr, NomErr, RErr)):
                    env_after = env_after.replace(i, name, Pos(y) if (i, name) in probe_after else Stale())
            after = self.guarded(cx, pos, lambda: k(UNIT, env_after))
        trivial_after = after == ("ret", "ok", y)
        # 5. the loop function: one iteration, `continue` = call itself on the new position
        key = "%s$loop@%d.%d" % (cx.fn, pos[0], pos[1])
        self.loop_sites[key] = (cx.fn, pos[0], pos[1])
        env_in = env
        for i, name, v in list(env.items()):
            if isinstance(v, Pos):
                env_in = env_in.replace(i, name, Pos(0) if v.id == v0 else Stale())
            elif isinstance(v, (PErr, NomErr, RErr)):
                env_in = env_in.replace(i, name, Stale())
        scope = Scope()

        def common(env2, names, what):
            outer = env2.truncated(base)
            vals = [outer.frames[i][name] for (i, name) in names]
            if not all(isinstance(x, Pos) for x in vals) or len(set(x.id for x in vals)) != 1:
                raise Unknown("input-state variables disagree at %s" % what)
            return vals[0].id

        def on_continue(env2):
            v = common(env2, probe, "continue")
            a, b = scope.fresh(), scope.fresh()
            return ("app", ("call", key), v, a, b, ("ret", "ok", a), ("ret", "asis", b), None)

        def on_break(env2):
            if not probe_after:
                raise Unknown("break out of a loop whose continuation uses no input state")
            return ("ret", "ok", common(env2, probe_after, "break"))

        def ret_in_loop(v, env2):
            leaf = self.ret_leaf(v)
            if leaf[1] == "ok" and not trivial_after:
                raise Unknown("return Ok inside a loop that is followed by more parsing")
            return leaf
        cx_in = Cx(scope, ret_in_loop, cx.mod, cx.fn, LoopCtx(on_break, on_continue, base), False, cx.probe)
        tree = self.guarded(cx_in, pos, lambda: self.ex_block(body, env_in, cx_in, lambda v, env2: on_continue(env2)))
        self.register_aux(key, ("block", tree))
        return ("app", ("call", key), v0, y, eerr, after, ("ret", "asis", eerr), None)

    def assigned_names(self, ast):
        out = set()

        def walk(n):
            if isinstance(n, tuple):
                if n and n[0] == "assign" and isinstance(n[2], tuple) and n[2][0] == "path" and len(n[2][1]) == 1:
                    out.add(n[2][1][0])
                if n and n[0] == "mcall" and isinstance(n[1], tuple) and n[1][0] == "path" and len(n[1][1]) == 1 and str(n[2]).startswith("consume_"):
                    out.add(n[1][1][0])
                for x in n:
                    walk(x)
            elif isinstance(n, list):
                for x in n:
                    walk(x)
        walk(ast)
        return out

    def snapshot(self):
        return (dict(self.unknown_sites), set(self.panic_sites), dict(self.aux), list(self.aux_order), dict(self.rep_sites),
                dict(self.loop_sites), dict(self.nested))

    def restore(self, s):
        self.unknown_sites, self.panic_sites, self.aux, self.aux_order, self.rep_sites, self.loop_sites, self.nested = (
            dict(s[0]), set(s[1]), dict(s[2]), list(s[3]), dict(s[4]), dict(s[5]), dict(s[6]))

    # -- results
    def ret_leaf(self, v):
        if isinstance(v, ROk):
            x = v.val.items[0] if isinstance(v.val, Tup) and v.val.items else v.val
            if isinstance(x, Pos):
                return ("ret", "ok", x.id)
            raise Unknown("Ok returned with an input state that is not tracked")
        if isinstance(v, RErr):
            if v.id is None:
                raise Unknown("error of a nested parse returned")
            return ("ret", {"?": "asis", "E": "err", "F": "fail"}[v.kind], v.id)
        raise Unknown("function returns a value that is not a parser result")

    # -- parser values -> pexp
    def register_aux(self, key, body):
        if key in self.aux:
            if self.aux[key] == body:
                return key
            n = 2
            while True:
                k2 = "%s~%d" % (key, n)
                b2 = self.rename_call(body, key, k2)
                if k2 not in self.aux or self.aux[k2] == b2:
                    if k2 not in self.aux:
                        self.aux[k2] = b2
                        self.aux_order.append(k2)
                        if key in self.rep_sites:
                            self.rep_sites[k2] = self.rep_sites[key]
                        if key in self.loop_sites:
                            self.loop_sites[k2] = self.loop_sites[key]
                    return k2
                n += 1
        self.aux[key] = body
        self.aux_order.append(key)
        return key

    def rename_call(self, t, old, new):
        if isinstance(t, tuple):
            if len(t) == 2 and t[0] == "call" and t[1] == old:
                return ("call", new)
            return tuple(self.rename_call(x, old, new) for x in t)
        return t

    def to_pexp(self, v, cx, pos):
        if isinstance(v, FnRef):
            return ("call", v.key)
        if isinstance(v, NomRef):
            if v.name == "eof":
                return ("eof",)
            return self.punk(cx, pos, "bare nom function %s used as a parser" % v.name)
        if isinstance(v, Clo):
            return self.clo_pexp(v, cx, pos)
        if isinstance(v, Comb):
            try:
                return self.comb_pexp(v, cx)
            except Unknown as u:
                return self.punk(cx, v.pos, u)
        return self.punk(cx, pos, "parser value is not known statically")

    def punk(self, cx, pos, why):
        s = self.site(cx, pos)
        self.unknown_sites.setdefault(s, str(why)[:160])
        return ("punk", s, tuple(self.cur_callees))

    def clo_pexp(self, c, cx, pos):
        if len(c.params) != 1:
            return self.punk(cx, pos, "closure with %d parameters used as a parser" % len(c.params))
        scope = Scope()
        _, env_in = self.bind(c.params[0], Pos(0), c.env.push())
        cx_in = Cx(scope, lambda v, env2: self.ret_leaf(v), c.mod, cx.fn, None, False, cx.probe)
        cpos = c.body[-1] if isinstance(c.body[-1], tuple) and len(c.body[-1]) == 2 else pos
        tree = self.guarded(cx_in, cpos, lambda: self.ev(c.body, env_in, cx_in, lambda v, env2: self.ret_leaf(v)))
        return ("block", tree)

    def comb_pexp(self, c, cx):
        n, a, pos = c.name, c.args, c.pos
        P = lambda v: self.to_pexp(v, cx, pos)
        if n in ("alt", "tuple"):
            if len(a) != 1 or not isinstance(a[0], Tup):
                raise Unknown("%s without a literal tuple of parsers" % n)
            ps = tuple(P(x) for x in a[0].items)
            return ("alt", self.site(cx, pos), ps) if n == "alt" else ("seq", ps)
        if n in SEQ_COMBS:
            return ("seq", tuple(P(x) for x in a))
        if n in ("opt", "peek", "not", "cut") and len(a) == 1:
            return (n, P(a[0]))
        if n in ("map", "map_res", "map_opt", "verify") and len(a) == 2:
            self.check_opaque_arg(a[1], cx)
            if n == "map":
                return P(a[0])
            s = self.site(cx, pos) + ":" + n
            return ("seq", (P(a[0]), ("block", ("if", s, ("ret", "ok", 0), ("ret", "err", 0)))))
        if n == "value" and len(a) == 2:
            return P(a[1])
        if n in ("recognize", "consumed", "complete", "into") and len(a) == 1:
            return P(a[0])
        if n in ("many0", "many1") and len(a) == 1:
            return self.rep(n, [P(a[0])], cx, pos)
        if n in ("many_till", "separated_list0", "separated_list1") and len(a) == 2:
            return self.rep(n, [P(a[0]), P(a[1])], cx, pos)
        raise Unknown("nom combinator %s is not modelled" % n)

    def rep(self, kind, ps, cx, pos):
        """nom 7 repetition combinators as recursive auxiliary functions with nom's `input_len() == len` guard explicit"""
        if not self.S.nom_ok:
            raise Unknown("nom's %s is not the modelled version" % kind)
        site = "%s:%d.%d" % (cx.fn, pos[0], pos[1])
        base = "%s$%s@%d.%d" % (cx.fn, kind, pos[0], pos[1])

        def tail(key, v, a, b):
            return ("app", ("call", key), v, a, b, ("ret", "ok", a), ("ret", "asis", b), None)

        def guard(kind_, y, k):
            return ("guard", "nom:" + gkey[0], y, ("ret", "err", y), k) if self.S.guards.get(kind_, False) else k
        gkey = [base]

        def build(key):
            loopk = key + "$more"
            if kind == "many0":
                p = ps[0]
                return [(key, ("app", p, 0, 1, 2, guard(kind, 1, tail(key, 1, 3, 4)), ("ret", "ok", 0), ("ret", "asis", 2)))]
            if kind == "many1":
                p = ps[0]
                more = ("app", p, 0, 1, 2, guard(kind, 1, tail(loopk, 1, 3, 4)), ("ret", "ok", 0), ("ret", "asis", 2))
                first = ("app", p, 0, 1, 2, tail(loopk, 1, 3, 4), ("ret", "asis", 2), None)
                return [(loopk, more), (key, first)]
            if kind == "many_till":
                f, g = ps
                inner = ("app", f, 0, 3, 4, guard(kind, 3, tail(key, 3, 5, 6)), ("ret", "asis", 4), None)
                return [(key, ("app", g, 0, 1, 2, ("ret", "ok", 1), inner, ("ret", "asis", 2)))]
            sep, f = ps
            elem = ("app", f, 1, 3, 4, tail(loopk, 3, 5, 6), ("ret", "ok", 0), ("ret", "asis", 4))
            more = ("app", sep, 0, 1, 2, guard(kind, 1, elem), ("ret", "ok", 0), ("ret", "asis", 2))
            if kind == "separated_list1":
                first = ("app", f, 0, 1, 2, tail(loopk, 1, 3, 4), ("ret", "asis", 2), None)
            else:
                first = ("app", f, 0, 1, 2, tail(loopk, 1, 3, 4), ("ret", "ok", 0), ("ret", "asis", 2))
            return [(loopk, more), (key, first)]
        # find a free (or identical) name
        n = 1
        while True:
            key = base if n == 1 else "%s~%d" % (base, n)
            gkey[0] = key
            defs = build(key)
            if all(k2 not in self.aux or self.aux[k2] == ("block", b) for k2, b in defs):
                for k2, b in defs:
                    if k2 not in self.aux:
                        self.aux[k2] = ("block", b)
                        self.aux_order.append(k2)
                self.rep_sites[key] = (kind, cx.fn, pos[0], pos[1])
                return ("call", key)
            n += 1

    # -- a whole function
    def translate_fn(self, fi, key, callees):
        self.cur_callees = tuple(sorted(callees))
        if fi.ast is None:
            p = R.Parser(list(fi.body_toks), self.S.cfg_eval)
            try:
                fi.ast = p.block()
                if p.peek().k != "eof":
                    raise R.ParseFail("trailing tokens")
            except R.ParseFail as pf:
                self.unknown_sites["%s:%d.0" % (key, fi.line)] = "body does not parse: %s" % pf
                return ("punk", "%s:%d.0" % (key, fi.line), self.cur_callees)
        frame = {}
        for n, (pname, _) in enumerate(fi.params):
            frame[pname] = Pos(0) if n == 0 else OPQ
        env = Env(({}, frame))
        cx = Cx(Scope(), lambda v, env2: self.ret_leaf(v), fi.file, key)
        pos = (fi.line, 0)
        tree = self.guarded(cx, pos, lambda: self.ex_block(fi.ast, env, cx, lambda v, env2: self.ret_leaf(v)))
        return ("block", tree)
