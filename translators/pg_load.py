"""translators/pg_load.py — load the parser sources of mech-syntax for the C09 grammar translator:
items of every file, cfg evaluation against the default feature set, macro expansion of item-level macro
invocations (leaf! & co.), name resolution tables, and the source fingerprints the hand-modelled parts rest on
(nom 7's repetition combinators, ParseString::consume_*, alt_best)."""
import glob, hashlib, os, re
import rustmini as R


class Unrecognised(Exception):
    pass


NOM_NAMES = {"alt", "tuple", "pair", "preceded", "delimited", "terminated", "separated_pair", "opt", "peek", "not", "cut", "eof",
             "many0", "many1", "many_till", "separated_list0", "separated_list1", "map", "map_res", "map_opt", "verify", "value",
             "recognize", "many_m_n", "count", "fold_many0", "fold_many1", "many0_count", "many1_count", "take_until", "take_while",
             "anychar", "char", "digit1", "satisfy", "all_consuming", "consumed", "complete", "success", "fail", "into", "flat_map",
             "length_data", "length_value", "length_count", "fill", "fold_many_m_n", "cond", "iterator", "rest", "rest_len"}


def norm(text):
    return re.sub(r"\s+", " ", text).strip()


def sha(text):
    return hashlib.sha256(norm(text).encode("utf-8")).hexdigest()[:16]


def brace_body(src, start):
    """text of the balanced {...} starting at the first `{` at or after `start` (string-literal aware enough for these files)"""
    i = src.find("{", start)
    if i < 0:
        return None
    depth, j, n = 0, i, len(src)
    while j < n:
        c = src[j]
        if c == '"':
            j += 1
            while j < n and src[j] != '"':
                j += 2 if src[j] == "\\" else 1
        elif c == "/" and src.startswith("//", j):
            k = src.find("\n", j)
            j = n if k < 0 else k
            continue
        elif c == "{":
            depth += 1
        elif c == "}":
            depth -= 1
            if depth == 0:
                return src[i:j + 1]
        j += 1
    return None


def fn_text(src, name):
    m = re.search(r"\bfn\s+%s\s*[<(]" % re.escape(name), src)
    if not m:
        return None
    return brace_body(src, m.end())


# ---------------------------------------------------------------------------------------------------------------
# fingerprints of code that is modelled by hand (read once, pinned; a mismatch downgrades the construct to `unknown`)
NOM_VERSION = "7.1.3"
NOM_MULTI_SHA = {           # sha(norm(body)) of nom-7.1.3/src/multi/mod.rs
    "many0": None, "many1": None, "many_till": None, "separated_list0": None, "separated_list1": None,
}
ALT_BEST_SHA = None
# filled in below from the pinned values file (translators/pg_pins.json), created by `parser_grammar.py --pin`
PINS = os.path.join(os.path.dirname(os.path.abspath(__file__)), "pg_pins.json")


class Sources:
    def __init__(self, root, cargo_home=None):
        """root: directory that contains src/syntax (default /repo)"""
        self.root = root
        self.src_dir = os.path.join(root, "src", "syntax", "src")
        if not os.path.isdir(self.src_dir):
            raise Unrecognised("no parser sources under %s" % self.src_dir)
        self.files = {}
        for p in sorted(glob.glob(os.path.join(self.src_dir, "*.rs"))):
            self.files[os.path.basename(p)[:-3]] = open(p, encoding="utf-8").read().replace("\r\n", "\n")
        self.features = self.default_features()
        self.fns = {}            # module -> {name: FnItem}
        self.macros = {}         # name -> MacroRules
        self.uses = {}           # module -> {alias: ('nom', name) | ('crate', module, name)}
        self.status = {}
        self.load_items()
        self.fingerprints(cargo_home)

    # -- cfg
    def default_features(self):
        p = os.path.join(self.root, "src", "syntax", "Cargo.toml")
        feats = {}
        try:
            txt = open(p, encoding="utf-8").read()
        except OSError:
            return set()
        m = re.search(r"^\[features\]\s*$(.*?)(?=^\[|\Z)", txt, re.S | re.M)
        if not m:
            return set()
        for fm in re.finditer(r"^([A-Za-z0-9_\-]+)\s*=\s*\[(.*?)\]", m.group(1), re.S | re.M):
            feats[fm.group(1)] = re.findall(r'"([^"]+)"', fm.group(2))
        on, todo = set(), ["default"]
        while todo:
            f = todo.pop()
            if f in on:
                continue
            on.add(f)
            todo += [x for x in feats.get(f, []) if "/" not in x]
        return on

    def cfg_eval(self, toks):
        """tokens after `cfg`: `( predicate )`"""
        p = R.Parser(list(toks))
        try:
            inner = p.skip_balanced("(", ")")
        except R.ParseFail:
            return True
        return self.cfg_pred(inner)

    def cfg_pred(self, toks):
        if not toks:
            return True
        h = toks[0]
        if h.k == "id" and h.s in ("not", "any", "all") and len(toks) > 1 and toks[1].s == "(":
            q = R.Parser(list(toks[1:]))
            inner = q.skip_balanced("(", ")")
            parts = [self.cfg_pred(x) for x in R.split_top(inner)]
            if h.s == "not":
                return not parts[0]
            return any(parts) if h.s == "any" else all(parts)
        if h.k == "id" and h.s == "feature" and len(toks) >= 3 and toks[2].k == "str":
            return toks[2].s in self.features
        # bare flags: mech_lang_mech_verif (the verification hook), test, debug_assertions, target_* ...
        return False

    # -- items
    def load_items(self):
        invocs = []
        for mod, src in self.files.items():
            try:
                toks = R.tokenize(src)
                fns, macros, inv, uses = R.scan_items(toks, mod, self.cfg_eval)
            except R.ParseFail as ex:
                raise Unrecognised("%s.rs: %s" % (mod, ex))
            self.fns[mod] = {}
            for f in fns:
                self.fns[mod].setdefault(f.name, f)
            for m in macros:
                self.macros[m.name] = m
            invocs += [(mod, nm, inner, line) for nm, inner, line in inv]
            self.uses[mod] = self.use_table(uses)
        # item-level macro invocations (leaf!, ws0_leaf!, ws1_leaf!): expand and scan the result
        self.expanded = 0
        for mod, nm, inner, line in invocs:
            mac = self.macros.get(nm)
            if mac is None:
                continue
            out = R.expand_macro(mac, inner)
            if out is None:
                self.status.setdefault("macro_expansion_failed", []).append("%s.rs:%d %s!" % (mod, line, nm))
                continue
            # the expansion keeps the line numbers of the macro definition for body tokens and of the call for arguments
            try:
                fns, _, _, _ = R.scan_items(out, mod, self.cfg_eval)
            except R.ParseFail as ex:
                self.status.setdefault("macro_expansion_failed", []).append("%s.rs:%d %s!: %s" % (mod, line, nm, ex))
                continue
            for f in fns:
                f.line = line
                f.from_macro = nm
                self.fns[mod].setdefault(f.name, f)
                self.expanded += 1

    def use_table(self, uses):
        tab = {}

        def walk(prefix, toks):
            # toks: a use tree
            parts = R.split_top(toks)
            for part in parts:
                segs, k = [], 0
                while k < len(part):
                    t = part[k]
                    if t.k == "id":
                        if t.s == "as" and k + 1 < len(part):
                            alias = part[k + 1].s
                            record(prefix + segs, alias)
                            segs = None
                            break
                        segs.append(t.s)
                    elif t.k == "p" and t.s == "{":
                        q = R.Parser(list(part[k:]))
                        inner = q.skip_balanced("{", "}")
                        walk(prefix + segs, inner)
                        segs = None
                        break
                    elif t.k == "p" and t.s == "*":
                        segs = None
                        break
                    k += 1
                if segs:
                    record(prefix + segs, segs[-1])

        def record(path, alias):
            if not path:
                return
            if path[0] == "nom" and path[-1] in NOM_NAMES:
                tab[alias] = ("nom", path[-1])
            elif path[0] == "nom":
                tab[alias] = ("nomother", "::".join(path))
            elif path[0] == "crate" and len(path) >= 3:
                tab[alias] = ("crate", path[-2], path[-1])

        for u in uses:
            walk([], u)
        return tab

    # -- fingerprints
    def fingerprints(self, cargo_home):
        import json
        pins = {}
        if os.path.exists(PINS):
            pins = json.load(open(PINS))
        self.pins = pins
        st = self.status
        # nom version used by mech-syntax
        ver = None
        try:
            ct = open(os.path.join(self.root, "src", "syntax", "Cargo.toml"), encoding="utf-8").read()
            m = re.search(r'^nom\s*=\s*"([^"]+)"', ct, re.M)
            ver = m.group(1) if m else None
        except OSError:
            pass
        st["nom_version"] = ver
        self.guards = {}
        nom_ok = False
        cargo_home = cargo_home or os.environ.get("CARGO_HOME") or os.path.expanduser("~/.cargo")
        cands = glob.glob(os.path.join(cargo_home, "registry", "src", "*", "nom-%s" % (ver or "?"), "src", "multi", "mod.rs"))
        cur = {}
        if cands:
            ns = open(cands[0], encoding="utf-8").read()
            nom_ok = True
            for nm in ("many0", "many1", "many_till", "separated_list0", "separated_list1"):
                body = fn_text(ns, nm)
                if body is None:
                    nom_ok = False
                    continue
                cur["nom." + nm] = sha(body)
                self.guards[nm] = "input_len() == len" in body
                if pins.get("nom." + nm) != cur["nom." + nm]:
                    nom_ok = False
        st["nom_source"] = cands[0] if cands else None
        st["nom_multi_as_modelled"] = nom_ok
        self.nom_ok = nom_ok
        # ParseString::consume_*
        lib = self.files.get("lib", "")
        self.consuming = {}
        for nm in ("consume_one", "consume_emoji", "consume_alpha", "consume_digit"):
            body = fn_text(lib, nm)
            ok = False
            if body and "self.cursor += 1" in body:
                before, after = body.split("self.cursor += 1", 1)
                ok = "Some(" not in before and "Some(" in after and "self.cursor -=" not in body and body.count("self.cursor") >= 1
            self.consuming[nm] = ok
        body = fn_text(lib, "consume_tag")
        ok = False
        if body and "self.cursor += gs_len" in body:
            before, after = body.split("self.cursor += gs_len", 1)
            ok = ("Some(" not in before and "Some(" in after and re.search(r"let\s+gs\s*=\s*graphemes::init_tag\(tag\)", before) is not None
                  and re.search(r"let\s+gs_len\s*=\s*gs\.len\(\)", before) is not None and "self.cursor -=" not in body)
        it = fn_text(lib, "init_tag")
        ok = ok and it is not None and "UnicodeSegmentation::graphemes(tag, true)" in it
        self.consuming["consume_tag"] = ok
        st["consume_methods_advance_cursor"] = dict(self.consuming)
        # alt_best
        ab = fn_text(lib, "alt_best")
        cur["alt_best"] = sha(ab) if ab else None
        self.alt_best_ok = ab is not None and pins.get("alt_best") == cur["alt_best"]
        st["alt_best_as_modelled"] = self.alt_best_ok
        self.current_pins = cur

    # -- name resolution
    def module_of_unique(self, name):
        mods = [m for m, d in self.fns.items() if name in d]
        return mods

    def resolve(self, name, mod):
        """-> ('fn', module, name) | ('nom', name) | None"""
        if name in self.fns.get(mod, {}):
            return ("fn", mod, name)
        u = self.uses.get(mod, {}).get(name)
        if u:
            if u[0] == "nom":
                return ("nom", u[1])
            if u[0] == "crate" and u[2] in self.fns.get(u[1], {}):
                return ("fn", u[1], u[2])
            if u[0] == "nomother":
                return None
        u = self.uses.get("lib", {}).get(name)
        if u and u[0] == "nom":
            return ("nom", u[1])
        mods = [m for m in self.module_of_unique(name) if m not in ("formatter", "repl")]
        # private functions of other modules are not visible through the glob re-export
        vis = [m for m in mods if self.is_pub(m, name)]
        if len(vis) == 1:
            return ("fn", vis[0], name)
        return None

    def is_pub(self, mod, name):
        src = self.files[mod]
        if re.search(r"\bpub\s+fn\s+%s\b" % re.escape(name), src):
            return True
        f = self.fns[mod][name]
        return getattr(f, "from_macro", None) is not None     # leaf!-generated functions are `pub fn`
