#!/usr/bin/env python3
"""translators/levels.py — extract the formula grammar levels from the mech sources into Coq.

Reads  /repo/src/syntax/src/expressions.rs      (parsers formula, l1..l7, *_operator, factor, negate/not_factor)
       /repo/src/interpreter/src/expressions.rs  (term(): the fold over Term{lhs, rhs})
Writes coq/theories/Gen/Levels.v (only when its content changes).

Deliberately simple: regular expressions over the text of single functions, no Rust parsing.  When a
function does not have the expected shape the translator raises `Unrecognised` (the plugin then records
`translator: unavailable`; the previously generated Levels.v stays in place).  When it succeeds, the
generated table is *data*: whether it still agrees with the documented levels is decided by Coq
(theorem levels_refine_spec in Proofs/FormulaP.v), not here.
"""
import os as _os
_REPO_ROOT = _os.environ.get("MECH_REPO", "/repo")   # testing aid (seeded runs); registered commands never set it
import os, re, sys

SYNTAX = (_REPO_ROOT + "/src/syntax/src/expressions.rs")
INTERP = (_REPO_ROOT + "/src/interpreter/src/expressions.rs")
ROOT = os.path.dirname(os.path.dirname(os.path.abspath(__file__)))
OUT = os.path.join(ROOT, "coq", "theories", "Gen", "Levels.v")
NLEVELS_MAX = 12


class Unrecognised(Exception):
    pass


def strip_comments(src):
    src = re.sub(r"/\*.*?\*/", "", src, flags=re.S)
    return re.sub(r"//[^\n]*", "", src)


def fn_body(src, name):
    """Text between the braces of `fn name(`; brace matching, no string/char awareness needed for these functions
    except for the quote characters of tag("...") arguments, which never contain braces here."""
    m = re.search(r"\bfn\s+%s\s*\(" % re.escape(name), src)
    if not m:
        raise Unrecognised("function %s not found" % name)
    i = src.find("{", m.end())
    if i < 0:
        raise Unrecognised("function %s has no body" % name)
    depth, j = 0, i
    while j < len(src):
        c = src[j]
        if c == "{":
            depth += 1
        elif c == "}":
            depth -= 1
            if depth == 0:
                return src[i + 1:j]
        j += 1
    raise Unrecognised("function %s: unbalanced braces" % name)


def names_of(expr):
    """`name` or `alt((a, b, c))` -> list of identifiers"""
    expr = expr.strip()
    m = re.fullmatch(r"alt\s*\(\s*\((.*)\)\s*\)", expr, flags=re.S)
    if m:
        parts = [p.strip() for p in m.group(1).split(",") if p.strip()]
    else:
        parts = [expr]
    for p in parts:
        if not re.fullmatch(r"[A-Za-z_]\w*", p):
            raise Unrecognised("operator alternative %r is not a plain parser name" % p)
    return parts


def level_fn(src, name):
    """lN := next, many0(pair(ops, cut(next))) ; Term{lhs, rhs} unless rhs is empty.  -> (next, [group parser names])"""
    b = fn_body(src, name)
    m1 = re.search(r"let\s*\(\s*input\s*,\s*lhs\s*\)\s*=\s*(\w+)\s*\(\s*input\s*\)\s*\?\s*;", b)
    m2 = re.search(r"let\s*\(\s*input\s*,\s*rhs\s*\)\s*=\s*many0\s*\(\s*pair\s*\((.*),\s*cut\s*\(\s*(\w+)\s*\)\s*\)\s*\)\s*\(\s*input\s*\)\s*\?\s*;", b, flags=re.S)
    m3 = re.search(r"if\s+rhs\.is_empty\(\)\s*\{\s*lhs\s*\}\s*else\s*\{\s*Factor::Term\(Box::new\(Term\s*\{\s*lhs\s*,\s*rhs\s*\}\)\)\s*\}", b)
    if not (m1 and m2 and m3):
        raise Unrecognised("%s does not have the shape `next, many0(pair(op, cut(next)))` -> Term{lhs, rhs}" % name)
    if m1.group(1) != m2.group(2):
        raise Unrecognised("%s: lhs parser %s differs from rhs parser %s" % (name, m1.group(1), m2.group(2)))
    return m1.group(1), names_of(m2.group(1))


def group_fn(src, name):
    """X_operator := alt((a, b, ...)) | a   -> [a, b, ...]"""
    b = fn_body(src, name)
    m = re.search(r"let\s*\(\s*input\s*,\s*op\s*\)\s*=\s*(.*?)\(\s*input\s*\)\s*\?\s*;", b, flags=re.S)
    if not m or not re.search(r"FormulaOperator::\w+\(op\)", b):
        raise Unrecognised("%s is not `alt((...))(input)` wrapped into a FormulaOperator" % name)
    return names_of(m.group(1))


def extract():
    src = strip_comments(open(SYNTAX, encoding="utf-8").read())
    # entry
    fb = fn_body(src, "formula")
    m = re.search(r"let\s*\(\s*input\s*,\s*factor\s*\)\s*=\s*(\w+)\s*\(\s*input\s*\)\s*\?\s*;", fb)
    if not m:
        raise Unrecognised("formula does not delegate to a single level parser")
    entry = m.group(1)
    # chain of levels
    chain, rows, groups = [], [], []
    cur = entry
    while cur != "factor":
        if len(chain) >= NLEVELS_MAX or not re.fullmatch(r"l\d+", cur):
            raise Unrecognised("level chain leaves the lN scheme at %r" % cur)
        nxt, grp = level_fn(src, cur)
        ops = []
        for g in grp:
            ops += group_fn(src, g)
        chain.append((cur, nxt)); groups.append(grp); rows.append(ops)
        cur = nxt
    # factor: alternatives, optional transpose afterwards
    fb = fn_body(src, "factor")
    alts = re.findall(r'\(\s*"(\w+)"\s*,\s*Box::new', fb)
    if not alts:
        raise Unrecognised("factor: no alternatives recognised")
    ia = fb.find("alt_best"); it = fb.find("opt(transpose)")
    if ia < 0 or it < ia or "Factor::Transpose(Box::new(fctr))" not in fb:
        raise Unrecognised("factor: optional transpose after the alternatives not recognised")
    # prefix operators parse a *factor* as their operand
    prefix = []
    for nm, tok in (("negate_factor", "dash"), ("not_factor", "not")):
        b = fn_body(src, nm)
        if not re.search(r"=\s*%s\s*\(\s*input\s*\)\s*\?\s*;\s*let\s*\(\s*input\s*,\s*expr\s*\)\s*=\s*(\w+)\s*\(\s*input\s*\)\s*\?" % tok, b):
            raise Unrecognised("%s: not `%s, <operand parser>`" % (nm, tok))
        operand = re.search(r"let\s*\(\s*input\s*,\s*expr\s*\)\s*=\s*(\w+)\s*\(", b).group(1)
        prefix.append((nm, operand))
    pb = fn_body(src, "parenthetical_term")
    mp = re.search(r"label!\(\s*(\w+)\s*,", pb)
    if not mp or "Factor::Parenthetical" not in pb:
        raise Unrecognised("parenthetical_term not recognised")
    paren_inner = mp.group(1)
    # interpreter: how Term{lhs, rhs} is folded
    isrc = strip_comments(open(INTERP, encoding="utf-8").read())
    tb = fn_body(isrc, "term")
    left = (re.search(r"let\s+mut\s+lhs\s*=\s*factor\(\s*&trm\.lhs", tb)
            and re.search(r"for\s*\(\s*op\s*,\s*rhs\s*\)\s*in\s*&trm\.rhs\s*\{", tb)
            and re.search(r"compile\(&vec!\[lhs,\s*rhs\]\)", tb)
            and re.search(r"let\s+res\s*=\s*new_fxn\.out\(\)\s*;", tb)
            and re.search(r"\blhs\s*=\s*res\s*;", tb)
            and re.search(r"return\s+Ok\(lhs\)", tb))
    if not left:
        raise Unrecognised("interpreter term(): accumulator loop over trm.rhs not recognised")
    return dict(entry=entry, chain=chain, groups=groups, rows=rows, factor_alts=alts, prefix=prefix,
                paren_inner=paren_inner, fold="left")


def coq_str(s):
    assert '"' not in s
    return '"%s"' % s


def coq_list(xs):
    return "[" + "; ".join(xs) + "]"


def render(t):
    L = []
    L.append("(* GENERATED by translators/levels.py from %s and %s." % (SYNTAX, INTERP))
    L.append("   Do not edit: regenerated on every run of ./check C02. *)")
    L.append("From Coq Require Import List String.")
    L.append("Import ListNotations.")
    L.append("Open Scope string_scope.")
    L.append("")
    L.append("(* formula := <entry> *)")
    L.append("Definition formula_entry : string := %s." % coq_str(t["entry"]))
    L.append("(* lN := next, (ops, next)*  in the order the chain is traversed from the entry: (lN, next) *)")
    L.append("Definition level_chain : list (string * string) :=\n  %s." %
             coq_list("(%s, %s)" % (coq_str(a), coq_str(b)) for a, b in t["chain"]))
    L.append("(* the operator-group parsers accepted at each level *)")
    L.append("Definition level_groups : list (list string) :=\n  %s." %
             coq_list(coq_list(coq_str(g) for g in gs) for gs in t["groups"]))
    L.append("(* the operator parsers (alternatives of the groups, source order) accepted at each level *)")
    L.append("Definition level_rows : list (list string) :=\n  %s." %
             coq_list("\n   " + coq_list(coq_str(o) for o in ops) for ops in t["rows"]))
    L.append("(* factor := alt_best(alternatives), opt(transpose) *)")
    L.append("Definition factor_alternatives : list string :=\n  %s." % coq_list(coq_str(a) for a in t["factor_alts"]))
    L.append("Definition factor_postfix_transpose : bool := true.")
    L.append("(* prefix operators: (parser, parser of its operand) *)")
    L.append("Definition prefix_operand : list (string * string) :=\n  %s." %
             coq_list("(%s, %s)" % (coq_str(a), coq_str(b)) for a, b in t["prefix"]))
    L.append("(* parenthetical-term := ( <this parser> ) *)")
    L.append("Definition paren_inner : string := %s." % coq_str(t["paren_inner"]))
    L.append("(* interpreter::term(): lhs := f(lhs, rhs_i) for i = 1..n, in order *)")
    L.append("Definition term_fold : string := %s." % coq_str(t["fold"]))
    return "\n".join(L) + "\n"


def regenerate(out=OUT):
    """Returns a status dict; raises Unrecognised when the source cannot be read."""
    t = extract()
    txt = render(t)
    changed = (not os.path.exists(out)) or open(out, encoding="utf-8").read() != txt
    if changed:
        os.makedirs(os.path.dirname(out), exist_ok=True)
        tmp = out + ".tmp%d" % os.getpid()
        open(tmp, "w", encoding="utf-8").write(txt)
        os.replace(tmp, out)
    return dict(status="ok", levels=len(t["rows"]), operators=sum(len(r) for r in t["rows"]),
                rewritten=changed, file=os.path.relpath(out, ROOT))


if __name__ == "__main__":
    try:
        print(regenerate())
    except Unrecognised as ex:
        print("unavailable: %s" % ex)
        sys.exit(2)
