#!/usr/bin/env python3
"""translators/armlib.py — pieces shared by the arm translators (opassign_arms, range_arms, setop_arms, instr_arms, ...).

* `Src`       : one source file (comments blanked, line numbers kept), with site strings "path:line" relative to the repo
* `compile_fn`: the shape every NativeFunctionCompiler::compile of the operand-form families has —
                    let a = arguments[0].clone(); ...                       (bindings)
                    match f(a.clone(), b.clone()) { Ok(fxn) => Ok(fxn),     (direct call)
                      Err(_) => match (a, b) { (Value::MutableReference(a), b) => { f(a.borrow().clone(), b.clone()) } ...
                                               catch-all => Err(..) } }    (unwrap arms, in source order)
                extracted as data; whatever does not have this shape becomes an `Unrecognised` entry
* rendering of the extracted records as Coq terms of Model/SrcArms.v
* `report`    : after a regeneration, compile the proofs file of the family and relay Coq's verdict (which arm is
                irregular) as `[Cxx]` log lines — the decision itself is Coq's (the theorem fails), this is only the message.
"""
import os, re, subprocess, sys
import armrust as R
from armrust import Tm, Unrecognised

REPO = os.environ.get("MECH_REPO", "/repo")     # testing aid (seeded runs); registered commands never set it
ROOT = os.path.dirname(os.path.dirname(os.path.abspath(__file__)))
GEN = os.path.join(ROOT, "coq", "theories", "Gen")


class Src(object):
    def __init__(self, rel):
        self.rel = rel
        self.path = os.path.join(REPO, rel)
        self.text = R.strip_comments_keep_lines(R.read_source(self.path))

    def site(self, line):
        return "%s:%d" % (self.rel, line)


class Bag(object):
    """collects `Unrecognised "file:line: why"` entries instead of raising"""
    def __init__(self):
        self.items = []

    def add(self, src, line, why):
        self.items.append("%s: %s" % (src.site(line) if src is not None else "?", why))

    def guard(self, src, fn, *a):
        """run fn(*a); an Unrecognised raised inside becomes an entry and None is returned"""
        try:
            return fn(*a)
        except Unrecognised as ex:
            self.add(src, ex.line, ex.why)
            return None


# ---------------------------------------------------------------------------------------------------------------
# operand-form `compile` functions
# ---------------------------------------------------------------------------------------------------------------
def accessor(t):
    """x.clone() -> (x, "clone"); x.borrow().clone() -> (x, "borrow.clone"); anything else -> (text, "other")"""
    if t.head == ".clone()" and len(t.args) == 1:
        u = t.args[0]
        if R.leaf(u):
            return (u.head, "clone")
        if u.head == ".borrow()" and len(u.args) == 1 and R.leaf(u.args[0]):
            return (u.args[0].head, "borrow.clone")
    return (R.show(t), "other")


def operand_pattern(p):
    """Value::MutableReference(x) -> ("ref", x); x -> ("plain", x); otherwise ("other", text)"""
    if R.leaf(p) and re.fullmatch(r"[a-z_]\w*", p.head):
        return ("plain", p.head)
    if p.head == "Value::MutableReference" and len(p.args) == 1 and R.leaf(p.args[0]):
        return ("ref", p.args[0].head)
    return ("other", R.show(p))


def binding_of(e):
    """arguments[0].clone() -> "arg0"; arguments.clone().split_off(2) -> "args2.."; else None"""
    if e.head == ".clone()" and len(e.args) == 1 and e.args[0].head == "[]":
        a, i = e.args[0].args
        if R.leaf(a) and a.head == "arguments" and R.leaf(i) and i.head.isdigit():
            return "arg" + i.head
    if e.head == ".split_off()" and len(e.args) == 2:
        a, i = e.args
        if a.head == ".clone()" and a.args[0].head == "arguments" and R.leaf(i) and i.head.isdigit():
            return "args%s.." % i.head
    return None


def call_of(e):
    """f(a, b) possibly inside a one-statement block -> (f, [accessor...]) or None"""
    while e.head == "block" and len(e.args) == 1:
        e = R.unsemi(e.args[0])
    if e.head == "call" and R.leaf(e.args[0]):
        return (e.args[0].head, [accessor(a) for a in e.args[1:]], e.line)
    return None


def is_err_expr(e):
    while e.head == "block" and len(e.args) == 1:
        e = R.unsemi(e.args[0])
    return e.head == "call" and e.args and e.args[0].head == "Err"


def compile_fn(src, struct, bag):
    """the compile() of `impl NativeFunctionCompiler for <struct>` as a dict, or None (entries added to bag)"""
    imp = R.find_impl(src.text, r"NativeFunctionCompiler\s+for\s+%s\b" % re.escape(struct))
    if not imp:
        bag.add(src, 0, "impl NativeFunctionCompiler for %s not found" % struct)
        return None
    fn = R.find_fn(imp[1], "compile")
    if not fn:
        bag.add(src, imp[3], "%s: no compile()" % struct)
        return None
    first = imp[2] + fn[2] - 1
    try:
        body = R.parse_block_text(fn[1], first)
    except Unrecognised as ex:
        bag.add(src, ex.line, "%s::compile: %s" % (struct, ex.why))
        return None
    res = dict(struct=struct, site=src.site(imp[2] + fn[3] - 1), binds=[], direct=None, scrut=[], arms=[], catchall=0)
    the_match = None
    for s in body.args:
        s = R.unsemi(s)
        if s.head == "if":          # the arity check: `if arguments.len() ... { return Err(..) }`
            if not ("arguments" in R.show(s.args[0]) and "return" in R.show(s.args[1])):
                bag.add(src, s.line, "%s::compile: unexpected `if`" % struct)
            continue
        if s.head in ("let", "letmut"):
            b = binding_of(s.args[1])
            if b is None or not R.leaf(s.args[0]):
                bag.add(src, s.line, "%s::compile: binding `%s` is not arguments[i].clone()" % (struct, R.show(s)))
            else:
                res["binds"].append((s.args[0].head, b))
            continue
        if s.head == "match" and the_match is None:
            the_match = s
            continue
        bag.add(src, s.line, "%s::compile: unexpected statement %s" % (struct, s.head))
    if the_match is None:
        bag.add(src, first, "%s::compile: no `match f(..)`" % struct)
        return None
    d = call_of(the_match.args[0])
    if d is None:
        bag.add(src, the_match.line, "%s::compile: scrutinee is not a call" % struct)
        return None
    res["direct"] = (src.site(d[2]), d[0], d[1])
    inner = None
    for arm in the_match.args[1:]:
        pat, guard, body_ = arm.args
        if pat.head == "Ok":
            if R.show(body_) not in ("call(Ok, %s)" % R.show(pat.args[0]),):
                bag.add(src, arm.line, "%s::compile: Ok arm does not return the function" % struct)
        elif pat.head == "Err":
            b = body_
            while b.head == "block" and len(b.args) == 1:
                b = R.unsemi(b.args[0])
            if b.head == "match":
                inner = b
            else:
                bag.add(src, arm.line, "%s::compile: Err arm is not a match on the operands" % struct)
        else:
            bag.add(src, arm.line, "%s::compile: unexpected arm %s" % (struct, R.show(pat)))
    if inner is None:
        return res
    sc = inner.args[0]
    if sc.head != "tuple":
        bag.add(src, inner.line, "%s::compile: operand match is not on a tuple" % struct)
        return res
    for c in sc.args:
        v = c.args[0] if c.head == "&" else c
        if not R.leaf(v):
            bag.add(src, inner.line, "%s::compile: operand tuple component %s" % (struct, R.show(c)))
            return res
        res["scrut"].append(v.head)
    for arm in inner.args[1:]:
        pat, guard, body_ = arm.args
        if guard.head != "_noguard":
            bag.add(src, arm.line, "%s::compile: guarded operand arm" % struct)
            continue
        if is_err_expr(body_):
            res["catchall"] += 1
            if arm is not inner.args[-1]:
                bag.add(src, arm.line, "%s::compile: error arm is not the last arm" % struct)
            continue
        c = call_of(body_)
        if pat.head != "tuple" or len(pat.args) != len(res["scrut"]) or c is None:
            bag.add(src, arm.line, "%s::compile: operand arm not of the form (p, ..) => f(..)" % struct)
            continue
        pats = [operand_pattern(p) for p in pat.args]
        res["arms"].append((src.site(arm.line), pats, c[0], c[1]))
    return res


# ---------------------------------------------------------------------------------------------------------------
# Coq rendering
# ---------------------------------------------------------------------------------------------------------------
cs = R.coq_str
cl = R.coq_list


def coq_pair(a, b):
    return "(%s, %s)" % (a, b)


def coq_acc(a):
    return coq_pair(cs(a[0]), cs(a[1]))


def coq_uarm(a):
    site, pats, callee, args = a
    return "mk_uarm %s %s %s %s" % (cs(site), cl([coq_pair(cs(f), cs(b)) for f, b in pats]), cs(callee), cl([coq_acc(x) for x in args]))


def coq_compile_fn(tag, r):
    """tag: list of leading string fields (e.g. operator, form)"""
    return ("mk_cfn %s %s %s\n      %s\n      (%s, %s, %s)\n      %s\n      %s\n      %d" % (
        cl([cs(t) for t in tag]), cs(r["struct"]), cs(r["site"]),
        cl([coq_pair(cs(v), cs(b)) for v, b in r["binds"]]),
        cs(r["direct"][0]), cs(r["direct"][1]), cl([coq_acc(x) for x in r["direct"][2]]),
        cl([cs(v) for v in r["scrut"]]),
        cl(["(" + coq_uarm(a) + ")" for a in r["arms"]], ";\n       "),
        r["catchall"]))


def header(name, sources, owner):
    return ("(* GENERATED by translators/%s from\n     %s\n   Do not edit: regenerated on every run of %s. *)\n"
            "From Coq Require Import List String.\nFrom MechV Require Import Model.SrcArms.\nImport ListNotations.\nOpen Scope string_scope.\n"
            % (name, "\n     ".join(sources), owner))


# ---------------------------------------------------------------------------------------------------------------
# relaying Coq's verdict
# ---------------------------------------------------------------------------------------------------------------
def report(prop, target, rewritten):
    """Compile `target` (a Proofs/*.vo that states the obligations over the regenerated table) when the table changed
    or the target is not up to date, and log which arms Coq found irregular.  Returns a short status string."""
    coq = os.path.join(ROOT, "coq")
    vo = os.path.join(coq, target)
    if not rewritten and os.path.exists(vo):
        return "proofs-up-to-date"
    sys.path.insert(0, ROOT)
    from vlib import core
    core.ensure_makefile()
    rc, out = core.run(["make", "-j8", target], cwd=coq, timeout=600)
    if rc == 0:
        return "obligations-hold"
    msgs = irregular_from_log(out)
    for m in msgs[:12]:
        core.log("[%s] irregular arm: %s" % (prop, m))
    if not msgs:
        core.log("[%s] %s does not compile:\n%s" % (prop, target, out[-1500:]))
    return "obligations-FAIL: " + "; ".join(msgs[:6])


def irregular_from_log(out):
    """the site strings of an `Unable to unify "[]" with "[...]"` error (the theorems are stated as `irregular = []`)"""
    flat = re.sub(r"\s+", " ", out)
    msgs = []
    for m in re.finditer(r'Unable to unify "(.*?)" with "(\[\]|nil)"|Unable to unify "(?:\[\]|nil)" with "(.*?)"\.?\s*(?:make|$|File|Error)', flat):
        body = m.group(1) or m.group(3) or ""
        msgs += re.findall(r'"((?:[^"]|"")*?)"', body)
    return [x.replace('""', '"') for x in msgs if x.strip()]


def pregen(prop, translators):
    """the `pregen` of a generator plugin: run every (translator module, proofs target) of the property — regenerate the
    Gen/*.v table from the CURRENT source and relay Coq's verdict.  A translator that raises is reported and does not stop
    the others (its own regenerate() already turns unreadable source into a failing table)."""
    import importlib
    res = {}
    for mod, target in translators:
        try:
            st = importlib.import_module(mod).regenerate()
            st["obligations"] = report(prop, target, st.get("rewritten", True))
        except Exception as ex:
            st = "unavailable: %r" % (ex,)
        res[mod] = st
    return res
