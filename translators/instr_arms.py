#!/usr/bin/env python3
"""translators/instr_arms.py — the per-instruction arms of the bytecode writer, reader and runner as Coq data.

Reads, on every run,
  <repo>/src/core/src/program/compiler/sections.rs   enum OpCode (discriminants), OpCode::from_u8, enum EncodedInstr,
                                                     EncodedInstr::byte_len, EncodedInstr::write_to
  <repo>/src/core/src/program/program.rs             enum DecodedInstr, DecodedInstr::from_u8, decode_instructions,
                                                     DecodedInstr::write_to
  <repo>/src/interpreter/src/interpreter.rs          Interpreter::run_program (the match on DecodedInstr)
and writes every arm of these matches as (site, pattern, body) terms, the enums as (variant, [(field, type)]) lists.
No interpretation happens here: which field is written / read where, whether `self.out` is set and the plan step added, is
decided by Coq on these terms (Proofs/InstrArmsP.v, Props/C06.v, Props/C07.v).  What cannot be parsed becomes an entry
of `ia_unrecognised`.  Writes coq/theories/Gen/InstrArms.v (only when its content changes)."""
import os, re, sys
sys.path.insert(0, os.path.dirname(os.path.abspath(__file__)))
import armrust as R
import armlib as L
from armrust import Unrecognised, Tm
from armlib import cs, cl

OUT = os.path.join(L.GEN, "InstrArms.v")
SECTIONS = "src/core/src/program/compiler/sections.rs"
PROGRAM = "src/core/src/program/program.rs"
INTERP = "src/interpreter/src/interpreter.rs"


def split_commas(s):
    out, depth, cur = [], 0, ""
    for c in s:
        if c in "([{<":
            depth += 1
        elif c in ")]}>":
            depth -= 1
        if c == "," and depth == 0:
            out.append(cur); cur = ""
        else:
            cur += c
    if cur.strip():
        out.append(cur)
    return out


def enum_decl(src, name, bag):
    m = re.search(r"\benum\s+%s\s*\{" % re.escape(name), src.text)
    if not m:
        bag.add(src, 0, "enum %s not found" % name)
        return None
    b0 = m.end() - 1
    b1 = R.balanced(src.text, b0)
    body = src.text[b0 + 1:b1]
    variants = []
    for v in split_commas(body):
        v = v.strip()
        if not v:
            continue
        mm = re.fullmatch(r"(\w+)\s*\{(.*)\}", v, re.S)
        if mm:
            fields = []
            for f in split_commas(mm.group(2)):
                f = f.strip()
                if f:
                    n, _, t = f.partition(":")
                    fields.append((n.strip(), re.sub(r"\s+", "", t)))
            variants.append((mm.group(1), fields, ""))
            continue
        mm = re.fullmatch(r"(\w+)\s*=\s*(0x[0-9A-Fa-f]+|\d+)", v)
        if mm:
            variants.append((mm.group(1), [], str(int(mm.group(2), 0))))
            continue
        mm = re.fullmatch(r"(\w+)", v)
        if mm:
            variants.append((mm.group(1), [], ""))
            continue
        bag.add(src, R.line_of(src.text, m.start()), "enum %s: variant `%s`" % (name, v[:40]))
    return (src.site(R.line_of(src.text, m.start())), variants)


def fn_in_impl(src, impl_re, fn, bag):
    """body block of fn inside the (first) impl whose header matches and that contains the fn"""
    pos = 0
    while True:
        imp = R.find_impl(src.text, impl_re, pos)
        if not imp:
            bag.add(src, 0, "fn %s in impl %s not found" % (fn, impl_re))
            return None
        f = R.find_fn(imp[1], fn)
        if f:
            first = imp[2] + f[2] - 1
            return (src.site(imp[2] + f[3] - 1), R.parse_block_text(f[1], first))
        pos = imp[4]


def free_fn(src, fn, bag):
    f = R.find_fn(src.text, fn)
    if not f:
        bag.add(src, 0, "fn %s not found" % fn)
        return None
    return (src.site(f[3]), R.parse_block_text(f[1], f[2]))


def the_match(block, scrut_re, what, src, bag):
    """the arms of the first match (pre-order) whose scrutinee text matches scrut_re"""
    for t in R.walk(block):
        if t.head == "match" and re.search(scrut_re, R.show(t.args[0])):
            arms = []
            for a in t.args[1:]:
                pat, guard, body = a.args
                arms.append((src.site(a.line), pat, body))
                if guard.head != "_noguard":
                    bag.add(src, a.line, "%s: guarded arm" % what)
            return arms
    bag.add(src, block.line, "%s: match on %s not found" % (what, scrut_re))
    return []


def extract():
    bag = L.Bag()
    d = dict(enums=[], matches=[])
    sec, prog, itp = L.Src(SECTIONS), L.Src(PROGRAM), L.Src(INTERP)
    for src, name in ((sec, "OpCode"), (sec, "EncodedInstr"), (prog, "DecodedInstr")):
        e = bag.guard(src, enum_decl, src, name, bag)
        if e:
            d["enums"].append((name, e[0], e[1]))
    jobs = [
        ("OpCode::from_u8", sec, lambda: fn_in_impl(sec, r"impl\s+OpCode\b", "from_u8", bag), r"^num$"),
        ("EncodedInstr::byte_len", sec, lambda: fn_in_impl(sec, r"impl\s+EncodedInstr\b", "byte_len", bag), r"^self$"),
        ("EncodedInstr::write_to", sec, lambda: fn_in_impl(sec, r"impl\s+EncodedInstr\b", "write_to", bag), r"^self$"),
        ("DecodedInstr::write_to", prog, lambda: fn_in_impl(prog, r"impl\s+DecodedInstr\b", "write_to", bag), r"^self$"),
        ("decode_instructions", prog, lambda: free_fn(prog, "decode_instructions", bag), r"OpCode::from_u8"),
        ("run_program", itp, lambda: fn_in_impl(itp, r"impl\s+Interpreter\b", "run_program", bag), r"^instr$"),
    ]
    for tag, src, get, scrut in jobs:
        try:
            r = get()
        except Unrecognised as ex:
            bag.add(src, ex.line, "%s: %s" % (tag, ex.why))
            continue
        if not r:
            continue
        site, block = r
        arms = the_match(block, scrut, tag, src, bag)
        d["matches"].append((tag, site, arms))
    d["unrecognised"] = bag.items
    return d


def render(d):
    o = [L.header("instr_arms.py", [SECTIONS + ", " + PROGRAM + ",", INTERP], "./check C06 and ./check C07")]
    o.append("Definition ia_unrecognised : list string :=\n  %s.\n" % cl([cs(u) for u in d["unrecognised"]], ";\n   "))
    o.append("(* the enums: (name, site, [(variant, [(field, type)], discriminant as decimal text or \"\")]) *)")
    o.append("Definition ia_enums : list (string * string * list (string * list (string * string) * string)) :=\n  [" + ";\n   ".join(
        "(%s, %s,\n    %s)" % (cs(n), cs(s), cl(["(%s, %s, %s)" % (cs(v), cl(["(%s, %s)" % (cs(f), cs(t)) for f, t in fs]), cs(disc)) for v, fs, disc in vs], ";\n     "))
        for n, s, vs in d["enums"]) + "].\n")
    o.append("(* the matches: (function, site, [(arm site, pattern, body)]) in source order *)")
    o.append("Definition ia_matches : list (string * string * list (string * tm * tm)) :=\n  [" + ";\n   ".join(
        "(%s, %s,\n    %s)" % (cs(t), cs(s), cl(["(%s, %s,\n      %s)" % (cs(a), R.coq_tm(p), R.coq_tm(b)) for a, p, b in arms], ";\n     "))
        for t, s, arms in d["matches"]) + "].\n")
    return "\n".join(o)


def regenerate(out=OUT):
    try:
        d = extract()
    except Exception as ex:      # never go blind silently
        d = dict(enums=[], matches=[], unrecognised=["translator failed: %s: %s" % (type(ex).__name__, ex)])
    changed = R.write_if_changed(out, render(d))
    return dict(status="ok", enums=len(d["enums"]), matches=len(d["matches"]), arms=sum(len(a) for _, _, a in d["matches"]),
                unrecognised=len(d["unrecognised"]), rewritten=changed, file=os.path.relpath(out, L.ROOT))


if __name__ == "__main__":
    import time
    t0 = time.time()
    r = regenerate(sys.argv[1]) if len(sys.argv) > 1 else regenerate()
    r["seconds"] = round(time.time() - t0, 2)
    print(r)
