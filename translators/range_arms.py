#!/usr/bin/env python3
"""translators/range_arms.py — the range kernels (`a..b`, `a..=b`, `a..s..b`, `a..s..=b`) as Coq data.

Reads, on every run, <repo>/machines/range/src/{exclusive,inclusive,exclusive_increment,inclusive_increment}.rs and lib.rs:
  - `impl NativeFunctionCompiler for Range[Increment]{Exclusive,Inclusive}`: bindings arg1..arg3 = arguments[i], the direct
    call and every operand-form arm `(Value::MutableReference(arg1), arg2, ..) => { f(arg1.borrow().clone(), arg2.clone(), ..) }`
  - `fn impl_range_.._fxn(arg1_value, ..)`: parameters and what it hands to the arm macro
  - the arm macro `impl_range_.._match_arms!`: macro parameters, the matched tuple, the patterns of the per-kind arm (which
    component is `from`, `step`, `to`), the statements that compute the element count (`diff`, the EmptyRange test, `size`)
    as a term, and every arm of `match size` (the struct literal: which binder initialises which field)
  - the kernel struct: `new` (FunctionArgs pattern + field initialisation), `solve` (the fill loop), the operand order of
    `compile_binop!/compile_ternop!`
  - lib.rs `range_size_to_usize!`: the three rules
Writes coq/theories/Gen/RangeArms.v (only when its content changes).  Every entry carries "file:line"; what does not have the
expected shape becomes an entry of `rg_unrecognised`.  Pure data: the decisions are Coq's (Proofs/RangeArmsP.v, Props/C15.v)."""
import os, re, sys
sys.path.insert(0, os.path.dirname(os.path.abspath(__file__)))
import armrust as R
import armlib as L
from armrust import Unrecognised, Tm
from armlib import cs, cl, coq_pair

DIR = "machines/range/src"
OUT = os.path.join(L.GEN, "RangeArms.v")
# form -> (file, compiler struct, kernel struct, kernel-level fn, arm macro)
FORMS = [
    ("exclusive", "exclusive.rs", "RangeExclusive", "RangeExclusiveScalar", "impl_range_exclusive_fxn", "impl_range_exclusive_match_arms"),
    ("inclusive", "inclusive.rs", "RangeInclusive", "RangeInclusiveScalar", "impl_range_inclusive_fxn", "impl_range_inclusive_match_arms"),
    ("exclusive-increment", "exclusive_increment.rs", "RangeIncrementExclusive", "RangeIncrementExclusiveScalar",
     "impl_range_increment_exclusive_fxn", "impl_range_increment_exclusive_match_arms"),
    ("inclusive-increment", "inclusive_increment.rs", "RangeIncrementInclusive", "RangeIncrementInclusiveScalar",
     "impl_range_increment_inclusive_fxn", "impl_range_increment_inclusive_match_arms"),
]


def split_commas(s):
    out, depth, cur = [], 0, ""
    for c in s:
        if c in "([{<":
            depth += 1
        elif c in ")]}>":
            depth -= 1
        if c == "," and depth == 0:
            out.append(cur); cur = ""
        else:
            cur += c
    if cur.strip():
        out.append(cur)
    return out


def callee(src, fn, bag):
    f = R.find_fn(src.text, fn)
    if not f:
        bag.add(src, 0, "fn %s not found" % fn)
        return None
    params = [p.split(":")[0].strip() for p in split_commas(f[0])]
    body = R.parse_block_text(f[1], f[2])
    if len(body.args) != 1 or not body.args[0].head.endswith(("!", "!;")):
        bag.add(src, f[3], "%s: body is not one macro call" % fn)
        return None
    m = body.args[0]
    # arguments before the (type, feature) list: identifiers only
    margs = []
    for a in m.args:
        if R.leaf(a) and not a.head.startswith('"') and re.fullmatch(r"[A-Za-z_]\w*", a.head) and not re.fullmatch(r"[iuf]\d+", a.head):
            margs.append(a.head)
        else:
            break
    kinds = [a.head for a in m.args[len(margs):] if R.leaf(a) and re.fullmatch(r"[iuf]\d+", a.head)]
    return dict(site=src.site(f[3]), name=fn, params=params, macro=m.head.rstrip(";").rstrip("!"), margs=margs, kinds=kinds)


def arm_macro(src, name, bag):
    rules = R.macro_rules(src.text, name)
    if not rules or len(rules) != 1:
        bag.add(src, R.macro_line(src.text, name), "macro %s: not found / more than one rule" % name)
        return None
    params, body, bl, rl = rules[0]
    mparams = re.findall(r"(\$\w+)\s*:", params)
    blk = R.parse_block_text(body, bl)
    matches = [t for t in R.walk(blk) if t.head == "match"]
    if not matches:
        bag.add(src, rl, "macro %s: no match" % name)
        return None
    top = matches[0]
    arms = top.args[1:]
    kind_arms = [a for a in arms if not L.is_err_expr(a.args[2])]
    err_arms = [a for a in arms if L.is_err_expr(a.args[2])]
    if len(kind_arms) != 1 or len(err_arms) != 1 or arms[-1] is not err_arms[0]:
        bag.add(src, top.line, "macro %s: expected one per-kind arm and one final error arm" % name)
        return None
    ka = kind_arms[0]
    pat, guard, b = ka.args
    if pat.head != "tuple" or guard.head != "_noguard" or b.head != "block" or not b.args or R.unsemi(b.args[-1]).head != "match":
        bag.add(src, ka.line, "macro %s: per-kind arm is not `(p, ..) => { ..; match size { .. } }`" % name)
        return None
    prelude = Tm("block", b.args[:-1], b.line)
    sm = R.unsemi(b.args[-1])
    size_arms = []
    for a in sm.args[1:]:
        p, g, body_ = a.args
        cfg = getattr(a, "cfg", [])
        if L.is_err_expr(body_):
            size_arms.append((src.site(a.line), cfg, R.show(p), "Err", [], Tm("_", [], a.line)))
            continue
        structs = [t for t in R.walk(body_) if t.head == "struct" and "Error" not in t.args[0].head]
        if len(structs) != 1:
            bag.add(src, a.line, "macro %s: size arm `%s` does not build exactly one struct" % (name, R.show(p)))
            continue
        st = structs[0]
        fields, outexpr = [], Tm("_", [], a.line)
        for f in st.args[1:]:
            if f.head == "out:":
                outexpr = f.args[0]
            elif f.head != "phantom:":
                fields.append((f.head[:-1], L.accessor(f.args[0])))
        size_arms.append((src.site(a.line), cfg, R.show(p), st.args[0].head, fields, outexpr))
    return dict(site=src.site(ka.line), name=name, mparams=mparams, scrut=top.args[0], pats=pat.args, cfg=getattr(ka, "cfg", []),
                prelude=prelude, size_scrut=sm.args[0], size_arms=size_arms, err_site=src.site(err_arms[0].line))


def kernel_struct(src, struct, bag):
    res = {}
    imp = R.find_impl(src.text, r"MechFunctionFactory\s+for\s+%s\b" % re.escape(struct))
    if not imp:
        bag.add(src, 0, "impl MechFunctionFactory for %s not found" % struct)
    else:
        f = R.find_fn(imp[1], "new")
        if not f:
            bag.add(src, imp[3], "%s: no new()" % struct)
        else:
            first = imp[2] + f[2] - 1
            b = R.parse_block_text(f[1], first)
            res["new"] = (src.site(imp[2] + f[3] - 1), b)
    imp = R.find_impl(src.text, r"MechFunctionImpl\s+for\s+%s\b" % re.escape(struct))
    if not imp:
        bag.add(src, 0, "impl MechFunctionImpl for %s not found" % struct)
    else:
        f = R.find_fn(imp[1], "solve")
        if not f:
            bag.add(src, imp[3], "%s: no solve()" % struct)
        else:
            b = R.parse_block_text(f[1], imp[2] + f[2] - 1)
            res["solve"] = (src.site(imp[2] + f[3] - 1), b)
        f = R.find_fn(imp[1], "out")
        if f:
            res["out"] = (src.site(imp[2] + f[3] - 1), R.parse_block_text(f[1], imp[2] + f[2] - 1))
    imp = R.find_impl(src.text, r"MechFunctionCompiler\s+for\s+%s\b" % re.escape(struct))
    if not imp:
        bag.add(src, 0, "impl MechFunctionCompiler for %s not found" % struct)
    else:
        f = R.find_fn(imp[1], "compile")
        if f:
            b = R.parse_block_text(f[1], imp[2] + f[2] - 1)
            ops = [t for t in R.walk(b) if t.head in ("compile_binop!", "compile_ternop!", "compile_unop!", "compile_quadop!")]
            if len(ops) == 1:
                res["emit"] = (src.site(ops[0].line), ops[0])
            else:
                bag.add(src, imp[3], "%s: compile() has no single compile_*op! call" % struct)
    # field declaration order of the struct
    m = re.search(r"pub\s+struct\s+%s\s*<[^>]*>\s*\{([^}]*)\}" % re.escape(struct), src.text)
    if m:
        res["fields"] = (src.site(R.line_of(src.text, m.start())), [x.split(":")[0].replace("pub", "").strip() for x in split_commas(m.group(1))])
    else:
        bag.add(src, 0, "struct %s not found" % struct)
    return res


def size_macro(src, bag):
    rules = R.macro_rules(src.text, "range_size_to_usize")
    if not rules:
        bag.add(src, 0, "macro range_size_to_usize not found")
        return []
    res = []
    for params, body, bl, rl in rules:
        try:
            res.append((src.site(rl), re.sub(r"\s+", "", params), R.parse_block_text(body, bl)))
        except Unrecognised as ex:
            bag.add(src, ex.line, "range_size_to_usize: " + ex.why)
    return res


def extract():
    bag = L.Bag()
    d = dict(cfns=[], callees=[], macros=[], kernels=[], sizes=[])
    for form, fname, cstruct, kstruct, fn, macro in FORMS:
        try:
            src = L.Src("%s/%s" % (DIR, fname))
        except Unrecognised as ex:
            bag.items.append("%s/%s: %s" % (DIR, fname, ex.why))
            continue
        r = L.compile_fn(src, cstruct, bag)
        if r and r["direct"]:
            d["cfns"].append(([form], r))
        c = bag.guard(src, callee, src, fn, bag)
        if c:
            d["callees"].append((form, c))
        m = bag.guard(src, arm_macro, src, macro, bag)
        if m:
            d["macros"].append((form, m))
        k = bag.guard(src, kernel_struct, src, kstruct, bag)
        if k:
            d["kernels"].append((form, kstruct, k))
    lib = L.Src(DIR + "/lib.rs")
    d["sizes"] = size_macro(lib, bag)
    d["unrecognised"] = bag.items
    return d


def feats(cfg):
    return re.findall(r'"([^"]+)"', " ".join(cfg)) + re.findall(r"feature=(\$\w+)", " ".join(cfg)) + (["not"] if "not(" in " ".join(cfg) else [])


def render(d):
    o = [L.header("range_arms.py", ["machines/range/src/{exclusive,inclusive,exclusive_increment,inclusive_increment}.rs, machines/range/src/lib.rs"],
                  "./check C15")]
    o.append("Definition rg_unrecognised : list string :=\n  %s.\n" % cl([cs(u) for u in d["unrecognised"]], ";\n   "))
    o.append("(* compile() of the four range compilers: tag = [form] *)")
    o.append("Definition rg_compile : list cfn :=\n  [" + ";\n   ".join(L.coq_compile_fn(t, r) for t, r in d["cfns"]) + "].\n")
    o.append("(* the kernel-level functions: (form, site, fn name, parameters, macro, leading macro arguments, element kinds) *)")
    o.append("Definition rg_callees : list (string * string * string * list string * string * list string * list string) :=\n  [" + ";\n   ".join(
        "(%s, %s, %s, %s, %s, %s, %s)" % (cs(f), cs(c["site"]), cs(c["name"]), cl([cs(p) for p in c["params"]]), cs(c["macro"]),
                                          cl([cs(a) for a in c["margs"]]), cl([cs(k) for k in c["kinds"]])) for f, c in d["callees"]) + "].\n")
    o.append("(* the arm macros: (form, site of the per-kind arm, macro name, macro parameters, matched tuple, patterns of the per-kind arm,\n"
             "   the statements before `match size`, the scrutinee of that match) *)")
    o.append("Definition rg_macros : list (string * string * string * list string * tm * list tm * tm * tm) :=\n  [" + ";\n   ".join(
        "(%s, %s, %s, %s,\n    %s,\n    %s,\n    %s,\n    %s)" % (cs(f), cs(m["site"]), cs(m["name"]), cl([cs(p) for p in m["mparams"]]), R.coq_tm(m["scrut"]),
                                                            cl([R.coq_tm(p) for p in m["pats"]]), R.coq_tm(m["prelude"]), R.coq_tm(m["size_scrut"]))
        for f, m in d["macros"]) + "].\n")
    o.append("(* the arms of `match size`: (form, site, cfg features, pattern, struct (\"Err\" for the error arm),\n"
             "   [(field, variable, accessor)], the `out:` initialiser) *)")
    rows = []
    for f, m in d["macros"]:
        for site, cfg, pat, st, fields, outexpr in m["size_arms"]:
            rows.append("(%s, %s, %s, %s, %s,\n    %s,\n    %s)" % (cs(f), cs(site), cl([cs(x) for x in feats(cfg)]), cs(pat), cs(st),
                                                                  cl(["(%s, %s, %s)" % (cs(fl), cs(a[0]), cs(a[1])) for fl, a in fields]), R.coq_tm(outexpr)))
    o.append("Definition rg_size_arms : list (string * string * list string * string * string * list (string * string * string) * tm) :=\n  [" + ";\n   ".join(rows) + "].\n")
    o.append("(* the kernel structs: (form, struct, field order, new(): site + body, solve(): site + body, emit: site + compile_*op! call) *)")
    rows = []
    for f, ks, k in d["kernels"]:
        empty = ("?", Tm("_missing", [], 0))
        nw, sv, em = k.get("new", empty), k.get("solve", empty), k.get("emit", empty)
        rows.append("(%s, %s, %s,\n    (%s, %s),\n    (%s, %s),\n    (%s, %s))" % (cs(f), cs(ks), cl([cs(x) for x in k.get("fields", ("?", []))[1]]),
                                                                           cs(nw[0]), R.coq_tm(nw[1]), cs(sv[0]), R.coq_tm(sv[1]), cs(em[0]), R.coq_tm(em[1])))
    o.append("Definition rg_kernels : list (string * string * list string * (string * tm) * (string * tm) * (string * tm)) :=\n  [" + ";\n   ".join(rows) + "].\n")
    o.append("(* lib.rs range_size_to_usize!: (site, matcher, body) per rule *)")
    o.append("Definition rg_size_macro : list (string * string * tm) :=\n  [" + ";\n   ".join(
        "(%s, %s,\n    %s)" % (cs(s), cs(p), R.coq_tm(b)) for s, p, b in d["sizes"]) + "].\n")
    return "\n".join(o)


def regenerate(out=OUT):
    try:
        d = extract()
    except Exception as ex:      # never go blind silently
        d = dict(cfns=[], callees=[], macros=[], kernels=[], sizes=[], unrecognised=["translator failed: %s: %s" % (type(ex).__name__, ex)])
    changed = R.write_if_changed(out, render(d))
    return dict(status="ok", compile_fns=len(d["cfns"]), operand_arms=sum(len(r["arms"]) for _, r in d["cfns"]),
                size_arms=sum(len(m["size_arms"]) for _, m in d["macros"]), kernels=len(d["kernels"]),
                unrecognised=len(d["unrecognised"]), rewritten=changed, file=os.path.relpath(out, L.ROOT))


if __name__ == "__main__":
    import time
    t0 = time.time()
    r = regenerate(sys.argv[1]) if len(sys.argv) > 1 else regenerate()
    r["seconds"] = round(time.time() - t0, 2)
    print(r)
