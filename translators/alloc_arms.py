#!/usr/bin/env python3
"""translators/alloc_arms.py — every dynamic-matrix allocation `DMatrix::from_element(rows, cols, fill)` as Coq data.

Reads, on every run, every *.rs under <repo>/src/core/src, <repo>/src/interpreter/src and <repo>/machines/*/src (directories named
`old` and `target` excepted) that contains `DMatrix::from_element(`.  For every such call it records
  - the site "file:line" and the enclosing macro rule / function,
  - the two size arguments as written, and
  - the two size arguments RESOLVED: every variable replaced by what it was bound to in the enclosing macro rule / function —
    `let x = e` (x := e), `let (a, b) = e` (a := proj(e,0), b := proj(e,1), componentwise when e is a tuple), a match-arm
    pattern against its scrutinee (tuple components and slice elements positionally: proj(s,i) / elem(s,i); the payload of a
    constructor pattern C(p): payload(s)), `for p in it` (p := each(it)); parameters and closure arguments stay as they are.
    This is plain positional binding — what a name MEANS (row count? column count?) is decided by Coq on the resolved terms.
A call inside a macro rule or function that cannot be parsed becomes an entry of `al_unrecognised` (counted and bounded by the
Coq statement).  Writes coq/theories/Gen/AllocArms.v (only when its content changes)."""
import os, re, sys
sys.path.insert(0, os.path.dirname(os.path.abspath(__file__)))
import armrust as R
import armlib as L
from armrust import Unrecognised, Tm
from armlib import cs, cl

OUT = os.path.join(L.GEN, "AllocArms.v")
ROOTS = ["src/core/src", "src/interpreter/src", "machines"]
NEEDLE = "DMatrix::from_element("


def rust_files():
    res = []
    for root in ROOTS:
        base = os.path.join(L.REPO, root)
        for d, dirs, files in os.walk(base):
            dirs[:] = sorted(x for x in dirs if x not in ("old", "target", "tests", "benches", "examples"))
            for f in sorted(files):
                if f.endswith(".rs"):
                    p = os.path.join(d, f)
                    try:
                        if NEEDLE in open(p, encoding="utf-8").read():
                            res.append(os.path.relpath(p, L.REPO))
                    except (OSError, UnicodeDecodeError):
                        pass
    return res


# ---- enclosing units: macro rules and functions, as (start, end, kind, name, body_start, body_end) ----------------
def units(text):
    res = []
    for m in re.finditer(r"macro_rules!\s+(\w+)\s*\{", text):
        name = m.group(1)
        try:
            rules = R.macro_rules(text[m.start():], name)
        except Unrecognised:
            rules = None
        end = R.balanced(text, m.end() - 1)
        # locate rule bodies by re-scanning (macro_rules gives texts; we need positions)
        j = m.end()
        while True:
            while j < end and text[j] in " \t\r\n;":
                j += 1
            if j >= end or text[j] not in "([{":
                break
            pe = R.balanced(text, j, text[j], R.OPEN[text[j]])
            k = text.find("=>", pe)
            if k < 0 or k > end:
                break
            k += 2
            while text[k] in " \t\r\n":
                k += 1
            if text[k] not in "([{":
                break
            be = R.balanced(text, k, text[k], R.OPEN[text[k]])
            res.append((k, be, "macro", name, k + 1, be))
            j = be + 1
    for m in re.finditer(r"\bfn\s+(\w+)\s*(?:<[^({]*>)?\s*\(", text):
        p1 = R.balanced(text, m.end() - 1, "(", ")")
        b0 = text.find("{", p1)
        semi = text.find(";", p1)
        if b0 < 0 or (0 <= semi < b0):
            continue
        try:
            b1 = R.balanced(text, b0)
        except Unrecognised:
            continue
        res.append((m.start(), b1, "fn", m.group(1), b0 + 1, b1))
    return res


def outermost(us, pos):
    best = None
    for u in us:
        if u[0] <= pos <= u[1]:
            if best is None or (u[0] <= best[0] and u[1] >= best[1]):
                best = u
    return best


# ---- positional binding ---------------------------------------------------------------------------------------------
def is_binder(p):
    return R.leaf(p) and re.fullmatch(r"[a-z_][a-z0-9_]*", p.head) is not None and p.head != "_"


def unwrap(e):
    while e.head in ("block", "unsafe") and len(e.args) == 1:
        e = R.unsemi(e.args[0])
    return e


def bind(pat, val, env):
    """extend env (dict) with the binders of pat matched against the (already resolved) value term val"""
    if is_binder(pat):
        env[pat.head] = val
        return
    if pat.head in ("&", "ref", "mut") and len(pat.args) == 1:
        bind(pat.args[0], val, env)
        return
    if pat.head == "@" and len(pat.args) == 2:
        bind(pat.args[0], val, env); bind(pat.args[1], val, env)
        return
    if pat.head == "tuple":
        v = unwrap(val)
        for i, p in enumerate(pat.args):
            if v.head == "tuple" and len(v.args) == len(pat.args):
                bind(p, v.args[i], env)
            else:
                bind(p, Tm("proj", [val, Tm(str(i), [], pat.line)], pat.line), env)
        return
    if pat.head == "slice":
        for i, p in enumerate(pat.args):
            bind(p, Tm("elem", [val, Tm(str(i), [], pat.line)], pat.line), env)
        return
    if pat.head == "pstruct":
        for f in pat.args[1:]:
            if f.args:
                bind(f.args[0], Tm("field", [val, Tm(f.head, [], pat.line)], pat.line), env)
        return
    if pat.head == "|":
        return
    if pat.args and not R.leaf(pat):            # constructor pattern C(p, ..)
        if len(pat.args) == 1:
            bind(pat.args[0], Tm("payload", [val], pat.line), env)
        else:
            for i, p in enumerate(pat.args):
                bind(p, Tm("payload", [val, Tm(str(i), [], pat.line)], pat.line), env)


def subst(t, env, depth=0):
    if R.leaf(t):
        if t.head in env and depth < 8:
            return env[t.head]
        return t
    return Tm(t.head, [subst(a, env, depth) for a in t.args], t.line)


def walk(t, env, found):
    h = t.head
    if h == "call" and t.args and R.leaf(t.args[0]) and t.args[0].head.endswith("DMatrix::from_element") and len(t.args) == 4:
        found.append((t.line, t.args[1], t.args[2], subst(t.args[1], env), subst(t.args[2], env)))
    if h in ("block",):
        env = dict(env)
        for s in t.args:
            s2 = R.unsemi(s)
            if s2.head in ("let", "letmut"):
                walk(s2.args[1], env, found)
                bind(s2.args[0], subst(unwrap(s2.args[1]), env), env)
            else:
                walk(s2, env, found)
        return
    if h == "match":
        walk(t.args[0], env, found)
        sv = subst(t.args[0], env)
        for arm in t.args[1:]:
            e2 = dict(env)
            bind(arm.args[0], sv, e2)
            walk(arm.args[1], e2, found)
            walk(arm.args[2], e2, found)
        return
    if h == "for":
        walk(t.args[1], env, found)
        e2 = dict(env)
        bind(t.args[0], Tm("each", [subst(t.args[1], env)], t.line), e2)
        walk(t.args[2], e2, found)
        return
    if h == "if" and t.args and t.args[0].head == "iflet":
        e2 = dict(env)
        walk(t.args[0].args[1], env, found)
        bind(t.args[0].args[0], subst(t.args[0].args[1], env), e2)
        for a in t.args[1:]:
            walk(a, e2, found)
        return
    if h == "closure":
        e2 = dict(env)
        for p in t.args[0].args:
            for x in R.walk(p):
                if is_binder(x):
                    e2.pop(x.head, None)
        walk(t.args[1], e2, found)
        return
    if h == "fn":
        walk(t.args[1], {}, found)
        return
    for a in t.args:
        walk(a, env, found)


def extract():
    bag = L.Bag()
    sites = []
    nfiles = 0
    for rel in rust_files():
        nfiles += 1
        try:
            src = L.Src(rel)
        except Unrecognised as ex:
            bag.items.append("%s: %s" % (rel, ex.why))
            continue
        us = units(src.text)
        cache = {}
        for m in re.finditer(re.escape(NEEDLE), src.text):
            line = R.line_of(src.text, m.start())
            u = outermost(us, m.start())
            if u is None:
                bag.add(src, line, "allocation outside any macro rule / function")
                continue
            key = (u[4], u[5])
            if key not in cache:
                try:
                    blk = R.parse_block_text(src.text[u[4]:u[5]], R.line_of(src.text, u[4]))
                    found = []
                    walk(blk, {}, found)
                    cache[key] = found
                except Unrecognised as ex:
                    cache[key] = "line %s: %s" % (ex.line, ex.why)
            c = cache[key]
            if isinstance(c, str):
                bag.add(src, line, "allocation in %s %s, which cannot be parsed (%s)" % (u[2], u[3], c))
                continue
            hits = [f for f in c if f[0] == line]
            ncalls_on_line = src.text.split("\n")[line - 1].count(NEEDLE)
            if len(hits) != ncalls_on_line:
                bag.add(src, line, "allocation in %s %s not found in the parsed body" % (u[2], u[3]))
                continue
            # several calls on one line: emit each once
            idx = sum(1 for mm in re.finditer(re.escape(NEEDLE), src.text[:m.start()]) if R.line_of(src.text, mm.start()) == line)
            f = hits[idx]
            sites.append((src.site(line), "%s %s" % (u[2], u[3]), f[1], f[2], f[3], f[4]))
    return dict(sites=sites, files=nfiles, unrecognised=bag.items)


def render(d):
    o = [L.header("alloc_arms.py", ["every *.rs under src/core/src, src/interpreter/src, machines/*/src that calls DMatrix::from_element"],
                  "./check C01, ./check C03 and ./check C12")]
    o.append("Definition al_unrecognised : list string :=\n  %s.\n" % cl([cs(u) for u in d["unrecognised"]], ";\n   "))
    o.append("Definition al_files : nat := %d.\n" % d["files"])
    o.append("(* (site, enclosing unit, rows argument, cols argument, rows resolved, cols resolved) *)")
    o.append("Definition al_sites : list (string * string * tm * tm * tm * tm) :=\n  [" + ";\n   ".join(
        "(%s, %s, %s, %s,\n    %s,\n    %s)" % (cs(s), cs(u), R.coq_tm(a), R.coq_tm(b), R.coq_tm(ra), R.coq_tm(rb)) for s, u, a, b, ra, rb in d["sites"]) + "].\n")
    return "\n".join(o)


def regenerate(out=OUT):
    try:
        d = extract()
    except Exception as ex:      # never go blind silently
        d = dict(sites=[], files=0, unrecognised=["translator failed: %s: %s" % (type(ex).__name__, ex)])
    changed = R.write_if_changed(out, render(d))
    return dict(status="ok", files=d["files"], sites=len(d["sites"]), unrecognised=len(d["unrecognised"]), rewritten=changed,
                file=os.path.relpath(out, L.ROOT))


if __name__ == "__main__":
    import time
    t0 = time.time()
    r = regenerate(sys.argv[1]) if len(sys.argv) > 1 else regenerate()
    r["seconds"] = round(time.time() - t0, 2)
    print(r)
