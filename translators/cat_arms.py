#!/usr/bin/env python3
"""translators/cat_arms.py — the offset bookkeeping of matrix concatenation as Coq data.

Reads, on every run,
  <repo>/src/interpreter/src/stdlib/horzcat.rs, vertcat.rs
     - every `fn solve(&self)` of an `impl .. MechFunctionImpl for <Struct>` (outside macro definitions) whose body calls one of the
       CopyMat methods copy_into / copy_into_v / copy_into_r / copy_into_row_major: (direction, struct, site, body)
     - inside the dispatch macro (impl_horzcat_arms / impl_vertcat_arms): every compound assignment `i += ..` to the running
       offset of the dynamic-vector arms: (direction, site, target, right-hand side)
  <repo>/src/core/src/structures/matrix.rs
     - macro copy_mat!: the bodies of the four CopyMat methods (what they copy where, what they RETURN: the amount by which the
       caller advances its offset)
Writes coq/theories/Gen/CatArms.v (only when its content changes).  Every entry carries "file:line"; what cannot be parsed becomes an
entry of `ca_unrecognised`.  Pure data: the decisions are Coq's (Proofs/CatArmsP.v, Props/C11.v)."""
import os, re, sys
sys.path.insert(0, os.path.dirname(os.path.abspath(__file__)))
import armrust as R
import armlib as L
from armrust import Unrecognised, Tm
from armlib import cs, cl

OUT = os.path.join(L.GEN, "CatArms.v")
FILES = [("horizontal", "src/interpreter/src/stdlib/horzcat.rs", "impl_horzcat_arms"),
         ("vertical", "src/interpreter/src/stdlib/vertcat.rs", "impl_vertcat_arms")]
MATRIX = "src/core/src/structures/matrix.rs"
COPY_METHODS = ["copy_into", "copy_into_v", "copy_into_r", "copy_into_row_major"]


def macro_spans(text):
    spans = []
    for m in re.finditer(r"macro_rules!\s+\w+\s*\{", text):
        b0 = m.end() - 1
        spans.append((m.start(), R.balanced(text, b0)))
    return spans


def solves(src, direction, bag):
    res = []
    spans = macro_spans(src.text)
    for m in re.finditer(r"\bimpl\b[^{;]*?MechFunctionImpl\s+for\s+(\w+)", src.text):
        if any(a <= m.start() <= b for a, b in spans):
            continue
        b0 = src.text.find("{", m.end())
        b1 = R.balanced(src.text, b0)
        body = src.text[b0 + 1:b1]
        f = R.find_fn(body, "solve")
        if not f:
            bag.add(src, R.line_of(src.text, m.start()), "%s: no solve()" % m.group(1))
            continue
        if not re.search(r"\.copy_into\w*\(", f[1]):
            continue
        first = R.line_of(src.text, b0 + 1) + f[2] - 1
        try:
            blk = R.parse_block_text(f[1], first)
        except Unrecognised as ex:
            bag.add(src, ex.line, "%s::solve: %s" % (m.group(1), ex.why))
            continue
        res.append((direction, m.group(1), src.site(R.line_of(src.text, b0 + 1) + f[3] - 1), blk))
    return res


def advances(src, direction, macro, bag):
    rules = R.macro_rules(src.text, macro)
    if not rules or len(rules) != 1:
        bag.add(src, R.macro_line(src.text, macro), "macro %s: not found / more than one rule" % macro)
        return []
    params, body, bl, rl = rules[0]
    try:
        blk = R.parse_block_text(body, bl)
    except Unrecognised as ex:
        bag.add(src, ex.line, "macro %s: %s" % (macro, ex.why))
        return []
    res = []
    for t in R.walk(blk):
        if t.head in ("+=", "-=", "*=") and R.leaf(t.args[0]):
            res.append((direction, src.site(t.line), t.args[0].head, t.head, t.args[1]))
    if not res:
        bag.add(src, rl, "macro %s: no offset updates found" % macro)
    return res


def copy_methods(src, bag):
    rules = R.macro_rules(src.text, "copy_mat")
    if not rules or len(rules) != 1:
        bag.add(src, R.macro_line(src.text, "copy_mat"), "macro copy_mat: not found / more than one rule")
        return []
    params, body, bl, rl = rules[0]
    res = []
    for name in COPY_METHODS:
        f = R.find_fn(body, name)
        if not f:
            bag.add(src, rl, "copy_mat!: fn %s not found" % name)
            continue
        try:
            res.append((name, src.site(bl + f[3] - 1), [p.split(":")[0].strip() for p in f[0].split(",")], R.parse_block_text(f[1], bl + f[2] - 1)))
        except Unrecognised as ex:
            bag.add(src, ex.line, "copy_mat!::%s: %s" % (name, ex.why))
    return res


def extract():
    bag = L.Bag()
    d = dict(solves=[], advances=[], copies=[])
    for direction, rel, macro in FILES:
        try:
            src = L.Src(rel)
        except Unrecognised as ex:
            bag.items.append("%s: %s" % (rel, ex.why))
            continue
        d["solves"] += bag.guard(src, solves, src, direction, bag) or []
        d["advances"] += bag.guard(src, advances, src, direction, macro, bag) or []
    try:
        d["copies"] = copy_methods(L.Src(MATRIX), bag)
    except Unrecognised as ex:
        bag.items.append("%s: %s" % (MATRIX, ex.why))
    d["unrecognised"] = bag.items
    return d


def render(d):
    o = [L.header("cat_arms.py", ["src/interpreter/src/stdlib/{horzcat,vertcat}.rs, src/core/src/structures/matrix.rs (copy_mat!)"], "./check C11")]
    o.append("Definition ca_unrecognised : list string :=\n  %s.\n" % cl([cs(u) for u in d["unrecognised"]], ";\n   "))
    o.append("(* solve() bodies that copy blocks into the result: (direction, struct, site, body) *)")
    o.append("Definition ca_solves : list (string * string * string * tm) :=\n  [" + ";\n   ".join(
        "(%s, %s, %s,\n    %s)" % (cs(a), cs(b), cs(c), R.coq_tm(t)) for a, b, c, t in d["solves"]) + "].\n")
    o.append("(* updates of the running offset in the dispatch macros: (direction, site, variable, operator, right-hand side) *)")
    o.append("Definition ca_advances : list (string * string * string * string * tm) :=\n  [" + ";\n   ".join(
        "(%s, %s, %s, %s, %s)" % (cs(a), cs(b), cs(c), cs(op), R.coq_tm(t)) for a, b, c, op, t in d["advances"]) + "].\n")
    o.append("(* copy_mat!: (method, site, parameters, body) *)")
    o.append("Definition ca_copy_methods : list (string * string * list string * tm) :=\n  [" + ";\n   ".join(
        "(%s, %s, %s,\n    %s)" % (cs(a), cs(b), cl([cs(p) for p in ps]), R.coq_tm(t)) for a, b, ps, t in d["copies"]) + "].\n")
    return "\n".join(o)


def regenerate(out=OUT):
    try:
        d = extract()
    except Exception as ex:      # never go blind silently
        d = dict(solves=[], advances=[], copies=[], unrecognised=["translator failed: %s: %s" % (type(ex).__name__, ex)])
    changed = R.write_if_changed(out, render(d))
    return dict(status="ok", solves=len(d["solves"]), advances=len(d["advances"]), copy_methods=len(d["copies"]),
                unrecognised=len(d["unrecognised"]), rewritten=changed, file=os.path.relpath(out, L.ROOT))


if __name__ == "__main__":
    import time
    t0 = time.time()
    r = regenerate(sys.argv[1]) if len(sys.argv) > 1 else regenerate()
    r["seconds"] = round(time.time() - t0, 2)
    print(r)
