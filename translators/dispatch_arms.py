#!/usr/bin/env python3
"""translators/dispatch_arms.py — extract the dispatch of the elementwise binary operators into Coq.

Reads  /repo/src/core/src/stdlib.rs
         impl_binop_match_arms!  : the match arms on (lhs value form, rhs value form) in source order, with the
                                   cfg features that enable them, the text of their shape guards, and the
                                   generated struct (`[<$lib MDVD>]`) each one builds
         impl_fxns!              : struct suffix -> kernel macro suffix (`_mat_vec_op`, ...)
       /repo/machines/{math/src/ops,compare/src,logic/src,string/src}/*.rs
         the kernel macros `<op>_<kernel>`: in which order the operands enter the scalar expression
Writes coq/theories/Gen/DispatchArms.v (only when its content changes).

Regular expressions over the macro text, no Rust parsing.  If the source does not have the expected shape the
translator raises `Unrecognised` (the plugin records `translator: unavailable`, the previous file stays).
The generated file is pure data (lists of strings); whether it agrees with the model is decided by Coq
(Proofs/DispatchArmsP.v)."""
import os as _os
_REPO_ROOT = _os.environ.get("MECH_REPO", "/repo")   # testing aid (seeded runs); registered commands never set it
import os, re, sys

STDLIB = (_REPO_ROOT + "/src/core/src/stdlib.rs")
OPFILES = {
    "add": (_REPO_ROOT + "/machines/math/src/ops/add.rs"), "sub": (_REPO_ROOT + "/machines/math/src/ops/sub.rs"),
    "mul": (_REPO_ROOT + "/machines/math/src/ops/mul.rs"), "div": (_REPO_ROOT + "/machines/math/src/ops/div.rs"),
    "mod": (_REPO_ROOT + "/machines/math/src/ops/modulus.rs"), "pow": (_REPO_ROOT + "/machines/math/src/ops/pow.rs"),
    "eq": (_REPO_ROOT + "/machines/compare/src/eq.rs"), "neq": (_REPO_ROOT + "/machines/compare/src/neq.rs"),
    "lt": (_REPO_ROOT + "/machines/compare/src/lt.rs"), "lte": (_REPO_ROOT + "/machines/compare/src/lte.rs"),
    "gt": (_REPO_ROOT + "/machines/compare/src/gt.rs"), "gte": (_REPO_ROOT + "/machines/compare/src/gte.rs"),
    "and": (_REPO_ROOT + "/machines/logic/src/and.rs"), "or": (_REPO_ROOT + "/machines/logic/src/or.rs"), "xor": (_REPO_ROOT + "/machines/logic/src/xor.rs"),
    "concat": (_REPO_ROOT + "/machines/string/src/concat.rs"),
}
KERNELS = ["op", "vec_op", "scalar_lhs_op", "scalar_rhs_op", "mat_vec_op", "vec_mat_op", "mat_row_op", "row_mat_op"]
ROOT = os.path.dirname(os.path.dirname(os.path.abspath(__file__)))
OUT = os.path.join(ROOT, "coq", "theories", "Gen", "DispatchArms.v")


class Unrecognised(Exception):
    pass


def read(path):
    try:
        return open(path, encoding="utf-8").read().replace("\r", "")
    except OSError as ex:
        raise Unrecognised("cannot read %s: %s" % (path, ex))


def macro_text(src, name):
    m = re.search(r"macro_rules!\s+%s\s*\{" % re.escape(name), src)
    if not m:
        raise Unrecognised("macro %s not found" % name)
    i = m.end() - 1
    depth, j = 0, i
    while j < len(src):
        c = src[j]
        if c == "{":
            depth += 1
        elif c == "}":
            depth -= 1
            if depth == 0:
                return src[i + 1:j]
        j += 1
    raise Unrecognised("macro %s: unbalanced braces" % name)


def feats_of(cfg):
    return re.findall(r'feature\s*=\s*"([^"]+)"', cfg or "")


def pat_form(p, side):
    """form of one side of a top-level arm pattern"""
    p = p.strip()
    if re.fullmatch(r"Value::\$lhs_type\(%s\)" % side, p):
        return "S"
    m = re.fullmatch(r"Value::\[<Matrix \$lhs_type>\]\(Matrix::(\w+)\(%s\)\)" % side, p)
    if m:
        return m.group(1)
    if re.fullmatch(r"Value::\[<Matrix \$lhs_type>\]\(%s\)" % side, p):
        return "Any"
    raise Unrecognised("unexpected arm pattern %r" % p)


def split_top(s):
    """split `a, b` at the top-level comma"""
    depth = 0
    for i, c in enumerate(s):
        if c in "([<":
            depth += 1
        elif c in ")]>":
            depth -= 1
        elif c == "," and depth == 0:
            return s[:i], s[i + 1:]
    raise Unrecognised("no top-level comma in %r" % s)


def extract_arms(src):
    body = macro_text(src, "impl_binop_match_arms")
    lines = [l.strip() for l in body.split("\n")]
    arms = []
    cur = None
    pending = None
    catch_all = False
    for l in lines:
        if l.startswith("//") or not l:
            continue
        if l.startswith("#[cfg"):
            pending = l
            continue
        m = re.fullmatch(r"\((Value::.*)\)\s*=>\s*\{", l)
        if m:
            a, b = split_top(m.group(1))
            cur = dict(feats=[f for f in feats_of(pending)], lhs=pat_form(a, "lhs"), rhs=pat_form(b, "rhs"), guards=[], targets=[], inner=None)
            arms.append(cur)
            pending = None
            continue
        if re.match(r"\(lhs,\s*rhs\)\s*=>\s*Err\(", l):
            catch_all = True
            cur = None
            continue
        if cur is None:
            pending = None if not l.startswith("#[cfg") else pending
            continue
        sc = re.fullmatch(r"match\s*(\(.*\))\s*\{", l)
        if sc and "," in sc.group(1):
            cur["scrut"] = re.sub(r"\s+", "", sc.group(1))
            pending = None
            continue
        g = re.fullmatch(r"(\([^()]*\))\s*if\s*(.*?)\s*=>\s*\(\)\s*,?", l)
        if g:
            if not cur["guards"]:
                if "scrut" not in cur:
                    raise Unrecognised("arm (%s,%s): guard without a tuple scrutinee" % (cur["lhs"], cur["rhs"]))
                cur["guards"].append("on " + cur["scrut"])
            cur["guards"].append(re.sub(r"\s+", "", g.group(1)) + " if " + re.sub(r"\s+", " ", g.group(2)))
            pending = None
            continue
        i = re.fullmatch(r"Matrix::(\w+)\((lhs|rhs)\)\s*=>\s*\{", l)
        if i:
            cur["inner"] = (feats_of(pending), i.group(1))
            pending = None
            continue
        for s in re.findall(r"Ok\(Box::new\(\[<\$lib (\w+)>\]\s*\{", l):
            if cur["inner"] is not None:
                cur["targets"].append((cur["inner"][0], cur["inner"][1], s))
                cur["inner"] = None
            else:
                cur["targets"].append(([], "", s))
        pending = None
    if not catch_all:
        raise Unrecognised("impl_binop_match_arms: no catch-all `(lhs,rhs) => Err(...)` arm")
    if len(arms) < 20:
        raise Unrecognised("impl_binop_match_arms: only %d arms recognised" % len(arms))
    for a in arms:
        if not a["targets"]:
            raise Unrecognised("arm (%s,%s) builds no struct" % (a["lhs"], a["rhs"]))
        if (a["lhs"] == "Any" or a["rhs"] == "Any") != bool(a["guards"]):
            raise Unrecognised("arm (%s,%s): wildcard arms are expected to carry shape guards, others none" % (a["lhs"], a["rhs"]))
    return arms


def extract_kernels(src):
    body = macro_text(src, "impl_fxns")
    res = []
    pending = None
    for l in (x.strip() for x in body.split("\n")):
        if l.startswith("#[cfg"):
            pending = l
            continue
        m = re.match(r"\$op!\(\[<\$lib (\w+)>\],\s*(.*?),\s*\[<\$lib:lower (_\w+)>\]\s*,", l)
        if m:
            res.append((feats_of(pending), m.group(1), m.group(3)))
            pending = None
        elif l and not l.startswith("//"):
            pending = None
    if len(res) < 20:
        raise Unrecognised("impl_fxns: only %d struct definitions recognised" % len(res))
    return res


LHS_ALIASES = [r"\$lhs", "lhs_deref", "lhs_col", "lhs_row"]
RHS_ALIASES = [r"\$rhs", "rhs_deref", "rhs_col", "rhs_row"]


def operand_order(opname, kernel, text):
    """'LR' if the lhs operand enters the scalar expression before the rhs operand, 'RL' if after."""
    body = macro_text(text, "%s_%s" % (opname, kernel))
    body = re.sub(r"//[^\n]*", "", body)
    la, ra = list(LHS_ALIASES), list(RHS_ALIASES)
    # zip loops: `for (o,(l,r)) in out.iter_mut().zip(lhs_deref.iter().zip(rhs_deref.iter()))`, `(o,l)`, `(o,r)`
    for hdr in re.findall(r"for\s*\(([^{]*?)\)\s*in\s*([^{]*)\{", body):
        pat, it = hdr
        names = re.findall(r"\b([a-z_]\w*)\b", pat)
        if "l" in names:
            if "lhs_deref.iter()" not in it:
                raise Unrecognised("%s_%s: loop variable l does not range over the lhs" % (opname, kernel))
            la.append("l")
        if "r" in names:
            if "rhs_deref.iter()" not in it:
                raise Unrecognised("%s_%s: loop variable r does not range over the rhs" % (opname, kernel))
            ra.append("r")
        if "l" in names and "r" in names:
            if not (names.index("l") < names.index("r") and it.index("lhs_deref.iter()") < it.index("rhs_deref.iter()")):
                raise Unrecognised("%s_%s: zip pattern/iterators not in (l,r) order" % (opname, kernel))
    lre = re.compile(r"(?<![\w$])(?:%s)\b" % "|".join(la))
    rre = re.compile(r"(?<![\w$])(?:%s)\b" % "|".join(ra))
    stmts = [s for s in re.split(r"[;{}]", body)]
    cands = []
    for s in stmts:
        st = s.strip()
        if not st or st.startswith("let ") or st.startswith("for "):
            continue
        # the expression that produces the result: right of `=` or a method call taking the other operand
        expr = st.split("=", 1)[1] if re.search(r"[^=!<>]=[^=]", st) else st
        ml, mr = lre.search(expr), rre.search(expr)
        if ml and mr:
            cands.append("LR" if ml.start() < mr.start() else "RL")
    if not cands:
        raise Unrecognised("%s_%s: no statement combining both operands found" % (opname, kernel))
    return cands[-1]


def extract_orders():
    res = []
    for op, path in OPFILES.items():
        txt = read(path)
        for k in KERNELS:
            res.append((op, k, operand_order(op, k, txt)))
    return res


def coq_str(s):
    return '"' + s.replace('"', '""') + '"'


def coq_list(xs):
    return "[" + "; ".join(xs) + "]"


def render(arms, kernels, orders):
    o = []
    o.append("(* GENERATED by translators/dispatch_arms.py from /repo/src/core/src/stdlib.rs and the kernel macros under\n"
             "   /repo/machines/{math,compare,logic,string}.  Do not edit: regenerated on every run of ./check C01. *)")
    o.append("From Coq Require Import List String.")
    o.append("Import ListNotations.")
    o.append("Open Scope string_scope.")
    o.append("")
    o.append("(* impl_binop_match_arms!: the arms in source order —\n"
             "   (cfg features besides the kind, lhs form, rhs form, shape guards, [(cfg features, inner form, struct)]).\n"
             '   Forms: "S" scalar of the kind, "Any" any matrix of the kind, otherwise the Matrix:: variant. *)')
    o.append("Definition binop_arms : list (list string * string * string * list string * list (list string * string * string)) :=")
    rows = []
    for a in arms:
        tg = coq_list(["(%s, %s, %s)" % (coq_list([coq_str(f) for f in fs]), coq_str(inner), coq_str(s)) for fs, inner, s in a["targets"]])
        rows.append("   (%s, %s, %s, %s,\n      %s)" % (coq_list([coq_str(f) for f in a["feats"]]), coq_str(a["lhs"]), coq_str(a["rhs"]),
                                                        coq_list([coq_str(g) for g in a["guards"]]), tg))
    o.append("  [\n" + ";\n".join(rows) + "].")
    o.append("")
    o.append("(* impl_fxns!: (cfg features, struct suffix, kernel macro suffix) *)")
    o.append("Definition fxn_kernels : list (list string * string * string) :=")
    o.append("  [\n" + ";\n".join("   (%s, %s, %s)" % (coq_list([coq_str(f) for f in fs]), coq_str(s), coq_str(k)) for fs, s, k in kernels) + "].")
    o.append("")
    o.append('(* kernel macros: (operator, kernel, "LR" iff the lhs operand enters the scalar expression before the rhs operand) *)')
    o.append("Definition kernel_order : list (string * string * string) :=")
    o.append("  [\n" + ";\n".join("   (%s, %s, %s)" % (coq_str(a), coq_str(b), coq_str(c)) for a, b, c in orders) + "].")
    o.append("")
    return "\n".join(o)


def regenerate(out=OUT):
    src = read(STDLIB)
    arms = extract_arms(src)
    kernels = extract_kernels(src)
    orders = extract_orders()
    txt = render(arms, kernels, orders)
    changed = (not os.path.exists(out)) or open(out, encoding="utf-8").read() != txt
    if changed:
        os.makedirs(os.path.dirname(out), exist_ok=True)
        tmp = out + ".tmp%d" % os.getpid()
        open(tmp, "w", encoding="utf-8").write(txt)
        os.replace(tmp, out)
    return dict(status="ok", arms=len(arms), structs=len(kernels), kernels=len(orders), rewritten=changed, file=os.path.relpath(out, ROOT))


if __name__ == "__main__":
    try:
        if len(sys.argv) > 1:
            print(regenerate(sys.argv[1]))
        else:
            print(regenerate())
    except Unrecognised as ex:
        print("unavailable: %s" % ex)
        sys.exit(2)
