"""translators/rustmini.py — a small tokenizer + recursive-descent parser for the subset of Rust used by the
function bodies of /repo/src/syntax/src/*.rs.  Used by translators/parser_grammar.py (C09).

It is NOT a Rust front end: anything it does not understand raises ParseFail, and the caller turns the whole
function into an explicit `unknown` node (never a guess).  Only the shapes needed to follow *control flow* and
*which parser is applied to which input state* are kept; types are skipped.

AST (tuples; every node carries (line, col) as its last element `pos`):
  expressions
    ('lit', kind, value, pos)            kind: str | num | char | bool
    ('path', [segments], pos)            a::b::<T>::c  -> ['a','b','c']  (generic arguments dropped)
    ('call', f, [args], pos)
    ('mcall', recv, name, [args], pos)
    ('field', recv, name, pos)
    ('index', recv, idx, pos)
    ('unary', op, e, pos)                op: ! - * & &mut
    ('binary', op, l, r, pos)
    ('assign', op, l, r, pos)
    ('try', e, pos)
    ('cast', e, pos)
    ('closure', [patterns], body, pos)
    ('block', [stmts], tail|None, pos)
    ('if', cond, then, else|None, pos)   cond may be ('letcond', pat, expr, pos)
    ('match', scrut, [(pat, guard|None, expr)], pos)
    ('loop', body, pos) ('while', cond, body, pos) ('for', pat, iter, body, pos)
    ('return', e|None, pos) ('break', e|None, pos) ('continue', pos)
    ('struct', path, [(name, expr)], base|None, pos)
    ('tuple', [es], pos) ('array', [es], pos)
    ('macro', name, [tokens], pos)
    ('range', l|None, r|None, pos)
  statements
    ('let', pat, expr|None, else|None, pos) ('expr', e, semi: bool, pos) ('item', pos)
  patterns
    ('pwild',) ('pid', name, sub|None) ('ptuple', [ps]) ('pts', [path], [ps]) ('pstruct', [path], [(name, p)])
    ('ppath', [path]) ('plit', v) ('por', [ps]) ('pref', p) ('prest',) ('prange',)
"""
import re


class ParseFail(Exception):
    pass


# --------------------------------------------------------------------------- tokens
class Tok:
    __slots__ = ("k", "s", "line", "col")

    def __init__(self, k, s, line, col):
        self.k, self.s, self.line, self.col = k, s, line, col

    def __repr__(self):
        return "%s:%r@%d.%d" % (self.k, self.s, self.line, self.col)


PUNCT3 = ["<<=", ">>=", "...", "..="]
PUNCT2 = ["::", "->", "=>", "==", "!=", "<=", ">=", "&&", "||", "+=", "-=", "*=", "/=", "%=", "^=", "&=", "|=", ".."]
_ID = re.compile(r"[A-Za-z_][A-Za-z0-9_]*")
_NUM = re.compile(r"[0-9][0-9A-Za-z_]*(?:\.[0-9][0-9A-Za-z_]*)?")


def tokenize(src):
    toks = []
    i, n = 0, len(src)
    line, lstart = 1, 0
    while i < n:
        c = src[i]
        if c == "\n":
            line += 1; lstart = i + 1; i += 1; continue
        if c in " \t\r":
            i += 1; continue
        col = i - lstart + 1
        if src.startswith("//", i):
            j = src.find("\n", i)
            i = n if j < 0 else j
            continue
        if src.startswith("/*", i):
            depth, j = 1, i + 2
            while j < n and depth:
                if src.startswith("/*", j):
                    depth += 1; j += 2
                elif src.startswith("*/", j):
                    depth -= 1; j += 2
                else:
                    if src[j] == "\n":
                        line += 1; lstart = j + 1
                    j += 1
            i = j
            continue
        # raw strings r"..." r#"..."#  and byte strings
        m = re.match(r'b?r(#*)"', src[i:i + 12])
        if m:
            hashes = m.group(1)
            start = i + m.end()
            end = src.find('"' + hashes, start)
            if end < 0:
                raise ParseFail("unterminated raw string at line %d" % line)
            body = src[start:end]
            toks.append(Tok("str", body, line, col))
            line += body.count("\n")
            if "\n" in body:
                lstart = start + body.rfind("\n") + 1
            i = end + 1 + len(hashes)
            continue
        if c == '"' or (c == "b" and i + 1 < n and src[i + 1] == '"'):
            j = i + (2 if c == "b" else 1)
            out = []
            while j < n and src[j] != '"':
                if src[j] == "\\":
                    nx = src[j + 1]
                    if nx == "n": out.append("\n"); j += 2
                    elif nx == "t": out.append("\t"); j += 2
                    elif nx == "r": out.append("\r"); j += 2
                    elif nx == "0": out.append("\0"); j += 2
                    elif nx == "u":
                        k = src.find("}", j)
                        out.append(chr(int(src[j + 3:k], 16))); j = k + 1
                    elif nx == "x":
                        out.append(chr(int(src[j + 2:j + 4], 16))); j += 4
                    elif nx == "\n":
                        j += 2
                        line += 1; lstart = j
                        while j < n and src[j] in " \t\r\n":
                            if src[j] == "\n":
                                line += 1; lstart = j + 1
                            j += 1
                    else:
                        out.append(nx); j += 2
                else:
                    if src[j] == "\n":
                        line += 1; lstart = j + 1
                    out.append(src[j]); j += 1
            if j >= n:
                raise ParseFail("unterminated string at line %d" % line)
            toks.append(Tok("str", "".join(out), line, col))
            i = j + 1
            continue
        if c == "'":
            # char literal or lifetime
            m = re.match(r"'(\\u\{[0-9a-fA-F]+\}|\\x[0-9a-fA-F]{2}|\\.|[^\\'])'", src[i:i + 14])
            if m:
                toks.append(Tok("char", m.group(1), line, col)); i += m.end(); continue
            m = re.match(r"'[A-Za-z_][A-Za-z0-9_]*", src[i:i + 40])
            if m:
                toks.append(Tok("life", m.group(0), line, col)); i += m.end(); continue
            raise ParseFail("bad quote at line %d" % line)
        m = _ID.match(src, i)
        if m:
            toks.append(Tok("id", m.group(0), line, col)); i = m.end(); continue
        m = _NUM.match(src, i)
        if m:
            # do not swallow `..` of ranges: "0..3"
            s = m.group(0)
            if "." in s and src[m.start() + s.index(".") + 1:m.start() + s.index(".") + 2] == ".":
                s = s[:s.index(".")]
            toks.append(Tok("num", s, line, col)); i += len(s); continue
        for L, lst in ((3, PUNCT3), (2, PUNCT2)):
            if src[i:i + L] in lst:
                toks.append(Tok("p", src[i:i + L], line, col)); i += L; break
        else:
            if ord(c) > 127:
                raise ParseFail("non-ASCII character %r outside a literal at line %d" % (c, line))
            toks.append(Tok("p", c, line, col)); i += 1
    return toks


# --------------------------------------------------------------------------- parser
KEYWORDS_EXPR_START = {"if", "match", "loop", "while", "for", "return", "break", "continue", "move", "unsafe"}
BINOPS = [
    (1, ["||"]), (2, ["&&"]), (3, ["==", "!=", "<", ">", "<=", ">="]), (4, ["|"]), (5, ["^"]), (6, ["&"]),
    (8, ["+", "-"]), (9, ["*", "/", "%"]),
]
BINPREC = {}
for pr, ops in BINOPS:
    for o in ops:
        BINPREC[o] = pr
ASSIGN_OPS = {"=", "+=", "-=", "*=", "/=", "%=", "^=", "&=", "|=", "<<=", ">>="}


class Parser:
    def __init__(self, toks, cfg_eval=None):
        self.t = toks
        self.i = 0
        self.cfg_eval = cfg_eval or (lambda toks: True)

    # -- helpers
    def peek(self, k=0):
        j = self.i + k
        return self.t[j] if j < len(self.t) else Tok("eof", "", -1, -1)

    def at(self, s, k=0):
        t = self.peek(k)
        return t.k in ("p", "id") and t.s == s

    def eat(self, s):
        if self.at(s):
            self.i += 1
            return True
        return False

    def expect(self, s):
        if not self.eat(s):
            t = self.peek()
            raise ParseFail("expected %r, found %r at %d.%d" % (s, t.s, t.line, t.col))

    def pos(self):
        t = self.peek()
        return (t.line, t.col)

    def skip_balanced(self, open_s, close_s):
        """current token is open_s: return the tokens strictly inside, position after the closer"""
        self.expect(open_s)
        depth, start = 1, self.i
        while depth:
            t = self.peek()
            if t.k == "eof":
                raise ParseFail("unbalanced %s" % open_s)
            if t.k == "p" and t.s == open_s:
                depth += 1
            elif t.k == "p" and t.s == close_s:
                depth -= 1
            self.i += 1
        return self.t[start:self.i - 1]

    def skip_delimited(self):
        t = self.peek()
        pairs = {"(": ")", "[": "]", "{": "}"}
        if t.k == "p" and t.s in pairs:
            return self.skip_balanced(t.s, pairs[t.s])
        raise ParseFail("expected a delimiter at %d.%d" % (t.line, t.col))

    def skip_generics(self):
        """at `<`: skip to the matching `>` (nested <>, (), [])"""
        self.expect("<")
        depth = 1
        while depth:
            t = self.peek()
            if t.k == "eof":
                raise ParseFail("unbalanced <")
            if t.k == "p":
                if t.s == "<":
                    depth += 1
                elif t.s == ">":
                    depth -= 1
                elif t.s == "->":
                    pass
                elif t.s in "([{":
                    self.skip_delimited(); continue
                elif t.s == ">=" and depth == 1:
                    raise ParseFail("`>=` closing generics unsupported")
            self.i += 1

    def skip_type(self, stops):
        """skip a type up to (not including) one of the stop punctuation tokens at depth 0"""
        while True:
            t = self.peek()
            if t.k == "eof":
                raise ParseFail("type runs to eof")
            if t.k == "p":
                if t.s in stops:
                    return
                if t.s == "<":
                    self.skip_generics(); continue
                if t.s in "([{":
                    self.skip_delimited(); continue
            self.i += 1

    def attributes(self):
        """#[...] / #![...] in front of a statement or item; returns False iff a cfg attribute evaluates to false"""
        keep = True
        while self.at("#"):
            self.i += 1
            self.eat("!")
            inner = self.skip_balanced("[", "]")
            if inner and inner[0].k == "id" and inner[0].s == "cfg":
                if not self.cfg_eval(inner[1:]):
                    keep = False
        return keep

    # -- patterns
    def pattern(self):
        p = self.pattern1()
        if self.at("|") and not self.at("||"):
            alts = [p]
            while self.eat("|"):
                alts.append(self.pattern1())
            return ("por", alts)
        return p

    def pattern1(self):
        t = self.peek()
        if self.eat("&"):
            self.eat("mut")
            return ("pref", self.pattern1())
        if t.k == "p" and t.s == "&&":
            self.i += 1
            return ("pref", ("pref", self.pattern1()))
        if self.eat("("):
            ps = []
            trailing = False
            while not self.at(")"):
                ps.append(self.pattern())
                trailing = False
                if self.eat(","):
                    trailing = True
                else:
                    break
            self.expect(")")
            if len(ps) == 1 and not trailing:
                return ps[0]
            return ("ptuple", ps)
        if self.eat("["):
            ps = []
            while not self.at("]"):
                ps.append(self.pattern())
                if not self.eat(","):
                    break
            self.expect("]")
            return ("pslice", ps)
        if t.k == "p" and t.s == "..":
            self.i += 1
            return ("prest",)
        if t.k in ("str", "num", "char"):
            self.i += 1
            if self.at("..=") or self.at(".."):
                self.i += 1
                if self.peek().k in ("num", "char"):
                    self.i += 1
                return ("prange",)
            return ("plit", t.s)
        if self.at("-") and self.peek(1).k == "num":
            self.i += 2
            return ("plit", "-" + self.peek(-1).s)
        if t.k == "id":
            if t.s == "_":
                self.i += 1
                return ("pwild",)
            if t.s in ("true", "false"):
                self.i += 1
                return ("plit", t.s)
            byref = False
            if t.s == "ref":
                self.i += 1; byref = True; t = self.peek()
            mut = False
            if t.s == "mut":
                self.i += 1; mut = True; t = self.peek()
            if t.k != "id":
                raise ParseFail("pattern: identifier expected at %d.%d" % (t.line, t.col))
            path = self.path_segments()
            if self.at("("):
                self.i += 1
                ps = []
                while not self.at(")"):
                    ps.append(self.pattern())
                    if not self.eat(","):
                        break
                self.expect(")")
                return ("pts", path, ps)
            if self.at("{"):
                self.i += 1
                fs = []
                while not self.at("}"):
                    if self.at(".."):
                        self.i += 1
                        break
                    self.eat("ref"); self.eat("mut")
                    nm = self.peek()
                    if nm.k != "id":
                        raise ParseFail("struct pattern field expected")
                    self.i += 1
                    if self.eat(":"):
                        fs.append((nm.s, self.pattern()))
                    else:
                        fs.append((nm.s, ("pid", nm.s, None)))
                    if not self.eat(","):
                        break
                self.expect("}")
                return ("pstruct", path, fs)
            if len(path) == 1 and (mut or byref or path[0][:1].islower() or path[0][:1] == "_"):
                sub = None
                if self.eat("@"):
                    sub = self.pattern1()
                return ("pid", path[0], sub)
            return ("ppath", path)
        raise ParseFail("pattern: unexpected %r at %d.%d" % (t.s, t.line, t.col))

    def path_segments(self):
        segs = []
        self.eat("::")
        while True:
            t = self.peek()
            if t.k == "p" and t.s == "<":
                # qualified path <T as Trait>::x  — not used in the parser sources
                raise ParseFail("qualified path")
            if t.k != "id":
                raise ParseFail("path segment expected at %d.%d, found %r" % (t.line, t.col, t.s))
            segs.append(t.s)
            self.i += 1
            if self.at("::"):
                if self.at("<", 1):
                    self.i += 1
                    self.skip_generics()
                    if self.at("::"):
                        self.i += 1
                        continue
                    break
                self.i += 1
                continue
            break
        return segs

    # -- blocks & statements
    def block(self):
        pos = self.pos()
        self.expect("{")
        stmts, tail = [], None
        while not self.at("}"):
            if self.peek().k == "eof":
                raise ParseFail("block runs to eof")
            keep = self.attributes()
            if self.at("}"):
                break
            st = self.statement()
            if st is None:
                continue
            if not keep:
                continue
            if st[0] == "expr" and not st[2] and self.at("}"):
                tail = st[1]
            else:
                stmts.append(st)
        self.expect("}")
        return ("block", stmts, tail, pos)

    def statement(self):
        pos = self.pos()
        if self.eat(";"):
            return None
        t = self.peek()
        if t.k == "id" and t.s == "let":
            self.i += 1
            pat = self.pattern()
            if self.eat(":"):
                self.skip_type({"=", ";"})
            init = els = None
            if self.eat("="):
                init = self.expr()
                if self.at("else"):
                    self.i += 1
                    els = self.block()
            self.expect(";")
            return ("let", pat, init, els, pos)
        if t.k == "id" and t.s in ("fn", "use", "struct", "enum", "impl", "const", "static", "type", "mod", "pub", "trait", "extern"):
            self.skip_item()
            return ("item", pos)
        if t.k == "id" and t.s == "macro_rules":
            self.skip_item()
            return ("item", pos)
        e = self.expr(stmt_ctx=True)
        semi = self.eat(";")
        return ("expr", e, semi, pos)

    def skip_item(self):
        """skip an item: up to `;` or a balanced `{...}` at depth 0"""
        while True:
            t = self.peek()
            if t.k == "eof":
                return
            if t.k == "p":
                if t.s == ";":
                    self.i += 1
                    return
                if t.s == "{":
                    self.skip_delimited()
                    return
                if t.s in "([":
                    self.skip_delimited(); continue
                if t.s == "<":
                    self.skip_generics(); continue
            self.i += 1

    # -- expressions
    def expr(self, no_struct=False, stmt_ctx=False):
        return self.assign_expr(no_struct, stmt_ctx)

    def assign_expr(self, no_struct, stmt_ctx=False):
        pos = self.pos()
        lhs = self.range_expr(no_struct, stmt_ctx)
        t = self.peek()
        if t.k == "p" and t.s in ASSIGN_OPS:
            self.i += 1
            rhs = self.assign_expr(no_struct)
            return ("assign", t.s, lhs, rhs, pos)
        return lhs

    def range_expr(self, no_struct, stmt_ctx=False):
        pos = self.pos()
        if self.at("..") or self.at("..="):
            self.i += 1
            r = None
            if self.starts_expr():
                r = self.bin_expr(0, no_struct)
            return ("range", None, r, pos)
        l = self.bin_expr(0, no_struct, stmt_ctx)
        if self.at("..") or self.at("..="):
            self.i += 1
            r = None
            if self.starts_expr() and not (no_struct and self.at("{")):
                r = self.bin_expr(0, no_struct)
            return ("range", l, r, pos)
        return l

    def starts_expr(self):
        t = self.peek()
        if t.k in ("id", "num", "str", "char"):
            return t.s not in ("as",) if t.k == "id" else True
        return t.k == "p" and t.s in ("(", "[", "{", "-", "!", "&", "*", "|", "||")

    def bin_expr(self, minprec, no_struct, stmt_ctx=False):
        pos = self.pos()
        lhs = self.unary_expr(no_struct, stmt_ctx)
        # a block-like expression in statement position ends the statement (no binary operator follows)
        if stmt_ctx and lhs[0] in ("if", "match", "loop", "while", "for", "block") and not self.at(".") and not self.at("?"):
            return lhs
        while True:
            t = self.peek()
            if t.k == "id" and t.s == "as":
                self.i += 1
                self.skip_type({",", ";", ")", "]", "}", "=", "==", "!=", "<", ">", "<=", ">=", "+", "-", "*", "/", "%", "&&", "||", "?", ".", "{", "=>"})
                lhs = ("cast", lhs, pos)
                continue
            if t.k != "p" or t.s not in BINPREC:
                break
            pr = BINPREC[t.s]
            if pr < minprec:
                break
            self.i += 1
            rhs = self.bin_expr(pr + 1, no_struct)
            lhs = ("binary", t.s, lhs, rhs, pos)
        return lhs

    def unary_expr(self, no_struct, stmt_ctx=False):
        pos = self.pos()
        t = self.peek()
        if t.k == "p" and t.s in ("!", "-", "*"):
            self.i += 1
            return ("unary", t.s, self.unary_expr(no_struct), pos)
        if t.k == "p" and t.s in ("&", "&&"):
            self.i += 1
            m = self.eat("mut")
            e = self.unary_expr(no_struct)
            return ("unary", "&mut" if m else "&", e, pos)
        return self.postfix_expr(no_struct, stmt_ctx)

    def postfix_expr(self, no_struct, stmt_ctx=False):
        e = self.primary(no_struct)
        if stmt_ctx and e[0] in ("if", "match", "loop", "while", "for", "block") and not self.at(".") and not self.at("?"):
            return e
        while True:
            pos = self.pos()
            if self.at("?"):
                self.i += 1
                e = ("try", e, pos)
            elif self.at("("):
                args = self.call_args()
                e = ("call", e, args, pos)
            elif self.at("["):
                self.i += 1
                idx = self.expr()
                self.expect("]")
                e = ("index", e, idx, pos)
            elif self.at("."):
                nx = self.peek(1)
                if nx.k == "id":
                    if nx.s == "await":
                        raise ParseFail("await")
                    self.i += 2
                    if self.at("::"):
                        self.i += 1
                        self.skip_generics()
                    if self.at("("):
                        args = self.call_args()
                        e = ("mcall", e, nx.s, args, pos)
                    else:
                        e = ("field", e, nx.s, pos)
                elif nx.k == "num":
                    self.i += 2
                    for part in nx.s.split("."):
                        e = ("field", e, part, pos)
                else:
                    break
            else:
                break
        return e

    def call_args(self):
        self.expect("(")
        args = []
        while not self.at(")"):
            args.append(self.expr())
            if not self.eat(","):
                break
        self.expect(")")
        return args

    def primary(self, no_struct):
        pos = self.pos()
        t = self.peek()
        if t.k == "str":
            self.i += 1
            return ("lit", "str", t.s, pos)
        if t.k == "num":
            self.i += 1
            return ("lit", "num", t.s, pos)
        if t.k == "char":
            self.i += 1
            return ("lit", "char", t.s, pos)
        if t.k == "life":
            # labeled loop / break 'a
            raise ParseFail("loop labels unsupported at %d.%d" % (t.line, t.col))
        if t.k == "p":
            if t.s == "(":
                self.i += 1
                es, trailing = [], False
                while not self.at(")"):
                    es.append(self.expr())
                    trailing = False
                    if self.eat(","):
                        trailing = True
                    else:
                        break
                self.expect(")")
                if len(es) == 1 and not trailing:
                    return es[0]
                return ("tuple", es, pos)
            if t.s == "[":
                self.i += 1
                es = []
                while not self.at("]"):
                    es.append(self.expr())
                    if self.eat(";"):
                        es.append(self.expr())
                        break
                    if not self.eat(","):
                        break
                self.expect("]")
                return ("array", es, pos)
            if t.s == "{":
                return self.block()
            if t.s in ("|", "||"):
                return self.closure()
            raise ParseFail("unexpected %r at %d.%d" % (t.s, t.line, t.col))
        if t.k != "id":
            raise ParseFail("unexpected token %r at %d.%d" % (t.s, t.line, t.col))
        s = t.s
        if s in ("true", "false"):
            self.i += 1
            return ("lit", "bool", s == "true", pos)
        if s == "move":
            self.i += 1
            return self.closure()
        if s == "unsafe":
            self.i += 1
            return self.block()
        if s == "if":
            return self.if_expr()
        if s == "match":
            self.i += 1
            scrut = self.expr(no_struct=True)
            self.expect("{")
            arms = []
            while not self.at("}"):
                self.attributes()
                self.eat("|")
                pat = self.pattern()
                guard = None
                if self.at("if"):
                    self.i += 1
                    guard = self.expr()
                self.expect("=>")
                body = self.expr(stmt_ctx=True)
                arms.append((pat, guard, body))
                if not self.eat(","):
                    if self.at("}"):
                        break
                    if body[0] in ("block", "if", "match", "loop", "while", "for"):
                        continue
                    raise ParseFail("match arm separator at %d.%d" % self.pos())
            self.expect("}")
            return ("match", scrut, arms, pos)
        if s == "loop":
            self.i += 1
            return ("loop", self.block(), pos)
        if s == "while":
            self.i += 1
            cond = self.cond_expr()
            return ("while", cond, self.block(), pos)
        if s == "for":
            self.i += 1
            pat = self.pattern()
            self.expect("in")
            it = self.expr(no_struct=True)
            return ("for", pat, it, self.block(), pos)
        if s == "return":
            self.i += 1
            e = None
            if self.starts_expr():
                e = self.expr()
            return ("return", e, pos)
        if s == "break":
            self.i += 1
            if self.peek().k == "life":
                raise ParseFail("labeled break")
            e = None
            if self.starts_expr() and not self.at("{"):
                e = self.expr()
            return ("break", e, pos)
        if s == "continue":
            self.i += 1
            if self.peek().k == "life":
                raise ParseFail("labeled continue")
            return ("continue", pos)
        # path, macro, struct literal
        segs = self.path_segments()
        if self.at("!") and not self.at("!="):
            nx = self.peek(1)
            if nx.k == "p" and nx.s in "([{":
                self.i += 1
                inner = self.skip_delimited()
                return ("macro", segs[-1], inner, pos)
        if self.at("{") and not no_struct and self.looks_like_struct(segs):
            self.i += 1
            fields, base = [], None
            while not self.at("}"):
                if self.at(".."):
                    self.i += 1
                    base = self.expr()
                    break
                nm = self.peek()
                if nm.k not in ("id", "num"):
                    raise ParseFail("struct field expected at %d.%d" % (nm.line, nm.col))
                self.i += 1
                if self.eat(":"):
                    fields.append((nm.s, self.expr()))
                else:
                    fields.append((nm.s, ("path", [nm.s], (nm.line, nm.col))))
                if not self.eat(","):
                    break
            self.expect("}")
            return ("struct", segs, fields, base, pos)
        return ("path", segs, pos)

    def looks_like_struct(self, segs):
        # `Name {` with a capitalised last segment, followed by `}` / `ident :` / `ident ,` / `ident }` / `..`
        if not segs[-1][:1].isupper():
            return False
        a, b = self.peek(1), self.peek(2)
        if a.k == "p" and a.s in ("}", ".."):
            return True
        if a.k in ("id", "num") and b.k == "p" and b.s in (":", ",", "}"):
            return True
        return False

    def cond_expr(self):
        pos = self.pos()
        if self.at("let"):
            self.i += 1
            pat = self.pattern()
            self.expect("=")
            e = self.expr(no_struct=True)
            if self.at("&&"):
                raise ParseFail("let chains unsupported")
            return ("letcond", pat, e, pos)
        return self.expr(no_struct=True)

    def if_expr(self):
        pos = self.pos()
        self.expect("if")
        cond = self.cond_expr()
        then = self.block()
        els = None
        if self.at("else"):
            self.i += 1
            if self.at("if"):
                els = self.if_expr()
            else:
                els = self.block()
        return ("if", cond, then, els, pos)

    def closure(self):
        pos = self.pos()
        params = []
        if self.eat("||"):
            pass
        else:
            self.expect("|")
            while not self.at("|"):
                params.append(self.pattern1())
                if self.eat(":"):
                    self.skip_type({",", "|"})
                if not self.eat(","):
                    break
            self.expect("|")
        if self.at("->"):
            self.i += 1
            self.skip_type({"{"})
            body = self.block()
        else:
            body = self.expr()
        return ("closure", params, body, pos)


# --------------------------------------------------------------------------- items of a file
class FnItem:
    def __init__(self, name, params, sig_text, body_toks, line, file, is_hof, ret_is_parse_result, first_is_input):
        self.name, self.params, self.sig_text, self.body_toks = name, params, sig_text, body_toks
        self.line, self.file, self.is_hof = line, file, is_hof
        self.ret_is_parse_result, self.first_is_input = ret_is_parse_result, first_is_input
        self.ast = None
        self.parse_error = None


class MacroRules:
    def __init__(self, name, arms):
        self.name, self.arms = name, arms       # arms: [(pattern tokens, body tokens)]


def split_top(toks, sep=","):
    """split a token list at `sep` outside any (), [], {} nesting and outside turbofish generics `::<..>`"""
    parts, cur, depth = [], [], 0
    angle = 0
    for n, t in enumerate(toks):
        if t.k == "p" and t.s in "([{":
            depth += 1
        elif t.k == "p" and t.s in ")]}":
            depth -= 1
        elif t.k == "p" and t.s == "<" and (angle > 0 or (n > 0 and toks[n - 1].k == "p" and toks[n - 1].s == "::")):
            angle += 1
            depth += 1
        elif t.k == "p" and t.s == ">" and angle > 0:
            angle -= 1
            depth -= 1
        if depth == 0 and t.k == "p" and t.s == sep:
            parts.append(cur); cur = []
        else:
            cur.append(t)
    if cur:
        parts.append(cur)
    return parts


def scan_items(toks, file, cfg_eval, depth_mods=True):
    """Top-level items of a file: functions (also inside `mod x { }`; not inside impl/trait), macro_rules!, item-level
    macro invocations, `use` declarations.  Returns (fns, macros, invocations, uses)."""
    fns, macros, invocs, uses = [], [], [], []
    p = Parser(toks, cfg_eval)

    def items(end_at_brace):
        while True:
            t = p.peek()
            if t.k == "eof":
                return
            if end_at_brace and p.at("}"):
                return
            keep = p.attributes()
            t = p.peek()
            if t.k == "eof":
                return
            # visibility
            if p.at("pub"):
                p.i += 1
                if p.at("("):
                    p.skip_delimited()
                t = p.peek()
            if t.k == "id" and t.s == "macro_rules" and p.at("!", 1):
                p.i += 2
                nm = p.peek().s
                p.i += 1
                inner = p.skip_delimited()
                p.eat(";")
                arms = []
                q = Parser(inner)
                while q.peek().k != "eof":
                    pat = q.skip_delimited()
                    q.expect("=>")
                    body = q.skip_delimited()
                    q.eat(";")
                    arms.append((pat, body))
                if keep:
                    macros.append(MacroRules(nm, arms))
                continue
            if t.k == "id" and t.s in ("const", "unsafe", "async", "extern") and p.peek(1).k == "id" and p.peek(1).s == "fn":
                p.i += 1
                t = p.peek()
            if t.k == "id" and t.s == "fn":
                line = t.line
                p.i += 1
                name = p.peek().s
                p.i += 1
                sig_start = p.i
                if p.at("<"):
                    p.skip_generics()
                ptoks = p.skip_balanced("(", ")")
                params_end = p.i
                ret_start = p.i
                # return type and where clause up to the body
                while not p.at("{") and not p.at(";"):
                    if p.peek().k == "eof":
                        raise ParseFail("fn %s: no body" % name)
                    if p.at("<"):
                        p.skip_generics()
                    elif p.peek().k == "p" and p.peek().s in "([":
                        p.skip_delimited()
                    else:
                        p.i += 1
                sig_toks = toks_slice(p, sig_start, p.i)
                ret_toks = toks_slice(p, ret_start, p.i)
                if p.eat(";"):
                    continue
                body_start = p.i
                p.skip_delimited()
                body_toks = p.t[body_start:p.i]
                # parameters
                params = []
                for part in split_top(ptoks):
                    if not part:
                        continue
                    k = 0
                    while k < len(part) and part[k].k == "id" and part[k].s in ("mut", "ref"):
                        k += 1
                    if k < len(part) and part[k].k == "id":
                        pname = part[k].s
                    elif part and part[0].k == "p" and part[0].s == "&":
                        pname = "self"
                    else:
                        pname = "_"
                    ty = " ".join(x.s for x in part[k + 1:])
                    params.append((pname, ty))
                # split the text after the parameter list into return type and where clause
                where_ix = next((k for k, x in enumerate(ret_toks) if x.k == "id" and x.s == "where"), len(ret_toks))
                ret_text = " ".join(x.s for x in ret_toks[:where_ix])
                where_text = " ".join(x.s for x in ret_toks[where_ix:])
                gen_text = " ".join(x.s for x in sig_toks[:len(sig_toks) - len(ret_toks)])
                hof_src = gen_text + " " + where_text + " " + " ".join(ty for _, ty in params)
                is_hof = bool(re.search(r"\b(Fn|FnMut|FnOnce|fn)\s*\(", hof_src)) or ret_text.strip().startswith("-> impl")
                first_is_input = bool(params) and "ParseString" in params[0][1]
                ret_is_pr = "ParseResult" in ret_text.split("where")[0][:40] or ret_text.replace(" ", "").startswith("->ParseResult")
                if keep:
                    fns.append(FnItem(name, params, " ".join(x.s for x in sig_toks), body_toks, line, file, is_hof, ret_is_pr, first_is_input))
                continue
            if t.k == "id" and t.s == "mod":
                p.i += 1
                p.i += 1  # name
                if p.eat(";"):
                    continue
                p.expect("{")
                if keep:
                    items(True)
                else:
                    # skip the module body
                    p.i -= 1
                    p.skip_delimited()
                    continue
                p.expect("}")
                continue
            if t.k == "id" and t.s == "use":
                start = p.i
                while not p.at(";"):
                    if p.peek().k == "eof":
                        break
                    if p.at("{"):
                        p.skip_delimited()
                    else:
                        p.i += 1
                ut = p.t[start + 1:p.i]
                p.eat(";")
                if keep:
                    uses.append(ut)
                continue
            if t.k == "id" and p.at("!", 1) and p.peek(2).k == "p" and p.peek(2).s in "([{":
                nm, line = t.s, t.line
                p.i += 2
                inner = p.skip_delimited()
                p.eat(";")
                if keep:
                    invocs.append((nm, inner, line))
                continue
            # anything else: struct / enum / impl / trait / static / const / type / extern crate ...
            p.skip_item()

    items(False)
    return fns, macros, invocs, uses


def toks_slice(p, a, b):
    return p.t[a:b]


def expand_macro(mac, arg_toks):
    """macro_rules expansion for the simple shapes used here: comma-separated `$x:frag` parameters, optionally ending
    with one `$($y:frag),+` repetition.  Returns the body tokens with parameters substituted, or None."""
    args = split_top(arg_toks)
    for pat, body in mac.arms:
        # parse the matcher
        params, rep = [], None
        k = 0
        ok = True
        while k < len(pat):
            t = pat[k]
            if t.k == "p" and t.s == "$" and k + 1 < len(pat) and pat[k + 1].k == "id":
                params.append(pat[k + 1].s)
                k += 4 if (k + 3 < len(pat) and pat[k + 2].s == ":") else 2
            elif t.k == "p" and t.s == "$" and k + 1 < len(pat) and pat[k + 1].s == "(":
                # $($name:frag),+
                j = k + 2
                if pat[j].s == "$" and pat[j + 1].k == "id":
                    rep = pat[j + 1].s
                while j < len(pat) and pat[j].s != ")":
                    j += 1
                k = j + 1
                while k < len(pat) and pat[k].k == "p" and pat[k].s in (",", "+", "*"):
                    k += 1
                continue
            elif t.k == "p" and t.s == ",":
                k += 1
            else:
                ok = False
                break
        if not ok:
            continue
        if rep is None and len(args) != len(params):
            continue
        if rep is not None and len(args) < len(params) + 1:
            continue
        bind = {nm: args[n] for n, nm in enumerate(params)}
        rep_args = args[len(params):] if rep is not None else []
        out = []
        k = 0
        while k < len(body):
            t = body[k]
            if t.k == "p" and t.s == "$" and k + 1 < len(body):
                nx = body[k + 1]
                if nx.k == "id" and nx.s in bind:
                    out += bind[nx.s]
                    k += 2
                    continue
                if nx.k == "p" and nx.s == "(":
                    # $( ... $rep ... ),+   — expand once per repetition argument, comma separated
                    j, depth = k + 2, 1
                    while j < len(body) and depth:
                        if body[j].k == "p" and body[j].s == "(":
                            depth += 1
                        elif body[j].k == "p" and body[j].s == ")":
                            depth -= 1
                        j += 1
                    inner = body[k + 2:j - 1]
                    sep = None
                    if j < len(body) and body[j].k == "p" and body[j].s == ",":
                        sep = body[j]; j += 1
                    if j < len(body) and body[j].k == "p" and body[j].s in ("+", "*"):
                        j += 1
                    for n, ra in enumerate(rep_args):
                        if n and sep is not None:
                            out.append(sep)
                        m = 0
                        while m < len(inner):
                            if inner[m].k == "p" and inner[m].s == "$" and m + 1 < len(inner) and inner[m + 1].s == rep:
                                out += ra; m += 2
                            else:
                                out.append(inner[m]); m += 1
                    k = j
                    continue
                return None
            out.append(t)
            k += 1
        return out
    return None
