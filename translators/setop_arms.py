#!/usr/bin/env python3
"""translators/setop_arms.py — the binary set functions (operations: union, intersection, difference, symmetric difference,
cartesian product; relations: subset, superset, proper subset / superset, equals, not-equals, disjoint) as Coq data.

Reads, on every run, every <repo>/machines/set/src/{operations,relations}/*.rs that mod.rs compiles in (a `pub mod x;` line that
is not commented out) and that has a two-operand compile():
  - `impl NativeFunctionCompiler for X`: bindings lhs, rhs = arguments[0], [1], the direct call, every operand-form arm
    `(lhs, Value::MutableReference(rhs)) => { f(lhs.clone(), rhs.borrow().clone()) }`
  - the kernel-level `fn set_.._fxn(lhs, rhs)`: parameters, the matched tuple, the pattern of the Set/Set arm, the statements
    before the struct literal (the element-kind guard of union / symmetric difference), the struct literal (which binder
    initialises lhs / rhs, the `out:` initialiser: kind and capacity of the result)
  - the kernel struct: field order, new() (FunctionArgs::Binary(out, arg1, arg2)), solve(), out(), the operand order of the
    emitted instruction
One-operand files (powerset) are listed in `so_other` with their site; files that cannot be read become `so_unrecognised`.
Writes coq/theories/Gen/SetOpArms.v (only when its content changes).  Pure data: decisions are Coq's (Proofs/SetOpArmsP.v, Props/C14.v)."""
import os, re, sys
sys.path.insert(0, os.path.dirname(os.path.abspath(__file__)))
import armrust as R
import armlib as L
from armrust import Unrecognised, Tm
from armlib import cs, cl

DIR = "machines/set/src"
GROUPS = ["operations", "relations"]
OUT = os.path.join(L.GEN, "SetOpArms.v")


def modules(group, bag):
    src = L.Src("%s/%s/mod.rs" % (DIR, group))
    mods = []
    for m in re.finditer(r"^[ \t]*pub\s+mod\s+(\w+)\s*;", src.text, re.M):      # comments are already blanked
        mods.append(m.group(1))
    if not mods:
        bag.add(src, 1, "no `pub mod` lines")
    return mods


def split_commas(s):
    out, depth, cur = [], 0, ""
    for c in s:
        if c in "([{<":
            depth += 1
        elif c in ")]}>":
            depth -= 1
        if c == "," and depth == 0:
            out.append(cur); cur = ""
        else:
            cur += c
    if cur.strip():
        out.append(cur)
    return out


def kernel_fn(src, name, bag):
    f = R.find_fn(src.text, name)
    if not f:
        bag.add(src, 0, "fn %s not found" % name)
        return None
    params = [p.split(":")[0].strip() for p in split_commas(f[0])]
    body = R.parse_block_text(f[1], f[2])
    if len(body.args) != 1 or R.unsemi(body.args[0]).head != "match":
        bag.add(src, f[3], "%s: body is not one match" % name)
        return None
    m = R.unsemi(body.args[0])
    arms = m.args[1:]
    good = [a for a in arms if not L.is_err_expr(a.args[2])]
    errs = [a for a in arms if L.is_err_expr(a.args[2])]
    if len(good) != 1 or len(errs) != 1 or arms[-1] is not errs[0]:
        bag.add(src, m.line, "%s: expected one Set/Set arm and one final error arm" % name)
        return None
    a = good[0]
    pat, guard, b = a.args
    if guard.head != "_noguard" or pat.head != "tuple":
        bag.add(src, a.line, "%s: arm pattern" % name)
        return None
    stmts = b.args if b.head == "block" else [b]
    last = R.unsemi(stmts[-1])
    structs = [t for t in R.walk(last) if t.head == "struct" and "Error" not in t.args[0].head]
    if len(structs) != 1 or not (last.head == "call" and last.args[0].head == "Ok"):
        bag.add(src, a.line, "%s: the arm does not end in Ok(Box::new(Struct { .. }))" % name)
        return None
    st = structs[0]
    fields, outexpr = [], Tm("_", [], a.line)
    for fl in st.args[1:]:
        if fl.head == "out:":
            outexpr = fl.args[0]
        else:
            fields.append((fl.head[:-1], L.accessor(fl.args[0])))
    return dict(site=src.site(a.line), fnsite=src.site(f[3]), name=name, params=params, scrut=m.args[0], pats=pat.args,
                guard=Tm("block", stmts[:-1], b.line), struct=st.args[0].head, fields=fields, out=outexpr)


def kernel_struct(src, struct, bag):
    res = {}
    m = re.search(r"struct\s+%s\s*\{([^}]*)\}" % re.escape(struct), src.text)
    if m:
        res["fields"] = (src.site(R.line_of(src.text, m.start())), [x.split(":")[0].replace("pub", "").strip() for x in split_commas(m.group(1))])
    else:
        bag.add(src, 0, "struct %s not found" % struct)
    for trait, fn, key in (("MechFunctionFactory", "new", "new"), ("MechFunctionImpl", "solve", "solve"), ("MechFunctionImpl", "out", "out"),
                           ("MechFunctionCompiler", "compile", "emit")):
        imp = R.find_impl(src.text, r"%s\s+for\s+%s\b" % (trait, re.escape(struct)))
        if not imp:
            bag.add(src, 0, "impl %s for %s not found" % (trait, struct))
            continue
        f = R.find_fn(imp[1], fn)
        if not f:
            bag.add(src, imp[3], "%s::%s not found" % (struct, fn))
            continue
        b = R.parse_block_text(f[1], imp[2] + f[2] - 1)
        site = src.site(imp[2] + f[3] - 1)
        if key == "emit":
            ops = [t for t in R.walk(b) if t.head in ("compile_binop!", "compile_unop!", "compile_ternop!")]
            if len(ops) != 1:
                bag.add(src, imp[2] + f[3] - 1, "%s::compile has no single compile_*op! call" % struct)
                continue
            res[key] = (src.site(ops[0].line), ops[0])
        else:
            res[key] = (site, b)
    return res


def extract():
    bag = L.Bag()
    entries, other = [], []
    for g in GROUPS:
        try:
            mods = modules(g, bag)
        except Unrecognised as ex:
            bag.items.append("%s/%s/mod.rs: %s" % (DIR, g, ex.why))
            continue
        for mod in mods:
            try:
                src = L.Src("%s/%s/%s.rs" % (DIR, g, mod))
            except Unrecognised as ex:
                bag.items.append("%s/%s/%s.rs: %s" % (DIR, g, mod, ex.why))
                continue
            cstructs = re.findall(r"impl\s+NativeFunctionCompiler\s+for\s+(\w+)", src.text)
            if len(cstructs) != 1:
                bag.add(src, 1, "expected exactly one NativeFunctionCompiler impl")
                continue
            sub = L.Bag()
            r = L.compile_fn(src, cstructs[0], sub)
            if r is None or r["direct"] is None or len(r["binds"]) != 2:
                # not a two-operand function (powerset): listed, not modelled
                if r is not None and len(r["binds"]) == 1 or (r is None and re.search(r"arguments\.len\(\)\s*!=\s*1", src.text)):
                    other.append((g, mod, src.site(1)))
                else:
                    bag.items += sub.items or ["%s: compile() not recognised" % src.site(1)]
                continue
            bag.items += sub.items
            k = bag.guard(src, kernel_fn, src, r["direct"][1], bag)
            if not k:
                continue
            ks = bag.guard(src, kernel_struct, src, k["struct"], bag) or {}
            entries.append((g, mod, r, k, ks))
    return dict(entries=entries, other=other, unrecognised=bag.items)


def render(d):
    o = [L.header("setop_arms.py", ["machines/set/src/{operations,relations}/mod.rs and the modules they compile in"], "./check C14")]
    o.append("Definition so_unrecognised : list string :=\n  %s.\n" % cl([cs(u) for u in d["unrecognised"]], ";\n   "))
    o.append("(* compiled-in modules that are not two-operand set functions: (group, module, site) — listed, not modelled *)")
    o.append("Definition so_other : list (string * string * string) :=\n  %s.\n" % cl(["(%s, %s, %s)" % (cs(a), cs(b), cs(c)) for a, b, c in d["other"]]))
    o.append("(* compile() of every binary set function: tag = [group; module] *)")
    o.append("Definition so_compile : list cfn :=\n  [" + ";\n   ".join(L.coq_compile_fn([g, m], r) for g, m, r, k, ks in d["entries"]) + "].\n")
    o.append("(* the kernel-level functions: (group, module, site of the Set/Set arm, fn name, parameters, matched tuple, patterns,\n"
             "   statements before the struct literal, struct, [(field, variable, accessor)], the `out:` initialiser) *)")
    o.append("Definition so_kernel_fns : list (string * string * string * string * list string * tm * list tm * tm * string * list (string * string * string) * tm) :=\n  [" +
             ";\n   ".join("(%s, %s, %s, %s, %s,\n    %s, %s,\n    %s,\n    %s, %s,\n    %s)" % (
                 cs(g), cs(m), cs(k["site"]), cs(k["name"]), cl([cs(p) for p in k["params"]]), R.coq_tm(k["scrut"]), cl([R.coq_tm(p) for p in k["pats"]]),
                 R.coq_tm(k["guard"]), cs(k["struct"]), cl(["(%s, %s, %s)" % (cs(f), cs(a[0]), cs(a[1])) for f, a in k["fields"]]), R.coq_tm(k["out"]))
                 for g, m, r, k, ks in d["entries"]) + "].\n")
    o.append("(* the kernel structs: (group, module, struct, field order, new(), solve(), out(), emitted instruction) each as (site, term) *)")
    empty = ("?", Tm("_missing", [], 0))
    rows = []
    for g, m, r, k, ks in d["entries"]:
        nw, sv, ou, em = ks.get("new", empty), ks.get("solve", empty), ks.get("out", empty), ks.get("emit", empty)
        rows.append("(%s, %s, %s, %s,\n    (%s, %s),\n    (%s, %s),\n    (%s, %s),\n    (%s, %s))" % (
            cs(g), cs(m), cs(k["struct"]), cl([cs(x) for x in ks.get("fields", ("?", []))[1]]),
            cs(nw[0]), R.coq_tm(nw[1]), cs(sv[0]), R.coq_tm(sv[1]), cs(ou[0]), R.coq_tm(ou[1]), cs(em[0]), R.coq_tm(em[1])))
    o.append("Definition so_kernels : list (string * string * string * list string * (string * tm) * (string * tm) * (string * tm) * (string * tm)) :=\n  [" +
             ";\n   ".join(rows) + "].\n")
    return "\n".join(o)


def regenerate(out=OUT):
    try:
        d = extract()
    except Exception as ex:      # never go blind silently
        d = dict(entries=[], other=[], unrecognised=["translator failed: %s: %s" % (type(ex).__name__, ex)])
    changed = R.write_if_changed(out, render(d))
    return dict(status="ok", functions=len(d["entries"]), operand_arms=sum(len(r["arms"]) for _, _, r, _, _ in d["entries"]),
                other=len(d["other"]), unrecognised=len(d["unrecognised"]), rewritten=changed, file=os.path.relpath(out, L.ROOT))


if __name__ == "__main__":
    import time
    t0 = time.time()
    r = regenerate(sys.argv[1]) if len(sys.argv) > 1 else regenerate()
    r["seconds"] = round(time.time() - t0, 2)
    print(r)
