"""translators/pg_analysis.py — a Python mirror of the analysis of coq/theories/Model/Progress.v on the translator's trees.

UNTRUSTED: used only to *explain* what the Coq analysis reports (which path makes an entry nullable, which calls form a
cycle, which source line a site is) in the replay file of ./check C09, and to pick targeted inputs.  Verdicts come from Coq.
"""
import sys


def expand(p):
    """derived forms -> core forms, exactly as Model/Progress.v defines them"""
    k = p[0]
    if k == "seq":
        def seq(l, x, v):
            if not l:
                return ("ret", "ok", x)
            return ("app", expand(l[0]), x, v, v + 1, seq(l[1:], v, v + 2), ("ret", "asis", v + 1), None)
        return ("block", seq(list(p[1]), 0, 1))
    if k == "alt":
        site = p[1]

        def pick(es):
            if not es:
                return ("ret", "err", 0)
            if len(es) == 1:
                return ("ret", "asis", es[0])
            return ("if", site, ("ret", "asis", es[0]), pick(es[1:]))

        def alt(l, v, errs):
            if not l:
                return pick(errs)
            return ("app", expand(l[0]), 0, v, v + 1, ("ret", "ok", v), alt(l[1:], v + 2, [v + 1] + errs), ("ret", "asis", v + 1))
        return ("block", alt(list(p[2]), 1, []))
    if k == "opt":
        return ("block", ("app", expand(p[1]), 0, 1, 2, ("ret", "ok", 1), ("ret", "ok", 0), ("ret", "asis", 2)))
    if k == "peek":
        return ("block", ("app", expand(p[1]), 0, 1, 2, ("ret", "ok", 0), ("ret", "asis", 2), None))
    if k == "not":
        return ("block", ("app", expand(p[1]), 0, 1, 2, ("ret", "err", 0), ("ret", "ok", 0), ("ret", "asis", 2)))
    if k == "cut":
        return ("block", ("app", expand(p[1]), 0, 1, 2, ("ret", "ok", 1), ("ret", "fail", 2), ("ret", "asis", 2)))
    if k == "altbest":
        return ("altbest", tuple((f, expand(x)) for f, x in p[1]))
    if k == "block":
        return ("block", expand_s(p[1]))
    return p


def expand_s(s):
    k = s[0]
    if k == "app":
        return ("app", expand(s[1]), s[2], s[3], s[4], expand_s(s[5]), expand_s(s[6]), None if s[7] is None else expand_s(s[7]))
    if k == "if":
        return ("if", s[1], expand_s(s[2]), expand_s(s[3]))
    if k == "guard":
        return ("guard", s[1], s[2], expand_s(s[3]), expand_s(s[4]))
    return s


class Analysis:
    def __init__(self, grammar):
        """grammar: list of (key, pexp) with derived forms"""
        self.G = [(k, expand(b)) for k, b in grammar]
        self.body = dict(self.G)
        self.nu = {k: False for k, _ in self.G}
        changed = True
        while changed:
            changed = False
            for k, b in self.G:
                v = self.nullp(b)
                if v != self.nu[k]:
                    self.nu[k] = v
                    changed = True
        self.edges = {k: self.fcallsp(b) for k, b in self.G}

    # nullability, with an optional explanation (list of strings) of one witness path
    def nullp(self, p, why=None):
        k = p[0]
        if k == "leaf":
            if not p[2] and why is not None:
                why.append("leaf %s does not consume" % p[1])
            return not p[2]
        if k == "punk":
            if why is not None:
                why.append("unknown node %s" % p[1])
            return True
        if k == "call":
            v = self.nu.get(p[1], True)
            if v and why is not None:
                why.append("call %s (nullable)" % p[1])
            return v
        if k == "eof":
            if why is not None:
                why.append("eof")
            return True
        if k == "altbest":
            for _, q in p[1]:
                if self.nullp(q):
                    if why is not None:
                        self.nullp(q, why)
                    return True
            return False
        if k == "block":
            return self.nulls(p[1], {}, why)
        raise AssertionError(p)

    @staticmethod
    def a(al, x):
        return al.get(x, (False, True))

    def nulls(self, s, al, why=None):
        k = s[0]
        if k == "ret":
            c, ok = self.a(al, s[2])
            r = (not c) if s[1] == "ok" else ((not c) and ok if s[1] == "asis" else False)
            if r and why is not None:
                why.append("returns Ok at position %d, not consumed" % s[2])
            return r
        if k == "app":
            p, x, y, e = s[1], s[2], s[3], s[4]
            cx = self.a(al, x)[0]
            pn = self.nullp(p)
            a_ok = dict(al); a_ok[y] = (cx or not pn, True)
            a_er = dict(al); a_er[e] = (cx, False)
            if self.nulls(s[5], a_ok):
                if why is not None:
                    why.append("%s at %d succeeds%s" % (self.show(p), x, " without consuming" if pn and not cx else ""))
                    if pn and not cx:
                        self.nullp(p, why)
                    self.nulls(s[5], a_ok, why)
                return True
            if self.nulls(s[6], a_er):
                if why is not None:
                    why.append("%s at %d fails; the error branch continues at the error position" % (self.show(p), x))
                    self.nulls(s[6], a_er, why)
                return True
            if s[7] is not None and self.nulls(s[7], a_er):
                if why is not None:
                    why.append("%s at %d fails (Failure)" % (self.show(p), x))
                    self.nulls(s[7], a_er, why)
                return True
            return False
        if k == "if":
            for b in (s[2], s[3]):
                if self.nulls(b, al):
                    if why is not None:
                        why.append("condition %s" % s[1])
                        self.nulls(b, al, why)
                    return True
            return False
        if k == "guard":
            if self.nulls(s[3], al):
                if why is not None:
                    why.append("progress check %s: not advanced" % s[1])
                    self.nulls(s[3], al, why)
                return True
            a2 = dict(al); a2[s[2]] = (True, self.a(al, s[2])[1])
            return self.nulls(s[4], a2, why)
        if k == "unk":
            if why is not None:
                why.append("unknown node %s" % s[1])
            return True
        if k == "panic":
            return False
        raise AssertionError(s)

    def show(self, p):
        if p[0] == "call":
            return p[1]
        if p[0] == "leaf":
            return "leaf:" + p[1]
        return "<%s>" % p[0]

    def fcallsp(self, p):
        k = p[0]
        if k == "call":
            return [p[1]]
        if k == "altbest":
            return [g for _, q in p[1] for g in self.fcallsp(q)]
        if k == "block":
            return self.fcallss(p[1], {})
        return []

    def fcallss(self, s, al):
        k = s[0]
        if k == "app":
            p, x, y, e = s[1], s[2], s[3], s[4]
            cx = self.a(al, x)[0]
            pn = self.nullp(p)
            a_ok = dict(al); a_ok[y] = (cx or not pn, True)
            a_er = dict(al); a_er[e] = (cx, False)
            out = [] if cx else self.fcallsp(p)
            out += self.fcallss(s[5], a_ok) + self.fcallss(s[6], a_er)
            if s[7] is not None:
                out += self.fcallss(s[7], a_er)
            return out
        if k == "if":
            return self.fcallss(s[2], al) + self.fcallss(s[3], al)
        if k == "guard":
            a2 = dict(al); a2[s[2]] = (True, self.a(al, s[2])[1])
            return self.fcallss(s[3], al) + self.fcallss(s[4], a2)
        return []

    def guardsp(self, p):
        k = p[0]
        if k == "altbest":
            return [g for _, q in p[1] for g in self.guardsp(q)]
        if k == "block":
            return self.guardss(p[1], {})
        return []

    def guardss(self, s, al):
        k = s[0]
        if k == "app":
            p, x, y, e = s[1], s[2], s[3], s[4]
            cx = self.a(al, x)[0]
            pn = self.nullp(p)
            a_ok = dict(al); a_ok[y] = (cx or not pn, True)
            a_er = dict(al); a_er[e] = (cx, False)
            out = self.guardsp(p) + self.guardss(s[5], a_ok) + self.guardss(s[6], a_er)
            if s[7] is not None:
                out += self.guardss(s[7], a_er)
            return out
        if k == "if":
            return self.guardss(s[2], al) + self.guardss(s[3], al)
        if k == "guard":
            a2 = dict(al); a2[s[2]] = (True, self.a(al, s[2])[1])
            out = [s[1]] if s[1].startswith("nom:") and not self.a(al, s[2])[0] else []
            return out + self.guardss(s[3], al) + self.guardss(s[4], a2)
        return []

    def guards_live(self):
        return [g for k, b in self.G for g in self.guardsp(b)]

    def cycles(self):
        """strongly connected components of the calls-before-consumption graph that contain a cycle"""
        sys.setrecursionlimit(20000)
        index, low, onst, st, out = {}, {}, set(), [], []
        ctr = [0]

        def sc(v):
            index[v] = low[v] = ctr[0]; ctr[0] += 1
            st.append(v); onst.add(v)
            for w in self.edges.get(v, []):
                if w not in self.edges:
                    continue
                if w not in index:
                    sc(w); low[v] = min(low[v], low[w])
                elif w in onst:
                    low[v] = min(low[v], index[w])
            if low[v] == index[v]:
                comp = []
                while True:
                    w = st.pop(); onst.discard(w); comp.append(w)
                    if w == v:
                        break
                if len(comp) > 1 or v in self.edges.get(v, []):
                    out.append(sorted(comp))
        for v in self.edges:
            if v not in index:
                sc(v)
        return sorted(out)

    def why_nullable(self, key):
        why = []
        if key in self.body and self.nu.get(key):
            self.nullp(self.body[key], why)
        return why

    def why_edge(self, f, g):
        """one chain of parsers that may all succeed without consuming before f calls g (coarse: lists nullable prefixes)"""
        return ["%s may call %s before anything is consumed" % (f, g)]
