#!/usr/bin/env python3
"""translators/opassign_arms.py — the op-assignment family (`x += e`, `x[ix] -= e`, `x[ix,:] *= e`, ...) as Coq data.

Reads, on every run,
  <repo>/machines/math/src/op_assign/{add,sub,mul,div}_assign.rs
      - the three `impl NativeFunctionCompiler for <Op>Assign{Value|Math,Range,RangeAll}`: bindings of sink/source/ixes to
        arguments[i], the direct call and every `(sink, Value::MutableReference(source)) => { f(..) }` operand-form arm
      - `fn <op>_assign_value_fxn(sink, source)` and the `op_assign_range[_all]_fxn!(..)` instantiations
      - the instantiations `impl_assign_scalar_scalar!(Mul, *=)`, `impl_<op>_assign_range_fxn_s!(MulAssign1DRS, mul_assign_1d_range, usize)`
      - every kernel macro `<op>_assign_1d_range[_b|_vec|_vec_b]`, `<op>_assign_2d_vector_all[_b|_mat|_mat_b]` (whole body)
  <repo>/machines/math/src/op_assign/mod.rs
      - `impl_op_assign_value_match_arms!`: every arm (cfg features, sink pattern, source pattern, struct, field initialisers)
      - `impl_assign_scalar_scalar / _vector_vector / _vector_scalar` and `impl_op_assign_range_fxn_s / _v`: the `solve` bodies
      - `op_assign_range_fxn / op_assign_range_all_fxn`: parameters and the tuple handed to the arm macros
  <repo>/src/core/src/stdlib.rs
      - `impl_set_range_arms!` / `impl_set_range_all_arms!`: every arm (patterns of sink / index / source, struct suffix,
        field initialisers) — shared with plain indexed assignment
Writes coq/theories/Gen/OpAssignArms.v (only when its content changes).  Every entry carries "file:line".  Whatever does
not have the expected shape becomes an entry of `oa_unrecognised` (the Coq statement demands that list to be empty).
The file is pure data: whether the arms are regular is decided by Coq (Proofs/OpAssignArmsP.v, Props/C04.v, Props/C05.v)."""
import os, re, sys
sys.path.insert(0, os.path.dirname(os.path.abspath(__file__)))
import armrust as R
import armlib as L
from armrust import Unrecognised
from armlib import cs, cl, coq_pair

OPS = [("add", "Add"), ("sub", "Sub"), ("mul", "Mul"), ("div", "Div")]
DIR = "machines/math/src/op_assign"
OUT = os.path.join(L.GEN, "OpAssignArms.v")
KERNELS = ["1d_range", "1d_range_b", "1d_range_vec", "1d_range_vec_b",
           "2d_vector_all", "2d_vector_all_b", "2d_vector_all_mat", "2d_vector_all_mat_b"]


def compile_structs(src, bag):
    """[(struct name, form)] from `pub struct XAssign...{}` + `impl NativeFunctionCompiler for X`"""
    res = []
    for m in re.finditer(r"impl\s+NativeFunctionCompiler\s+for\s+(\w+)", src.text):
        n = m.group(1)
        form = "range-all" if n.endswith("RangeAll") else "range" if n.endswith("Range") else "value"
        res.append((n, form))
    return res


def macro_invocations(src, name_re):
    """top-level `name!(a, b, c);` invocations: [(name, [arg texts], line)]"""
    res = []
    for m in re.finditer(r"^[ \t]*(%s)!\s*\(" % name_re, src.text, re.M):
        p0 = m.end() - 1
        p1 = R.balanced(src.text, p0, "(", ")")
        inner = src.text[p0 + 1:p1]
        args = [a.strip() for a in split_commas(inner)]
        res.append((m.group(1), args, R.line_of(src.text, m.start(1))))
    return res


def split_commas(s):
    out, depth, cur = [], 0, ""
    for c in s:
        if c in "([{<":
            depth += 1
        elif c in ")]}>":
            depth -= 1
        if c == "," and depth == 0:
            out.append(cur); cur = ""
        else:
            cur += c
    if cur.strip():
        out.append(cur)
    return out


def value_fxn(src, opl, bag):
    """fn <op>_assign_{value|math}_fxn(sink, source) { impl_op_assign_value_match_arms!(Op, (sink, source), ...) }"""
    for suffix in ("value", "math"):
        f = R.find_fn(src.text, "%s_assign_%s_fxn" % (opl, suffix))
        if f:
            name = "%s_assign_%s_fxn" % (opl, suffix)
            break
    else:
        bag.add(src, 0, "fn %s_assign_value_fxn not found" % opl)
        return None
    params = [p.split(":")[0].strip() for p in split_commas(f[0])]
    try:
        body = R.parse_block_text(f[1], f[2])
    except Unrecognised as ex:
        bag.add(src, ex.line, "%s: %s" % (name, ex.why))
        return None
    if len(body.args) != 1 or not body.args[0].head.startswith("impl_op_assign_value_match_arms!"):
        bag.add(src, f[3], "%s: body is not one impl_op_assign_value_match_arms! call" % name)
        return None
    a = body.args[0].args
    return dict(site=src.site(f[3]), name=name, params=params, macro="impl_op_assign_value_match_arms",
                margs=[a[0], a[1]] if len(a) >= 2 else [], kinds=[R.show(x) for x in a[2:]])


def range_fxn_macro(src, name, bag):
    """op_assign_range_fxn! in mod.rs: parameters of the generated fn, the tuple `arg`, the arm macro it hands it to"""
    rules = R.macro_rules(src.text, name)
    if not rules or len(rules) != 1:
        bag.add(src, R.macro_line(src.text, name), "macro %s: not found / more than one rule" % name)
        return None
    params, body, bl, rl = rules[0]
    m = re.search(r"fn\s+\$op_fxn_name\s*\(([^)]*)\)", body)
    if not m:
        bag.add(src, rl, "macro %s: no `fn $op_fxn_name(..)`" % name)
        return None
    fparams = [p.split(":")[0].strip() for p in split_commas(m.group(1))]
    ma = re.search(r"let\s+arg\s*=\s*(\([^;]*\))\s*;", body)
    if not ma:
        bag.add(src, rl, "macro %s: no `let arg = (..)`" % name)
        return None
    try:
        tup = R.parse_expr_text(ma.group(1), bl + body.count("\n", 0, ma.start()))
    except Unrecognised as ex:
        bag.add(src, ex.line, "macro %s: %s" % (name, ex.why))
        return None
    arms = sorted(set(re.findall(r"impl_assign_fxn!\(\s*(\w+)\s*,\s*\$fxn_name\s*,\s*arg\s*,", body)))
    return dict(site=src.site(rl), name=name, mparams=[p.split(":")[0].strip() for p in split_commas(params)],
                fparams=fparams, tup=tup, arm_macros=arms, ncalls=len(re.findall(r"impl_assign_fxn!\(", body)))


def struct_arms(src, macro, bag, tuple_len):
    """the arms of a `match $arg { .. }` macro whose arms build a struct: [(site, cfg, pats, struct, fields)]"""
    rules = R.macro_rules(src.text, macro)
    if not rules or len(rules) != 1:
        bag.add(src, R.macro_line(src.text, macro), "macro %s: not found / more than one rule" % macro)
        return [], 0
    params, body, bl, rl = rules[0]
    try:
        blk = R.parse_block_text(body, bl)
    except Unrecognised as ex:
        bag.add(src, ex.line, "macro %s: %s" % (macro, ex.why))
        return [], 0
    matches = [t for t in R.walk(blk) if t.head == "match"]
    if len(matches) != 1:
        bag.add(src, rl, "macro %s: %d match expressions" % (macro, len(matches)))
        return [], 0
    res, errs = [], 0
    for arm in matches[0].args[1:]:
        pat, guard, b = arm.args
        if L.is_err_expr(b):
            errs += 1
            continue
        structs = [t for t in R.walk(b) if t.head == "struct" and "PhantomData" not in t.args[0].head]
        structs = [t for t in structs if not t.args[0].head.startswith("MechError") and "Error" not in t.args[0].head]
        if pat.head != "tuple" or len(pat.args) != tuple_len or len(structs) != 1 or guard.head != "_noguard":
            bag.add(src, arm.line, "macro %s: arm is not `(p, ..) => .. Struct { .. }`" % macro)
            continue
        st = structs[0]
        fields = []
        for f in st.args[1:]:
            fields.append((f.head[:-1], L.accessor(f.args[0])))
        res.append((src.site(arm.line), getattr(arm, "cfg", []), pat.args, st.args[0].head, fields))
    return res, errs


def solve_body(src, macro, bag):
    """`fn solve(&self) { .. }` inside the macro"""
    rules = R.macro_rules(src.text, macro)
    if not rules or len(rules) != 1:
        bag.add(src, R.macro_line(src.text, macro), "macro %s: not found / more than one rule" % macro)
        return None
    params, body, bl, rl = rules[0]
    f = R.find_fn(body, "solve")
    if not f:
        bag.add(src, rl, "macro %s: no solve()" % macro)
        return None
    try:
        blk = R.parse_block_text(f[1], bl + f[2] - 1, metaops=[p.split(":")[0].strip() for p in split_commas(params) if p.strip().endswith(":tt")])
    except Unrecognised as ex:
        bag.add(src, ex.line, "macro %s solve: %s" % (macro, ex.why))
        return None
    return (src.site(bl + f[3] - 1), [p.strip() for p in split_commas(params)], blk)


def kernel_macro(src, name, bag):
    rules = R.macro_rules(src.text, name)
    if not rules or len(rules) != 1:
        bag.add(src, R.macro_line(src.text, name), "kernel macro %s: not found / more than one rule" % name)
        return None
    params, body, bl, rl = rules[0]
    try:
        blk = R.parse_block_text(body, bl)
    except Unrecognised as ex:
        bag.add(src, ex.line, "kernel macro %s: %s" % (name, ex.why))
        return None
    return (src.site(rl), [p.split(":")[0].strip() for p in split_commas(params)], blk)


def extract():
    bag = L.Bag()
    mod = L.Src(DIR + "/mod.rs")
    std = L.Src("src/core/src/stdlib.rs")
    cfns, callees, insts, kernels, wrappers = [], [], [], [], []
    for opl, opc in OPS:
        src = L.Src("%s/%s_assign.rs" % (DIR, opl))
        for struct, form in compile_structs(src, bag):
            r = L.compile_fn(src, struct, bag)
            if r and r["direct"]:
                cfns.append(([opl, form], r))
        v = bag.guard(src, value_fxn, src, opl, bag)
        if v:
            callees.append((opl, "value", v["site"], v["name"], v["params"], v["macro"], v["margs"]))
        for name, args, line in macro_invocations(src, r"op_assign_range(?:_all)?_fxn"):
            form = "range-all" if "all" in name else "range"
            callees.append((opl, form, src.site(line), args[0], [], name, [R.Tm(a, [], line) for a in args[1:]]))
        for name, args, line in macro_invocations(src, r"impl_assign_(?:scalar_scalar|vector_vector|vector_scalar)|impl_%s_assign_range_fxn_[sv]" % opl):
            insts.append((opl, src.site(line), name, args))
        # the per-file wrappers impl_<op>_assign_range_fxn_s -> impl_op_assign_range_fxn_s
        for w in ("s", "v"):
            nm = "impl_%s_assign_range_fxn_%s" % (opl, w)
            rules = R.macro_rules(src.text, nm)
            if not rules or len(rules) != 1:
                bag.add(src, R.macro_line(src.text, nm), "macro %s: not found / more than one rule" % nm)
                continue
            params, body, bl, rl = rules[0]
            mm = re.fullmatch(r"\s*(\w+)!\(([^)]*)\);\s*", body)
            if not mm:
                bag.add(src, rl, "macro %s: body is not one macro call" % nm)
                continue
            wrappers.append((opl, src.site(rl), nm, [p.split(":")[0].strip() for p in split_commas(params)], mm.group(1),
                             [a.strip() for a in split_commas(mm.group(2))]))
        for kn in KERNELS:
            k = bag.guard(src, kernel_macro, src, "%s_assign_%s" % (opl, kn), bag)
            if k:
                kernels.append((opl, kn, k[0], k[1], k[2]))
    range_macros = []
    for nm in ("op_assign_range_fxn", "op_assign_range_all_fxn"):
        r = bag.guard(mod, range_fxn_macro, mod, nm, bag)
        if r:
            range_macros.append(r)
    varms, verrs = struct_arms(mod, "impl_op_assign_value_match_arms", bag, 2)
    rarms = []
    for nm in ("impl_set_range_arms", "impl_set_range_all_arms"):
        a, e = struct_arms(std, nm, bag, 3)
        rarms.append((nm, a, e))
    solves = []
    for nm in ("impl_assign_scalar_scalar", "impl_assign_vector_vector", "impl_assign_vector_scalar",
               "impl_op_assign_range_fxn_s", "impl_op_assign_range_fxn_v"):
        s = bag.guard(mod, solve_body, mod, nm, bag)
        if s:
            solves.append((nm,) + s)
    return dict(cfns=cfns, callees=callees, insts=insts, wrappers=wrappers, kernels=kernels, range_macros=range_macros,
                varms=varms, verrs=verrs, rarms=rarms, solves=solves, unrecognised=bag.items)


def coq_fields(fields):
    return cl(["(%s, %s, %s)" % (cs(f), cs(a[0]), cs(a[1])) for f, a in fields])


def coq_sarm(a):
    site, cfg, pats, struct, fields = a
    feats = re.findall(r'"([^"]+)"', " ".join(cfg)) + re.findall(r"feature=(\$\w+)", " ".join(cfg))
    return "(%s, %s,\n      %s,\n      %s, %s)" % (cs(site), cl([cs(f) for f in feats]), cl([R.coq_tm(p) for p in pats]), cs(struct), coq_fields(fields))


def render(d):
    o = [L.header("opassign_arms.py",
                  ["machines/math/src/op_assign/{add,sub,mul,div}_assign.rs, machines/math/src/op_assign/mod.rs,",
                   "src/core/src/stdlib.rs (impl_set_range_arms!, impl_set_range_all_arms!)"], "./check C04 and ./check C05")]
    o.append("(* constructs the translator could not read (\"file:line: why\"); the theorems demand [] *)")
    o.append("Definition oa_unrecognised : list string :=\n  %s.\n" % cl([cs(u) for u in d["unrecognised"]], ";\n   "))
    o.append("(* compile() of every <Op>Assign{Value,Range,RangeAll}: tag = [operator; form] *)")
    o.append("Definition oa_compile : list cfn :=\n  [" + ";\n   ".join(L.coq_compile_fn(t, r) for t, r in d["cfns"]) + "].\n")
    o.append("(* the kernel-level functions the compile()s call: (operator, form, site, fn name, parameters, macro, macro arguments) *)")
    o.append("Definition oa_callees : list (string * string * string * string * list string * string * list tm) :=\n  [" + ";\n   ".join(
        "(%s, %s, %s, %s, %s, %s, %s)" % (cs(a), cs(b), cs(c), cs(dn), cl([cs(p) for p in ps]), cs(m), cl([R.coq_tm(x) for x in ma]))
        for a, b, c, dn, ps, m, ma in d["callees"]) + "].\n")
    o.append("(* op_assign_range_fxn! / op_assign_range_all_fxn! (mod.rs): (macro, site, macro parameters, fn parameters, the tuple `arg`,\n"
             "   arm macros it is handed to, number of impl_assign_fxn! calls) *)")
    o.append("Definition oa_range_macros : list (string * string * list string * list string * tm * list string * nat) :=\n  [" + ";\n   ".join(
        "(%s, %s, %s, %s, %s, %s, %d)" % (cs(r["name"]), cs(r["site"]), cl([cs(p) for p in r["mparams"]]), cl([cs(p) for p in r["fparams"]]),
                                          R.coq_tm(r["tup"]), cl([cs(a) for a in r["arm_macros"]]), r["ncalls"]) for r in d["range_macros"]) + "].\n")
    o.append("(* impl_op_assign_value_match_arms! (mod.rs): (site, cfg features, [sink pattern; source pattern], struct, [(field, variable, accessor)]) *)")
    o.append("Definition oa_value_arms : list (string * list string * list tm * string * list (string * string * string)) :=\n  [" +
             ";\n   ".join(coq_sarm(a) for a in d["varms"]) + "].")
    o.append("Definition oa_value_error_arms : nat := %d.\n" % d["verrs"])
    o.append("(* impl_set_range_arms! / impl_set_range_all_arms! (src/core/src/stdlib.rs): (macro, arms as above with\n"
             "   [sink pattern; index slice pattern; source pattern], number of error arms) *)")
    o.append("Definition oa_range_arms : list (string * list (string * list string * list tm * string * list (string * string * string)) * nat) :=\n  [" +
             ";\n   ".join("(%s,\n    [%s], %d)" % (cs(nm), ";\n     ".join(coq_sarm(a) for a in arms), e) for nm, arms, e in d["rarms"]) + "].\n")
    o.append("(* instantiations in the operator files: (operator, site, macro, arguments) *)")
    o.append("Definition oa_insts : list (string * string * string * list string) :=\n  [" + ";\n   ".join(
        "(%s, %s, %s, %s)" % (cs(a), cs(b), cs(c), cl([cs(x) for x in xs])) for a, b, c, xs in d["insts"]) + "].\n")
    o.append("(* the per-operator wrapper macros: (operator, site, macro, parameters, macro called, arguments) *)")
    o.append("Definition oa_wrappers : list (string * string * string * list string * string * list string) :=\n  [" + ";\n   ".join(
        "(%s, %s, %s, %s, %s, %s)" % (cs(a), cs(b), cs(c), cl([cs(x) for x in ps]), cs(m), cl([cs(x) for x in xs])) for a, b, c, ps, m, xs in d["wrappers"]) + "].\n")
    o.append("(* solve() of the kernel structs (mod.rs): (macro, site, macro parameters, body) *)")
    o.append("Definition oa_solves : list (string * string * list string * tm) :=\n  [" + ";\n   ".join(
        "(%s, %s, %s,\n    %s)" % (cs(a), cs(b), cl([cs(x) for x in ps]), R.coq_tm(t)) for a, b, ps, t in d["solves"]) + "].\n")
    o.append("(* the kernel macros of the operator files: (operator, kernel, site, parameters, body) *)")
    o.append("Definition oa_kernels : list (string * string * string * list string * tm) :=\n  [" + ";\n   ".join(
        "(%s, %s, %s, %s,\n    %s)" % (cs(a), cs(b), cs(c), cl([cs(x) for x in ps]), R.coq_tm(t)) for a, b, c, ps, t in d["kernels"]) + "].\n")
    return "\n".join(o)


EMPTY = dict(cfns=[], callees=[], insts=[], wrappers=[], kernels=[], range_macros=[], varms=[], verrs=0, rarms=[], solves=[])


def regenerate(out=OUT):
    try:
        d = extract()
    except Exception as ex:      # never go blind silently: an unreadable source yields a table that fails its obligations
        d = dict(EMPTY, unrecognised=["translator failed: %s: %s" % (type(ex).__name__, ex)])
    changed = R.write_if_changed(out, render(d))
    return dict(status="ok", compile_fns=len(d["cfns"]), operand_arms=sum(len(r["arms"]) for _, r in d["cfns"]),
                value_arms=len(d["varms"]), range_arms=sum(len(a) for _, a, _ in d["rarms"]), kernels=len(d["kernels"]),
                solves=len(d["solves"]), unrecognised=len(d["unrecognised"]), rewritten=changed, file=os.path.relpath(out, L.ROOT))


if __name__ == "__main__":
    import time
    t0 = time.time()
    r = regenerate(sys.argv[1]) if len(sys.argv) > 1 else regenerate()
    r["seconds"] = round(time.time() - t0, 2)
    print(r)
