#!/usr/bin/env python3
"""translators/armrust.py — a small tokenizer / recursive-descent reader for the subset of Rust the ARM translators
need (expressions, statements, patterns, match arms, struct literals, macro calls, macro_rules bodies), producing
GENERIC TERMS (head + arguments) that are written to Coq as values of Model/SrcArms.tm.
(Not to be confused with translators/rustmini.py, the control-flow reader of the C09 grammar translator.)

Used by translators/{opassign,range,setop,instr,cat,alloc}_arms.py.  It reads source TEXT: nothing is compiled and
nothing is guessed — whatever does not fit the subset raises `Unrecognised(line, why)`, and the callers turn that into
an explicit `Unrecognised "file:line"` entry of the generated table (the Coq statements bound their number).

Terms are generic: a term is `(head, [terms])`; identifiers, literals and paths are leaves `(text, [])`.
  a + b            ("+", [a, b])            x.f          (".f", [x])           x.m(a, b)   (".m()", [x, a, b])
  f(a, b)          ("call", [f, a, b])      x[i]         ("[]", [x, i])        *x / &x / &mut x / -x / !x
                                                                                ("*u"/"&"/"&mut"/"-u"/"!", [x])
  x as T           ("as", [x, T])           a = b, a += b ("=", ..), ("+=", ..) (a, b)      ("tuple", [a, b])
  { s1; s2; e }    ("block", [s1, s2, e])   unsafe { .. } ("unsafe", [block])   let p = e   ("let", [p, e])
  let mut p = e    ("letmut", [p, e])       if c {..} else {..} ("if", [c, t, e]) for p in it {..} ("for", [p, it, body])
  match s { arms } ("match", [s, arm...])   arm           ("arm", [pat, guard-or-("_noguard",[]), body]) + .cfg
  S { f: e, g }    ("struct", [S, ("f:", [e]), ("g:", [g])])                    m!(..)      ("m!", [args...]) or
                                                                                ("m!", [("raw", [text])]) when the
                                                                                arguments are not expressions
  |a, b| e         ("closure", [("params", [...]), e])                          return e    ("return", [e])
  a..b / a..=b     ("..", [a, b]) / ("..=", [a, b])                             e;          (";", [e])
Every term carries its line: terms are instances of `Tm` (tuple subclass with attribute .line)."""
import os, re


class Unrecognised(Exception):
    def __init__(self, line, why):
        Exception.__init__(self, "line %s: %s" % (line, why))
        self.line = line
        self.why = why


class Tm(tuple):
    """(head, args) with a source line"""
    def __new__(cls, head, args=(), line=0):
        t = tuple.__new__(cls, (head, list(args)))
        t.line = line
        return t

    @property
    def head(self):
        return self[0]

    @property
    def args(self):
        return self[1]

    def __repr__(self):
        return show(self)


def show(t):
    if not t.args:
        return t.head
    return "%s(%s)" % (t.head, ", ".join(show(a) for a in t.args))


def leaf(t):
    return not t.args


# ---------------------------------------------------------------------------------------------------------------
# tokens
# ---------------------------------------------------------------------------------------------------------------
TOKEN_RE = re.compile(r"""
    (?P<ws>\s+)
  | (?P<lc>//[^\n]*)
  | (?P<bc>/\*.*?\*/)
  | (?P<paste>\[<[^\[\]]*?>\])
  | (?P<str>b?"(?:\\.|[^"\\])*")
  | (?P<chr>'(?:\\.|[^'\\])')
  | (?P<life>'[A-Za-z_]\w*)
  | (?P<num>(?:0[xX][0-9A-Fa-f_]+|0b[01_]+|0o[0-7_]+|\d[\d_]*(?:\.\d[\d_]*)?(?:[eE][+-]?\d+)?)(?:[iuf](?:8|16|32|64|128|size))?)
  | (?P<id>\$?[A-Za-z_]\w*)
  | (?P<op>\.\.=|\.\.\.|<<=|>>=|=>|==|!=|<=|>=|&&|\|\||\+=|-=|\*=|/=|%=|\^=|&=|\|=|<<|>>|\.\.|::|->|[-+*/%^!&|=<>@.,;:#$?~(){}\[\]])
""", re.X | re.S)


class Tok(object):
    __slots__ = ("kind", "text", "line")

    def __init__(self, kind, text, line):
        self.kind, self.text, self.line = kind, text, line

    def __repr__(self):
        return "%s@%d" % (self.text, self.line)


def tokenize(src, first_line=1):
    """tokens of `src`; comments dropped; macro repetition markers `$( ... ) sep? [+*?]` made transparent"""
    toks = []
    pos, line = 0, first_line
    n = len(src)
    while pos < n:
        m = TOKEN_RE.match(src, pos)
        if not m:
            raise Unrecognised(line, "cannot tokenize at %r" % src[pos:pos + 20])
        kind = m.lastgroup
        text = m.group()
        if kind in ("ws", "lc", "bc"):
            pass
        elif kind == "paste":
            toks.append(Tok("id", re.sub(r"\s+", " ", text), line))
        elif kind in ("str", "chr", "num"):
            toks.append(Tok("lit", text, line))
        elif kind == "life":
            toks.append(Tok("life", text, line))
        else:
            toks.append(Tok(kind, text, line))
        line += text.count("\n")
        pos = m.end()
    return strip_repetitions(toks)


OPEN = {"(": ")", "[": "]", "{": "}"}
CLOSE = {")", "]", "}"}


def strip_repetitions(toks):
    """remove `$(` and its closing `)` with the separator / repetition operator that follows"""
    out = []
    stack = []      # True for a `$(` group
    i = 0
    while i < len(toks):
        t = toks[i]
        if t.kind == "op" and t.text == "$" and i + 1 < len(toks) and toks[i + 1].text == "(":
            stack.append(True)
            i += 2
            continue
        if t.kind == "op" and t.text in OPEN:
            stack.append(False)
        elif t.kind == "op" and t.text in CLOSE:
            if not stack:
                raise Unrecognised(t.line, "unbalanced %s" % t.text)
            rep = stack.pop()
            if rep:
                # `)` then optional separator then + * ?
                j = i + 1
                if j < len(toks) and toks[j].text in ("+", "*", "?"):
                    i = j + 1
                    continue
                if j + 1 < len(toks) and toks[j + 1].text in ("+", "*", "?") and toks[j].text in (",", ";"):
                    i = j + 2
                    continue
                raise Unrecognised(t.line, "macro repetition without + * ?")
        out.append(t)
        i += 1
    return out


# ---------------------------------------------------------------------------------------------------------------
# locating pieces of a file (text level, with line numbers)
# ---------------------------------------------------------------------------------------------------------------
def strip_comments_keep_lines(src):
    def blank(m):
        return re.sub(r"[^\n]", " ", m.group())
    src = re.sub(r"/\*.*?\*/", blank, src, flags=re.S)
    out = []
    for l in src.split("\n"):
        i, instr = 0, False
        cut = None
        while i < len(l):
            c = l[i]
            if instr:
                if c == "\\":
                    i += 1
                elif c == '"':
                    instr = False
            else:
                if c == '"':
                    instr = True
                elif c == "'" and i + 2 < len(l) and l[i + 2] == "'":
                    i += 2          # char literal such as '"'
                elif c == "/" and l[i:i + 2] == "//":
                    cut = i
                    break
            i += 1
        out.append(l if cut is None else l[:cut])
    return "\n".join(out)


def line_of(src, pos):
    return src.count("\n", 0, pos) + 1


def balanced(src, i, open_c="{", close_c="}"):
    """src[i] == open_c: index of the matching close (string and char literals skipped)"""
    assert src[i] == open_c, (src[i:i + 10], open_c)
    depth, j, n = 0, i, len(src)
    while j < n:
        c = src[j]
        if c == '"':
            j += 1
            while j < n and src[j] != '"':
                if src[j] == "\\":
                    j += 1
                j += 1
        elif c == "'" and j + 2 < n and (src[j + 2] == "'" or (src[j + 1] == "\\" and j + 3 < n and src[j + 3] == "'")):
            j += 2 if src[j + 2] == "'" else 3
        elif c == open_c:
            depth += 1
        elif c == close_c:
            depth -= 1
            if depth == 0:
                return j
        j += 1
    raise Unrecognised(line_of(src, i), "unbalanced %s" % open_c)


def macro_rules(src, name):
    """[(params_text, body_text, body_first_line, rule_line)] for every rule of `macro_rules! name`"""
    m = re.search(r"macro_rules!\s+%s\s*\{" % re.escape(name), src)
    if not m:
        return None
    i = m.end() - 1
    end = balanced(src, i)
    rules = []
    j = i + 1
    while True:
        while j < end and src[j] in " \t\r\n;":
            j += 1
        if j >= end:
            break
        if src[j] not in "([{":
            raise Unrecognised(line_of(src, j), "macro %s: rule does not start with a matcher" % name)
        pe = balanced(src, j, src[j], OPEN[src[j]])
        params = src[j + 1:pe]
        k = pe + 1
        while src[k] in " \t\r\n":
            k += 1
        if src[k:k + 2] != "=>":
            raise Unrecognised(line_of(src, k), "macro %s: `=>` expected" % name)
        k += 2
        while src[k] in " \t\r\n":
            k += 1
        if src[k] not in "([{":
            raise Unrecognised(line_of(src, k), "macro %s: rule body expected" % name)
        be = balanced(src, k, src[k], OPEN[src[k]])
        rules.append((params, src[k + 1:be], line_of(src, k + 1), line_of(src, j)))
        j = be + 1
    return rules


def macro_line(src, name):
    m = re.search(r"macro_rules!\s+%s\s*\{" % re.escape(name), src)
    return line_of(src, m.start()) if m else 0


def find_fn(src, name, start=0):
    """(params_text, body_text, body_first_line, fn_line, end_pos) of `fn name(...) ... { body }` at or after start"""
    m = re.compile(r"\bfn\s+%s\s*(?:<[^({]*>)?\s*\(" % re.escape(name)).search(src, start)
    if not m:
        return None
    p0 = m.end() - 1
    p1 = balanced(src, p0, "(", ")")
    b0 = src.find("{", p1)
    semi = src.find(";", p1)
    if b0 < 0 or (0 <= semi < b0):
        return None
    b1 = balanced(src, b0)
    return (src[p0 + 1:p1], src[b0 + 1:b1], line_of(src, b0 + 1), line_of(src, m.start()), b1 + 1)


def find_impl(src, header_re, start=0):
    """(header_text, body_text, body_first_line, line, end_pos) of the first `impl ... {` whose header matches"""
    for m in re.finditer(r"\bimpl\b", src[start:]):
        s = start + m.start()
        b0 = src.find("{", s)
        if b0 < 0:
            return None
        header = src[s:b0]
        if re.search(header_re, header):
            b1 = balanced(src, b0)
            return (header, src[b0 + 1:b1], line_of(src, b0 + 1), line_of(src, s), b1 + 1)
    return None


# ---------------------------------------------------------------------------------------------------------------
# parser
# ---------------------------------------------------------------------------------------------------------------
BINPREC = [
    ("||",), ("&&",), ("==", "!=", "<", ">", "<=", ">="), ("|",), ("^",), ("&",), ("<<", ">>"), ("+", "-"), ("*", "/", "%"),
]
ASSIGN_OPS = ("=", "+=", "-=", "*=", "/=", "%=", "^=", "&=", "|=", "<<=", ">>=")


class Parser(object):
    def __init__(self, toks, metaops=()):
        self.toks = toks
        self.i = 0
        self.metaops = set(metaops)     # macro metavariables (`$op_fn:tt`) that stand for an assignment operator

    # -- token helpers
    def peek(self, k=0):
        j = self.i + k
        return self.toks[j] if j < len(self.toks) else Tok("eof", "<eof>", self.toks[-1].line if self.toks else 0)

    def at(self, text, k=0):
        return self.peek(k).text == text and self.peek(k).kind in ("op", "id")

    def next(self):
        t = self.peek()
        self.i += 1
        return t

    def expect(self, text):
        t = self.next()
        if t.text != text:
            raise Unrecognised(t.line, "expected `%s`, found `%s`" % (text, t.text))
        return t

    def eof(self):
        return self.i >= len(self.toks)

    def line(self):
        return self.peek().line

    # -- attributes `#[cfg(...)]` -> list of raw texts
    def attrs(self):
        res = []
        while self.at("#") and self.at("[", 1):
            self.next()
            start = self.i
            depth = 0
            while True:
                t = self.next()
                if t.kind == "eof":
                    raise Unrecognised(t.line, "unterminated attribute")
                if t.text == "[":
                    depth += 1
                elif t.text == "]":
                    depth -= 1
                    if depth == 0:
                        break
            res.append("".join(x.text for x in self.toks[start + 1:self.i - 1]))
        return res

    # -- types (kept as text)
    def type_text(self):
        start = self.i
        while True:
            if self.at("&") or self.at("&&"):
                self.next()
                if self.peek().kind == "life":
                    self.next()
                if self.at("mut"):
                    self.next()
            elif self.at("*") and self.peek(1).text in ("mut", "const"):
                self.next(); self.next()
            elif self.at("dyn") or self.at("impl"):
                self.next()
            else:
                break
        t = self.peek()
        if t.text == "(":
            self.skip_balanced()
        elif t.text == "[":
            self.skip_balanced()
        elif t.kind in ("id", "life"):
            self.next()
            while True:
                if self.at("::"):
                    self.next()
                    if self.at("<"):
                        self.skip_generics()
                    else:
                        self.next()
                elif self.at("<"):
                    self.skip_generics()
                else:
                    break
        else:
            raise Unrecognised(t.line, "type expected, found `%s`" % t.text)
        return "".join(x.text for x in self.toks[start:self.i])

    def skip_generics(self):
        self.expect("<")
        depth = 1
        while depth:
            t = self.next()
            if t.kind == "eof":
                raise Unrecognised(t.line, "unterminated generics")
            if t.text == "<":
                depth += 1
            elif t.text == ">":
                depth -= 1
            elif t.text == ">>":
                depth -= 2
            elif t.text in ("(", "[", "{"):
                self.i -= 1
                self.skip_balanced()

    def skip_balanced(self):
        t = self.next()
        close = OPEN[t.text]
        depth = 1
        start = self.i
        while depth:
            u = self.next()
            if u.kind == "eof":
                raise Unrecognised(t.line, "unterminated `%s`" % t.text)
            if u.kind == "op" and u.text == t.text:
                depth += 1
            elif u.kind == "op" and u.text == close:
                depth -= 1
        return self.toks[start:self.i - 1]

    # -- paths
    def path(self):
        t = self.next()
        if t.kind != "id":
            raise Unrecognised(t.line, "identifier expected, found `%s`" % t.text)
        text = t.text
        while self.at("::"):
            if self.at("<", 1):
                self.next()
                s = self.i
                self.skip_generics()
                text += "::" + "".join(x.text for x in self.toks[s:self.i])
            elif self.peek(1).kind == "id":
                self.next()
                text += "::" + self.next().text
            else:
                break
        return Tm(text, [], t.line)

    # -- patterns
    def pattern(self):
        ln = self.peek().line
        alts = [self.pattern1()]
        while self.at("|"):
            self.next()
            alts.append(self.pattern1())
        return alts[0] if len(alts) == 1 else Tm("|", alts, ln)

    def pattern1(self):
        t = self.peek()
        ln = t.line
        if t.text in ("&", "&&") and t.kind == "op":
            self.next()
            if self.at("mut"):
                self.next()
            inner = Tm("&", [self.pattern1()], ln)
            return Tm("&", [inner], ln) if t.text == "&&" else inner
        if t.text in ("mut", "ref") and t.kind == "id":
            self.next()
            return Tm(t.text, [self.pattern1()], ln)
        if t.text == "(" and t.kind == "op":
            self.next()
            items = self.pattern_list(")")
            return Tm("tuple", items, ln)
        if t.text == "[" and t.kind == "op":
            self.next()
            items = self.pattern_list("]")
            return Tm("slice", items, ln)
        if t.text == ".." and t.kind == "op":
            self.next()
            return Tm("..", [], ln)
        if t.text == "-" and self.peek(1).kind == "lit":
            self.next()
            return Tm("-" + self.next().text, [], ln)
        if t.kind == "lit":
            self.next()
            return Tm(t.text, [], ln)
        if t.kind == "id":
            p = self.path()
            if self.at("("):
                self.next()
                items = self.pattern_list(")")
                return Tm(p.head, items or [Tm("()", [], ln)], ln)
            if self.at("{"):
                # struct pattern  S { a, b: p, .. }
                self.next()
                fields = []
                while not self.at("}"):
                    if self.at(".."):
                        self.next()
                        fields.append(Tm("..", [], self.line()))
                    else:
                        n = self.next()
                        if n.kind != "id":
                            raise Unrecognised(n.line, "struct pattern: field name expected")
                        if n.text in ("ref", "mut") and self.peek().kind == "id":
                            n = self.next()
                        if self.at(":"):
                            self.next()
                            fields.append(Tm(n.text + ":", [self.pattern()], n.line))
                        else:
                            fields.append(Tm(n.text + ":", [Tm(n.text, [], n.line)], n.line))
                    if self.at(","):
                        self.next()
                    elif not self.at("}"):
                        raise Unrecognised(self.line(), "struct pattern: `,` or `}` expected")
                self.expect("}")
                return Tm("pstruct", [p] + fields, ln)
            if self.at("@"):
                self.next()
                return Tm("@", [p, self.pattern1()], ln)
            return p
        raise Unrecognised(ln, "pattern expected, found `%s`" % t.text)

    def pattern_list(self, close):
        items = []
        while not self.at(close):
            items.append(self.pattern())
            if self.at(","):
                self.next()
            elif not self.at(close):
                raise Unrecognised(self.line(), "`,` or `%s` expected in pattern, found `%s`" % (close, self.peek().text))
        self.expect(close)
        return items

    # -- expressions
    def expr(self, nostruct=False):
        return self.assign(nostruct)

    def assign(self, nostruct):
        lhs = self.range_(nostruct)
        if (self.peek().kind == "op" and self.peek().text in ASSIGN_OPS) or (self.peek().kind == "id" and self.peek().text in self.metaops):
            op = self.next()
            rhs = self.assign(nostruct)
            return Tm(op.text, [lhs, rhs], op.line)
        return lhs

    def range_(self, nostruct):
        if self.at("..") or self.at("..="):
            op = self.next()
            if self.starts_expr():
                return Tm(op.text, [Tm("_", [], op.line), self.binary(0, nostruct)], op.line)
            return Tm(op.text, [Tm("_", [], op.line), Tm("_", [], op.line)], op.line)
        lhs = self.binary(0, nostruct)
        if self.at("..") or self.at("..="):
            op = self.next()
            if self.starts_expr() and not (nostruct and self.at("{")):
                rhs = self.binary(0, nostruct)
            else:
                rhs = Tm("_", [], op.line)
            return Tm(op.text, [lhs, rhs], op.line)
        return lhs

    def starts_expr(self):
        t = self.peek()
        if t.kind in ("id", "lit"):
            return True
        return t.kind == "op" and t.text in ("(", "[", "{", "-", "*", "&", "!", "|", "||", "&&")

    def binary(self, level, nostruct):
        if level == len(BINPREC):
            return self.cast(nostruct)
        lhs = self.binary(level + 1, nostruct)
        while self.peek().kind == "op" and self.peek().text in BINPREC[level]:
            op = self.next()
            rhs = self.binary(level + 1, nostruct)
            lhs = Tm(op.text, [lhs, rhs], op.line)
        return lhs

    def cast(self, nostruct):
        e = self.unary(nostruct)
        while self.at("as"):
            op = self.next()
            ty = self.type_text()
            e = Tm("as", [e, Tm(ty, [], op.line)], op.line)
        return e

    def unary(self, nostruct):
        t = self.peek()
        if t.kind == "op" and t.text in ("*", "-", "!"):
            self.next()
            return Tm({"*": "*u", "-": "-u", "!": "!"}[t.text], [self.unary(nostruct)], t.line)
        if t.kind == "op" and t.text in ("&", "&&"):
            self.next()
            if self.at("mut"):
                self.next()
                inner = Tm("&mut", [self.unary(nostruct)], t.line)
            else:
                inner = Tm("&", [self.unary(nostruct)], t.line)
            return Tm("&", [inner], t.line) if t.text == "&&" else inner
        return self.postfix(nostruct)

    def args(self, close=")"):
        items = []
        while not self.at(close):
            items.append(self.expr())
            if self.at(","):
                self.next()
            elif not self.at(close):
                raise Unrecognised(self.line(), "`,` or `%s` expected, found `%s`" % (close, self.peek().text))
        self.expect(close)
        return items

    def postfix(self, nostruct):
        e = self.primary(nostruct)
        while True:
            t = self.peek()
            if t.text == "." and t.kind == "op":
                self.next()
                n = self.next()
                if n.kind == "lit":             # tuple field x.0
                    e = Tm("." + n.text, [e], n.line)
                    continue
                if n.kind != "id":
                    raise Unrecognised(n.line, "field or method expected after `.`")
                fish = ""
                if self.at("::"):
                    self.next()
                    g0 = self.i
                    self.skip_generics()
                    fish = "::" + "".join(x.text for x in self.toks[g0:self.i])      # kept: `.read_u32::<LittleEndian>()`
                if self.at("("):
                    self.next()
                    e = Tm("." + n.text + fish + "()", [e] + self.args(")"), n.line)
                else:
                    e = Tm("." + n.text, [e], n.line)
            elif t.text == "(" and t.kind == "op":
                self.next()
                e = Tm("call", [e] + self.args(")"), t.line)
            elif t.text == "[" and t.kind == "op":
                self.next()
                ix = self.expr()
                self.expect("]")
                e = Tm("[]", [e, ix], t.line)
            elif t.text == "?" and t.kind == "op":
                self.next()
                e = Tm("?", [e], t.line)
            else:
                return e

    def macro_args(self, name, ln):
        t = self.peek()
        if t.text not in OPEN:
            raise Unrecognised(t.line, "macro %s!: delimiter expected" % name)
        inner = self.skip_balanced()
        raw = " ".join(x.text for x in inner)
        try:
            sub = Parser(inner, self.metaops)
            items = []
            sep_semi = False
            while not sub.eof():
                items.append(sub.expr())
                if sub.eof():
                    break
                if sub.at(","):
                    sub.next()
                elif sub.at(";"):
                    sub.next()
                    sep_semi = True
                else:
                    raise Unrecognised(sub.line(), "not an expression list")
            return Tm(name + ("!;" if sep_semi else "!"), items, ln)
        except Unrecognised:
            return Tm(name + "!", [Tm("raw", [Tm(raw, [], ln)], ln)], ln)

    def primary(self, nostruct):
        t = self.peek()
        ln = t.line
        if t.kind == "lit":
            self.next()
            return Tm(t.text, [], ln)
        if t.kind == "op" and t.text == "(":
            self.next()
            if self.at(")"):
                self.next()
                return Tm("tuple", [], ln)
            first = self.expr()
            if self.at(")"):
                self.next()
                return first              # parenthesised expression: parentheses dropped
            items = [first]
            while self.at(","):
                self.next()
                if self.at(")"):
                    break
                items.append(self.expr())
            self.expect(")")
            return Tm("tuple", items, ln)
        if t.kind == "op" and t.text == "[":
            self.next()
            items = []
            semi = False
            while not self.at("]"):
                items.append(self.expr())
                if self.at(","):
                    self.next()
                elif self.at(";"):
                    self.next()
                    semi = True
                elif not self.at("]"):
                    raise Unrecognised(self.line(), "array literal")
            self.expect("]")
            return Tm("array;" if semi else "array", items, ln)
        if t.kind == "op" and t.text == "{":
            return self.block()
        if t.kind == "op" and t.text in ("|", "||"):
            return self.closure()
        if t.kind == "id":
            if t.text == "if":
                return self.if_()
            if t.text == "match":
                return self.match_()
            if t.text == "unsafe":
                self.next()
                return Tm("unsafe", [self.block()], ln)
            if t.text == "for":
                return self.for_()
            if t.text == "while":
                self.next()
                c = self.expr(nostruct=True)
                return Tm("while", [c, self.block()], ln)
            if t.text == "loop":
                self.next()
                return Tm("loop", [self.block()], ln)
            if t.text == "return":
                self.next()
                if self.at(";") or self.at("}") or self.at(","):
                    return Tm("return", [], ln)
                return Tm("return", [self.expr()], ln)
            if t.text in ("break", "continue"):
                self.next()
                return Tm(t.text, [], ln)
            if t.text == "move" and self.peek(1).text in ("|", "||"):
                self.next()
                return self.closure()
            p = self.path()
            if self.at("!") and self.peek(1).text in OPEN and not self.at("=", 1):
                self.next()
                return self.macro_args(p.head, ln)
            if self.at("{") and not nostruct and self.looks_like_struct():
                return self.struct_lit(p)
            return p
        raise Unrecognised(ln, "expression expected, found `%s`" % t.text)

    def looks_like_struct(self):
        # `{ }`, `{ ident :`, `{ ident ,`, `{ ident }`, `{ ..`
        a, b = self.peek(1), self.peek(2)
        if a.text == "}" or a.text == "..":
            return True
        if a.kind == "id" and b.text in (":", ",", "}") and not (b.text == ":" and self.peek(3).text == ":"):
            return True
        return False

    def struct_lit(self, p):
        ln = self.expect("{").line
        fields = []
        while not self.at("}"):
            if self.at(".."):
                self.next()
                fields.append(Tm("..", [self.expr()], self.line()))
                break
            self.attrs()
            n = self.next()
            if n.kind not in ("id", "lit"):
                raise Unrecognised(n.line, "struct literal: field name expected")
            if self.at(":"):
                self.next()
                fields.append(Tm(n.text + ":", [self.expr()], n.line))
            else:
                fields.append(Tm(n.text + ":", [Tm(n.text, [], n.line)], n.line))
            if self.at(","):
                self.next()
            elif not self.at("}"):
                raise Unrecognised(self.line(), "struct literal: `,` or `}` expected, found `%s`" % self.peek().text)
        self.expect("}")
        return Tm("struct", [p] + fields, ln)

    def closure(self):
        t = self.next()
        ln = t.line
        params = []
        if t.text == "|":
            while not self.at("|"):
                params.append(self.pattern1())
                if self.at(":"):
                    self.next()
                    self.type_text()
                if self.at(","):
                    self.next()
            self.expect("|")
        if self.at("->"):
            self.next()
            self.type_text()
        body = self.expr()
        return Tm("closure", [Tm("params", params, ln), body], ln)

    def if_(self):
        ln = self.expect("if").line
        if self.at("let"):
            self.next()
            pat = self.pattern()
            self.expect("=")
            scrut = self.expr(nostruct=True)
            cond = Tm("iflet", [pat, scrut], ln)
        else:
            cond = self.expr(nostruct=True)
        then = self.block()
        if self.at("else"):
            self.next()
            els = self.if_() if self.at("if") else self.block()
            return Tm("if", [cond, then, els], ln)
        return Tm("if", [cond, then], ln)

    def for_(self):
        ln = self.expect("for").line
        pat = self.pattern()
        self.expect("in")
        it = self.expr(nostruct=True)
        return Tm("for", [pat, it, self.block()], ln)

    def match_(self):
        ln = self.expect("match").line
        scrut = self.expr(nostruct=True)
        self.expect("{")
        arms = []
        while not self.at("}"):
            arms.append(self.arm())
        self.expect("}")
        return Tm("match", [scrut] + arms, ln)

    def arm(self):
        cfg = self.attrs()
        ln = self.line()
        pat = self.pattern()
        guard = Tm("_noguard", [], ln)
        if self.at("if"):
            self.next()
            guard = self.expr(nostruct=True)
        self.expect("=>")
        # a block-like body ends the arm (no comma needed): `(..) => { .. } (next pattern) => ..`
        body = self.blocklike() if self.starts_blocklike() else self.expr()
        if self.at(","):
            self.next()
        a = Tm("arm", [pat, guard, body], ln)
        a.cfg = cfg
        return a

    def starts_blocklike(self):
        t = self.peek()
        return (t.kind == "op" and t.text == "{") or (t.kind == "id" and t.text in ("if", "match", "for", "while", "loop", "unsafe"))

    def blocklike(self):
        """a block-like expression in statement / arm-body position; a following `.method()` chain or `?` still belongs
        to it (e.g. `match x { .. }.map_err(..)`), a following `(` or `[` does not"""
        e = self.primary(False)
        while self.at(".") and self.peek(1).kind == "id":
            self.next()
            n = self.next()
            if self.at("::"):
                self.next()
                self.skip_generics()
            if self.at("("):
                self.next()
                e = Tm("." + n.text + "()", [e] + self.args(")"), n.line)
            else:
                e = Tm("." + n.text, [e], n.line)
        return e

    def block(self):
        ln = self.expect("{").line
        stmts = []
        while not self.at("}"):
            if self.at(";"):
                self.next()
                continue
            stmts.append(self.stmt())
        self.expect("}")
        return Tm("block", stmts, ln)

    def stmt(self):
        cfg = self.attrs()
        t = self.peek()
        ln = t.line
        if t.text == "let" and t.kind == "id":
            self.next()
            pat = self.pattern()
            if self.at(":"):
                self.next()
                self.type_text()
            if self.at("="):
                self.next()
                e = self.expr()
            else:
                e = Tm("_uninit", [], ln)
            if self.at(";"):
                self.next()
            mut = pat.head == "mut"
            s = Tm("letmut" if mut else "let", [pat.args[0] if mut else pat, e], ln)
            s.cfg = cfg
            return s
        if t.kind == "id" and (t.text == "fn" or (t.text == "pub" and self.peek(1).text == "fn")):
            # a nested function item: ("fn", [name, body])
            if t.text == "pub":
                self.next()
            self.next()
            name = self.next()
            if self.at("<"):
                self.skip_generics()
            if not self.at("("):
                raise Unrecognised(name.line, "fn %s: parameter list expected" % name.text)
            self.skip_balanced()
            while not self.at("{"):          # return type, where clause
                if self.peek().kind == "eof" or self.at(";"):
                    raise Unrecognised(name.line, "fn %s: body expected" % name.text)
                if self.at("<"):
                    self.skip_generics()
                elif self.peek().text in OPEN:
                    self.skip_balanced()
                else:
                    self.next()
            s = Tm("fn", [Tm(name.text, [], name.line), self.block()], ln)
            s.cfg = cfg
            return s
        # a block-like expression statement (`if`, `match`, `for`, `{..}`, ..) ends at its closing brace
        e = self.blocklike() if self.starts_blocklike() else self.expr()
        semi = False
        if self.at(";"):
            self.next()
            semi = True
        s = Tm(";", [e], ln) if semi else e
        s.cfg = cfg
        return s


def parse_block_text(text, first_line=1, metaops=()):
    """statements of a `{ ... }` body given WITHOUT its braces"""
    toks = tokenize(text, first_line)
    last = toks[-1].line if toks else first_line
    p = Parser([Tok("op", "{", first_line)] + toks + [Tok("op", "}", last)], metaops)
    b = p.block()
    if not p.eof():
        raise Unrecognised(p.line(), "trailing tokens after block")
    return b


def parse_expr_text(text, first_line=1, metaops=()):
    p = Parser(tokenize(text, first_line), metaops)
    e = p.expr()
    if not p.eof():
        raise Unrecognised(p.line(), "trailing tokens after expression: `%s`" % p.peek().text)
    return e


def unsemi(s):
    return s.args[0] if s.head == ";" else s


def walk(t):
    yield t
    for a in t.args:
        for x in walk(a):
            yield x


# ---------------------------------------------------------------------------------------------------------------
# rendering to Coq
# ---------------------------------------------------------------------------------------------------------------
def coq_str(s):
    return '"' + s.replace('"', '""') + '"'


def coq_list(xs, sep="; "):
    return "[" + sep.join(xs) + "]"


def coq_tm(t):
    if not t.args:
        return "(L %s)" % coq_str(t.head)
    return "(T %s %s)" % (coq_str(t.head), coq_list([coq_tm(a) for a in t.args]))


def write_if_changed(out, txt):
    changed = (not os.path.exists(out)) or open(out, encoding="utf-8").read() != txt
    if changed:
        os.makedirs(os.path.dirname(out), exist_ok=True)
        tmp = out + ".tmp%d" % os.getpid()
        open(tmp, "w", encoding="utf-8").write(txt)
        os.replace(tmp, out)
    return changed


def read_source(path):
    try:
        return open(path, encoding="utf-8").read().replace("\r", "")
    except OSError as ex:
        raise Unrecognised(0, "cannot read %s: %s" % (path, ex))
