"""C19 — re-evaluation (REPL step): deterministic, composes, no-op without assignments."""
from vlib.core import sx, q

PROP = "C19"
MODE = "step"
RULE = ("generated programs of 2-9 statements (definitions over scalars/matrices/sets/tuples/records/tables/ranges/indexing/calls; "
        "with probability 1/2 also mutable variables with =, +=, -=, *=, /= and indexed assignments) x step counts k in 0..4; "
        "per case two fresh interpreters: k single steps vs one request for k steps; non-trivial = distinct program x k judged ok")
ASSUMPTIONS = [
    "hash-map iteration order differs between the two interpreters of one case (each HashMap instance gets fresh RandomState keys); "
    "for every second case the second interpreter runs in a separate OS process (child `mvh stepb`), so process-wide state differs too",
    "the dataflow of a plan is read back from the Debug text of each step (field `out` = output cell, other addressed fields = operands); "
    "steps whose text is not of that form make the plan 'not recognised' (the value comparison still decides)",
]
TRIVIAL_TAGS = []

EXPRS_SCALAR = ["1 + 2", "3 * 4 - 5", "10 / 4", "2 ^ 5", "7 % 3", "math/sin(0.5)", "math/cos(1)", "-(3)", "1 < 2", "true && false", "!true", "5 >= 5",
                "2 ^ 0.5", "1u8 + 2u8", "7 / 2", "math/sqrt(16)", "math/atan2(1, 2)", "stats/sum/row([1 2 3])", "1 == 1", "1 != 2", "-2.5 * -2"]
EXPRS_MAT = ["[1 2 3]", "[1 2; 3 4]", "[1; 2; 3]", "1..5", "[1 2 3] + 1", "[1 2; 3 4] * 2", "[1 2 3] > 1", "[1 2; 3 4]'", "[1 2; 3 4] ** [5 6; 7 8]", "1..2..9",
             # every range form (each has its own kernel), concatenations, unary and comparison kernels
             "1..=5", "1..2..=9", "1..4..=13", "0.5..0.25..=2", "10u8..5u8..=30u8", "[1 2; 3 4] - [4 3; 2 1]", "[1 2 3 4][2..=3]", "[1 2; 3 4][:,1]",
             "[[1 2]; [3 4]]", "[[1; 2] [3; 4]]", "-[1 2 3]", "[1 2 3] ^ 2", "[1 2 3] % 2", "[1 2 3] == [1 0 3]", "[true false] || [false false]",
             "![true false]", "[1 2; 3 4; 5 6; 7 8]", "[1 2 3]'", "[1.5 2.5] / 2", "[1u8 2u8 3u8] + 1u8"]
EXPRS_OTHER = ['"hello"', "{1,2,3}", "(1, true)", "{a: 1, b: 2}", "| x<f64> y<f64> | 1 2 | 3 4 |", "1/2 + 1/3", "{1,2} ∪ {2,3}",
               "{1,2} ∩ {2,3}", "{1,2} ∖ {2}", "{1,2} Δ {2,3}", "2 ∈ {1,2}", "{1} ⊆ {1,2}", "(1, (2, 3))", '"a" == "a"', "1/2 * 2/3", "1+2i", "(1+2i) * (3-1i)",
               '["a" "b"]', "{1,2,3} ⊋ {1}"]


def program(rng, with_assign):
    stmts = []
    names = []
    muts = []
    n = rng.randint(2, 9)
    tables = []
    if rng.random() < 0.3:
        # two tables sharing the key column `id`; several rows of each have no partner in the other (the outer joins
        # append them: their order must not depend on anything but the program)
        la = sorted(rng.sample(range(1, 12), rng.randint(2, 6)))
        lb = sorted(rng.sample(range(1, 12), rng.randint(3, 8)))
        stmts.append("ta := | id<u64> a<f64> |" + "".join(" %d %d |" % (k, 10 * k) for k in la))
        stmts.append("tb := | id<u64> b<f64> |" + "".join(" %d %d |" % (k, k + 100) for k in lb))
        tables = ["ta", "tb"]
    if rng.random() < 0.15:
        # two enums that share a variant name, and values / patterns of that variant (the enum table is a hash map:
        # which enum the variant resolves to must not depend on the hash seed)
        stmts.append("<color> := :red<u64> | :green")
        stmts.append("<light> := :red<u64> | :amber | :green")
        stmts.append("e1 := :red(%du64)" % rng.randint(1, 9))
        stmts.append("e2 := e1? | :red(k) => k | * => 0u64.")
        if rng.random() < 0.5:
            stmts.append("e3 := :green")
        # the resolution becomes observable where the value meets a declared enum kind
        stmts.append("pickred(c<light>) => <u64>\n  ├ :red(n) => n\n  └ * => 0u64.")
        stmts.append("e4 := pickred(:red(%du64))" % rng.randint(1, 9))
    for i in range(n):
        r = rng.random()
        name = "v%d" % i
        if tables and r < 0.12:
            # row selection by a logical mask (a rejected row before a selected one), by index vector and by range
            t = rng.choice(tables); col = "a" if t == "ta" else "b"
            sel = rng.choice(["%s{%s.id > %d}" % (t, t, rng.randint(1, 8)), "%s[%s.%s > %d]" % (t, t, col, rng.choice([20, 50, 103, 105])),
                              "%s{%s.id != %d}" % (t, t, rng.randint(1, 11)), "%s[[2 1]]" % t, "%s[1..=2]" % t,
                              "%s{%s.id == %d}" % (t, t, rng.randint(1, 11))])
            stmts.append("%s := %s" % (name, sel)); names.append((name, "o"))
            continue
        if tables and r < 0.3:
            a, b = rng.sample(tables, 2) if rng.random() < 0.8 else (tables[0], tables[0])
            sym, word = rng.choice([("⋈", "table/join"), ("⟕", "table/left-outer-join"), ("⟖", "table/right-outer-join"),
                                    ("⟗", "table/full-outer-join"), ("⋉", "table/left-semi-join"), ("▷", "table/left-anti-join")])
            stmts.append("%s := %s" % (name, ("%s %s %s" % (a, sym, b)) if rng.random() < 0.7 else "%s(%s, %s)" % (word, a, b)))
            names.append((name, "o"))
            continue
        if with_assign and muts and r < 0.35:
            m, kind = rng.choice(muts)
            if kind == "s":
                stmts.append("%s %s %s" % (m, rng.choice(["=", "+=", "-=", "*=", "/="]), rng.choice(["2", "3", "0.5"])))
            else:
                form = rng.random()
                if form < 0.4:
                    stmts.append("%s %s %s" % (m, rng.choice(["+=", "-=", "*=", "/="]), rng.choice(["2", "3"])))
                elif form < 0.7:
                    stmts.append("%s[%d] = %s" % (m, rng.randint(1, 3), rng.choice(["42", "7", "0"])))
                else:
                    stmts.append("%s[%d] %s %s" % (m, rng.randint(1, 3), rng.choice(["+=", "*="]), rng.choice(["2", "5"])))
            continue
        if with_assign and r < 0.5:
            if rng.random() < 0.5:
                stmts.append("~%s := %s" % (name, rng.choice(["1", "2.5", "10"]))); muts.append((name, "s"))
            else:
                stmts.append("~%s := %s" % (name, rng.choice(["[1 2 3]", "[4 5 6]", "[1 2 3 4]"]))); muts.append((name, "m"))
            names.append((name, muts[-1][1]))
            continue
        if names and r < 0.75:
            a, ka = rng.choice(names)
            if ka == "s":
                e = rng.choice(["%s + 1", "%s * %s", "%s - 3", "[%s 2 3]", "%s > 0", "%s..2..=20", "1..=%s + 3", "%s..%s + 4", "[%s; %s]", "-%s"])
            else:
                e = rng.choice(["%s + 1", "%s * 2", "%s[2]", "%s[1..2]", "%s > 2", "stats/sum/row(%s)", "%s'", "-%s", "%s + %s", "[%s; %s]", "%s[[1 2]]", "%s ^ 2"])
            e = e.replace("%s", a)
            stmts.append("%s := %s" % (name, e)); names.append((name, "m" if ("[" in e and "][" not in e and not e.endswith("]") ) or ka == "m" and "[" not in e else "s"))
        else:
            pool = rng.choice([EXPRS_SCALAR, EXPRS_MAT, EXPRS_OTHER])
            e = rng.choice(pool)
            stmts.append("%s := %s" % (name, e))
            names.append((name, "m" if pool is EXPRS_MAT else ("s" if pool is EXPRS_SCALAR else "o")))
    return stmts


def generate(tier, rng):
    n = 700 if tier == "quick" else 12000
    for i in range(n):
        with_assign = rng.random() < 0.5
        stmts = program(rng, with_assign)
        has_assign = any((" = " in s and ":=" not in s) or any(op in s for op in [" += ", " -= ", " *= ", " /= "]) for s in stmts)
        k = rng.choice([0, 1, 1, 2, 3, 4])
        src = "\n".join(stmts)
        yield dict(sx=sx(["step", 1 if has_assign else 0, k, q(src)]), impl=(dict(src="\n".join(stmts), k=k, plan=1, xproc=1) if i % 2 == 0 else dict(src="\n".join(stmts), k=k, plan=1)),
                   tags=dict(assign=int(has_assign), k=k, nstmts=len(stmts), second_interpreter=("child-process" if i % 2 == 0 else "same-process")))


def shrink(case):
    src = case["impl"]["src"].split("\n")
    for i in range(len(src)):
        s2 = src[:i] + src[i + 1:]
        if s2:
            c = dict(case); c["impl"] = dict(case["impl"], src="\n".join(s2))
            p = case["sx"].split(); c["sx"] = sx(["step", p[1], case["impl"]["k"], q("\n".join(s2))]); yield c
    if case["impl"]["k"] > 1:
        k = case["impl"]["k"] - 1
        c = dict(case); c["impl"] = dict(case["impl"], k=k)
        p = case["sx"].split(); c["sx"] = sx(["step", p[1], k, q(case["impl"]["src"])]); yield c
