"""C06 — compiled bytecode computes what the interpreter computed."""
from vlib.core import sx, q

PROP = "C06"
MODE = "bytecode"
RULE = ("generated programs: (a) restricted grammar of the property's second sentence — literals of every numeric kind / bool / string, "
        "variables, unary and binary operators with distinct non-commutative operands, ranges, indexing, indexed and op assignment — "
        "which must compile, load, run and reproduce the result; (b) wider grammar (sets, tuples, records, tables, stdlib calls, matmul) "
        "where an error is allowed but a different value is not. interpret -> compile -> from_bytes -> fresh interpreter -> run_program, "
        "each stage under catch_unwind. non-trivial = distinct program whose bytecode ran and reproduced the value")
ASSUMPTIONS = [
    "value equality is structural equality of the canonical observations (kind, shape, elements; floats by bit pattern)",
    "link checks (Model/BytecodeLinkJ.v): the emitted file (hex) must be encode_program (lower ...) of the abstract program rebuilt from its own "
    "constants and instructions whenever all its constants are of a modelled kind; the printed instruction list must be the lowering of the "
    "compiled plan whenever every step of the plan dump is structured with one output (or a define); otherwise the check is not applied",
    "the plan's dataflow is read back from the Debug text of the steps (see C19)",
]
TRIVIAL_TAGS = ["interpreter-rejects", "compile-error", "run-error"]

def pregen():
    """regenerate coq/theories/Gen/InstrArms.v from the current Rust source (translators/instr_arms.py): the per-instruction arm
    obligations of Props/C06.v are stated over that table"""
    import os, sys
    from vlib import core as _core
    sys.path.insert(0, os.path.join(_core.ROOT, "translators"))
    import armlib
    return armlib.pregen(PROP, [("instr_arms", "theories/Proofs/InstrArmsP.vo")])


INTK = ["u8", "u16", "u32", "u64", "u128", "i8", "i16", "i32", "i64", "i128"]


def lit(rng, k):
    if k == "f64":
        return rng.choice(["1", "2", "3", "5", "7", "10", "0.5", "2.5", "12", "100"])
    if k in INTK:
        return "%d<%s>" % (rng.choice([1, 2, 3, 5, 7, 11, 20, 100]), k)
    if k == "f32":
        return "%s<f32>" % rng.choice(["1", "2", "3.5", "8"])
    if k == "bool":
        return rng.choice(["true", "false"])
    if k == "string":
        # ASCII and multi-byte strings (UTF-8 length differs from the character count)
        return rng.choice(['"a"', '"hello"', '"x y"', '"héllo"', '"naïve café"', '"日本語"', '"ß"', '"a→b"', '"😀 ok"'])
    if k == "r64":
        return rng.choice(["1/2", "3/4", "5/3"])
    if k == "c64":
        return rng.choice(["1+2i", "3-1i", "0.5+4i", "-2+7i", "6-0.25i"])
    raise ValueError(k)


def vec(rng, k, n=None):
    n = n or rng.randint(2, 4)
    return "[" + " ".join(lit(rng, k) for _ in range(n)) + "]"


def arity_program(rng, k):
    """the last instruction in every arity: a matrix literal of r rows (vertical concatenation of 1, 2, 3, 4, n
    arguments) of c blocks each (horizontal concatenation likewise), cells written as literals or variables"""
    stmts = []
    r, c = rng.choice([1, 1, 2, 3, 4, 4, 5, 6]), rng.choice([1, 2, 3, 4, 4, 5])
    if r == 1 and c == 1:
        c = 4
    names = []
    if rng.random() < 0.5:
        for nm in ("a", "b"):
            stmts.append("%s := %s" % (nm, lit(rng, k))); names.append(nm)
    cell = lambda: rng.choice(names) if names and rng.random() < 0.4 else lit(rng, k)
    m = "[" + "; ".join(" ".join(cell() for _ in range(c)) for _ in range(r)) + "]"
    stmts.append(rng.choice(["%s", "z := %s"]) % m)
    return stmts, False


def restricted_program(rng):
    """returns (stmts, has_assign)"""
    k = rng.choice(["f64"] * 6 + INTK + ["f32", "bool", "string", "r64", "c64"])
    stmts = []
    has_assign = False
    form = rng.random()
    if form < 0.12:
        return arity_program(rng, k if k != "c64" else "f64")
    form = rng.random()
    if k == "bool":
        stmts.append("a := %s" % lit(rng, k)); stmts.append("b := %s" % lit(rng, k))
        stmts.append(rng.choice(["a && b", "a || b", "a ^^ b", "!a", "a == b", "a != b", "v := [true false true]\nv && a"]))
        return stmts, False
    if k == "string":
        stmts.append("a := %s" % lit(rng, k)); stmts.append("b := %s" % lit(rng, k))
        stmts.append(rng.choice(["a == b", "a != b", "a", "m := [a b]\nm[2]", "c := b", "c := a\nd := b"]))
        return stmts, False
    ops = ["+", "-", "*", "/"] + (["%", "^"] if k in ("f64", "u8", "u16", "u32") else []) + ["<", ">", "<=", ">=", "==", "!="]
    if k == "r64":
        ops = ["+", "-", "*", "/", "<", ">", "==", "!="]
    if k == "c64":
        # scalars only: a complex MATRIX panics in run_program like a rational one (finding r64-matrix-run-panic)
        ops = ["+", "-", "*", "==", "!="]
        stmts.append("a := %s" % lit(rng, k)); stmts.append("b := %s" % lit(rng, k))
        op = rng.choice(ops)
        stmts.append(rng.choice(["c := a %s b", "c := b %s a", "a %s b", "c := a %s %s" % ("%s", lit(rng, k)), "d := a", "-a"]).replace("%s", op))
        return stmts, False
    if form < 0.3:
        stmts.append("a := %s" % lit(rng, k)); stmts.append("b := %s" % lit(rng, k))
        op = rng.choice(ops)
        e = rng.choice(["a %s b", "b %s a", "a %s %s" % ("%s", lit(rng, k)), "(a %s b) %s a" % ("%s", rng.choice(ops[:3]))])
        stmts.append("c := " + e.replace("%s", op)); stmts.append("c")
    elif form < 0.55:
        n = rng.randint(2, 4)
        stmts.append("m := %s" % vec(rng, k, n)); stmts.append("s := %s" % lit(rng, k))
        op = rng.choice(ops)
        stmts.append(rng.choice(["m %s s", "s %s m", "m %s m", "w := %s\nm %s w" % (vec(rng, k, n), "%s")]).replace("%s", op))
    elif form < 0.7:
        if k in ("f64", "f32", "r64") or k[0] == "i":
            stmts.append("m := %s" % vec(rng, k)); stmts.append(rng.choice(["-m", "n := -m\nn + m", "a := %s\n-a" % lit(rng, k)]))
        else:
            stmts.append("a := %s" % lit(rng, k)); stmts.append("b := %s" % lit(rng, k)); stmts.append("a - b" if rng.random() < 0.5 else "a + b")
    elif form < 0.8:
        stmts.append(rng.choice(["r := 1..5\nr", "r := 1..=4\nr * 2", "a := 2\nb := 6\na..=b", "r := 0..2..10\nr[2]", "x := [10 20 30 40]\nx[2..=3]"]))
    elif form < 0.9:
        stmts.append("x := [1 2 3; 4 5 6]" if k == "f64" else "x := %s" % vec(rng, k, 4))
        if k == "f64":
            stmts.append(rng.choice(["x[2]", "x[1,2]", "x[:,2]", "x[2,:]", "x[[1 2],[1 3]]", "x[x > 3]", "y := x[1,:]\ny + 1", "x'"]))
        else:
            stmts.append(rng.choice(["x[2]", "x[1..=2]", "x[[1 3]]", "y := x[3]\ny"]))
    else:
        has_assign = True
        stmts.append("~x := [1 2 3 4]" if k == "f64" else "~x := %s" % vec(rng, k, 4))
        v = lit(rng, k)
        order = rng.random()
        if order < 0.35:
            stmts.append(rng.choice(["x[2] = %s" % v, "x += %s" % v, "x[1..=2] = %s" % v, "x *= %s" % v]))
            stmts.append("x")
        elif order < 0.7:
            # read before the assignment: the stale-read pattern
            stmts.append("y := x[2]"); stmts.append("x[2] = %s" % v); stmts.append("y")
        else:
            stmts.append("x[3] = %s" % v); stmts.append("y := x[3]"); stmts.append("y")
    return stmts, has_assign


WIDE = [
    "s := {1,2,3}\ns", "a := {1,2} ∪ {2,3}\na", "t := (1, true, \"a\")\nt", "r := {a: 1, b: 2}\nr.a", "x := | a<f64> b<f64> | 1 2 | 3 4 |\nx",
    "x := | a<f64> b<f64> | 1 2 | 3 4 |\nx.a", "m := [1 2; 3 4]\nn := [5 6; 7 8]\nm ** n", "x := math/sin(0.5)\nx", "y := math/cos(1) + math/sin(1)\ny",
    "v := [1 2 3 4]\nstats/sum/row(v)", "m := [1 2; 3 4]\nstats/sum/column(m)", "a := math/sqrt(16)\na", "m := [1 2; 3 4]\nm'", "x := 1/2 + 1/3\nx",
    "z := 1+2i\nw := 3-1i\nz * w", "a := \"foo\"\nb := \"bar\"\n[a b]", "x := 3\ny := math/atan2(x, 4)\ny", "c := combinatorics/n-choose-k(5, 2)\nc",
    "m := [1 2 3]\nm > 1", "x := {1,2,3}\n2 ∈ x", "e := _\ne", "x<u8> := 200\nx", "x<[u8]:1,3> := [1 2 3]\nx + x",
    # table constants: every cell goes through the per-value constant codec (ConstElem for Value), one arm per kind;
    # values outside the 64-bit range for the 128-bit kinds, boundary values for the others (the program ends with the
    # definition itself: a trailing bare `x` would put the case into the class result-is-last-step)
    "x := | a<u128> | 18446744073709551616 | 7 |",
    "x := | a<i128> b<u8> | 100000000000000000000 1 | -100000000000000000000 2 |",
    "x := | a<u64> b<i64> | 18446744073709551615 -9223372036854775807 | 1 2 |",
    "x := | a<u8> b<i8> c<u16> d<i16> | 255 -128 65535 -32768 | 0 127 1 32767 |",
    "x := | a<u32> b<i32> c<f32> | 4294967295 -2147483648 1.5 | 0 2147483647 -0.25 |",
    "x := | a<f64> b<bool> c<string> | 0.1 true \"héllo\" | -1e300 false \"\" |",
    "x := | a<u128> b<i128> | 340282366920938463463374607431768211455 -170141183460469231731687303715884105727 |",
]


import re
IDENT = re.compile(r"^[a-z][a-z0-9]*$")


def flags_of(stmts, has_assign):
    src = "\n".join(stmts)
    last = src.split("\n")[-1].strip()
    fl = []
    if has_assign:
        fl.append("assign")
    if IDENT.match(last):
        fl.append("lastref")
    if re.search(r"\[[^\]]*\d/\d", src) or (re.search(r"\d/\d", src) and "[" in src):
        fl.append("r64mat")
    if "|" in src and "." in src and "||" not in src:
        fl.append("table")
    if re.search(r":= _", src):
        fl.append("empty")
    return fl


def generate(tier, rng):
    n = 1200 if tier == "quick" else 20000
    for i in range(n):
        stmts, has_assign = restricted_program(rng)
        # by default the program ends with a statement that creates a plan step (definition or operator);
        # a trailing bare variable reference is kept only in a separate stream
        lines = "\n".join(stmts).split("\n")
        stream = "restricted"
        if IDENT.match(lines[-1].strip()):
            v = lines[-1].strip()
            if rng.random() < 0.8 and len(lines) >= 2 and lines[-2].startswith(v + " := "):
                lines = lines[:-1]
            elif rng.random() < 0.5:
                lines[-1] = "%s == %s" % (v, v) if False else lines[-1]
                stream = "restricted-lastref"
            else:
                stream = "restricted-lastref"
        stmts = lines
        src = "\n".join(stmts)
        fl = flags_of(stmts, has_assign)
        yield dict(sx=sx(["bc", 1, fl, q(src)]), impl=dict(src=src, plan=1, hex=True), tags=dict(stream=stream, assign=int(has_assign)))
        if i % 4 == 0:
            # the same program once more, additionally re-evaluating the loaded program (informative, see Model/Bytecode.v)
            yield dict(sx=sx(["bc", 1, fl + ["restep"], q(src)]), impl=dict(src=src, plan=1, restep=1, hex=True), tags=dict(stream=stream + "+restep", assign=int(has_assign)))
    reps = 1 if tier == "quick" else 5
    for _ in range(reps):
        for src in WIDE:
            # a trailing bare reference to the variable the previous line defines adds nothing (the last plan step is that
            # definition) but would put the case into the class result-is-last-step, which accepts ANY differing result
            ls = src.split("\n")
            if len(ls) >= 2 and IDENT.match(ls[-1].strip()) and ls[-2].startswith(ls[-1].strip() + " := "):
                src = "\n".join(ls[:-1])
            fl = flags_of([src], False)
            yield dict(sx=sx(["bc", 0, fl, q(src)]), impl=dict(src=src, plan=1, hex=True), tags=dict(stream="wide"))


def shrink(case):
    src = case["impl"]["src"].split("\n")
    p = case["sx"].split()
    for i in range(len(src) - 1):
        s2 = "\n".join(src[:i] + src[i + 1:])
        c = dict(case); c["impl"] = dict(case["impl"], src=s2)
        fl = flags_of([s2], "assign" in case["sx"].split('"')[0]); c["sx"] = sx(["bc", p[1], fl, q(s2)]); yield c
