"""C15 — ranges are arithmetic progressions: generator of (kind, form, start, step, end) cases.

case S-expression:  (range <kind> <ex|in|exs|ins> <a> <s> <b>)      payloads as canon.rs prints them
                    (rangeix <kind> <form> <a> <s> <b> <L>)         x := [10 20 .. 10L] (u64), x[range]
The operands are bound to variables by typed definitions (or written inline for f64 / unsigned kinds),
the last statement is the range expression."""
import math
from decimal import Decimal
from fractions import Fraction
from vlib import mechsrc as ms
from vlib.core import sx

PROP = "C15"
MODE = "prog"
RULE = ("14 numeric kinds x 4 range forms (a..b, a..=b, a..s..b, a..s..=b) x (start, step, end) from: every pair/triple of a small "
        "boundary pool (kind min/max and neighbours, 0, +-1), windows ending at / starting from the kind's maximum / minimum, wide "
        "ranges whose difference overflows the kind, random small triples with negative, zero and off-grid steps, dyadic and "
        "non-dyadic float steps, rationals; plus ranges used as an index x[a..=b].  non-trivial = distinct case judged ok whose "
        "expected result is a non-empty progression (tags progression/single/index-selection)")
ASSUMPTIONS = [
    "operands are observed through variables defined by typed literals (or inline literals); integer operands are restricted to "
    "values the literal syntax denotes exactly (|v| <= 2^53, f64-exact values, or the kind's max/min which the literal path saturates to) "
    "and floats to values with a finite decimal expansion (C13 covers literals)",
    "error kinds/messages are not compared (one Err token); a caught panic inside interpret() is reported by mech as an error",
    "float ranges are binding only when every term of the progression is exactly representable in the kind; other float grids are advisory",
    "ranges longer than 200000 elements are not generated (memory)",
]
TRIVIAL_TAGS = ["empty-err", "empty-vec"]

FORMS = ["ex", "in", "exs", "ins"]
MAXN = 3000



def pregen():
    """regenerate coq/theories/Gen/RangeArms.v from the current Rust source (translators/range_arms.py): the arm obligations
    of Props/C15.v (section on the range kernels) are stated over that table"""
    import os, sys
    from vlib import core
    sys.path.insert(0, os.path.join(core.ROOT, "translators"))
    import armlib
    return armlib.pregen(PROP, [("range_arms", "theories/Proofs/RangeArmsP.vo")])


def lit_ok(k, v):
    lo, hi = ms.kind_range(k)
    if not (lo <= v <= hi):
        return False
    return abs(v) <= 2 ** 53 or v == hi or v == lo or int(float(v)) == v


def count(incl, a, s, b):
    a, s, b = Fraction(a), Fraction(s), Fraction(b)
    if s == 0:
        return 0
    if s < 0:
        a, s, b = -a, -s, -b
    if incl:
        return 0 if b < a else math.floor((b - a) / s) + 1
    return 0 if b <= a else math.ceil((b - a) / s)


def classify(form, a, s, b):
    incl = form in ("in", "ins")
    se = s if form in ("exs", "ins") else 1
    n = count(incl, a, se, b)
    if se == 0:
        return "zero-step"
    if n == 0:
        if a == b:
            return "empty-equal-bounds"
        return "wrong-direction"
    d = "desc" if se < 0 else "asc"
    if n == 1:
        return "single-" + d
    on = (Fraction(b) - Fraction(a)) % abs(Fraction(se)) == 0
    return ("on-grid-" if on else "off-grid-") + d


def safe(form, a, s, b):
    se = s if form in ("exs", "ins") else 1
    est = abs(Fraction(b) - Fraction(a)) / (abs(Fraction(se)) if se != 0 else 1)
    return est <= MAXN


def flit(x):
    """exact decimal spelling of a float without exponent"""
    if x == int(x) and abs(x) < 2 ** 62:
        return str(int(x))
    return format(Decimal(x), "f")


def lit(k, v):
    if k in ("f64", "f32"):
        return flit(v)
    return ms.lit(k, v)


def define(name, k, v):
    if k in ms.INT_KINDS or k == "f32":
        return "%s<%s> := %s" % (name, k, lit(k, v))
    return "%s := %s" % (name, lit(k, v))


def expr(form, a, s, b):
    return {"ex": "%s..%s" % (a, b), "in": "%s..=%s" % (a, b),
            "exs": "%s..%s..%s" % (a, s, b), "ins": "%s..%s..=%s" % (a, s, b)}[form]


def one_of(k):
    if k in ("f64", "f32"):
        return 1.0
    if k == "r64":
        return Fraction(1)
    if k == "c64":
        return (1.0, 0.0)
    return 1


def make_case(k, form, a, s, b, stream, inline=False):
    stepf = form in ("exs", "ins")
    if not stepf:
        s = one_of(k)
    def il(v):
        if k in ms.INT_KINDS:
            return "%d%s" % (v, k)
        if k == "f32":
            return "%s<f32>" % lit(k, v)
        return lit(k, v)
    if inline:
        src = expr(form, il(a), il(s), il(b))
    else:
        # each operand is written either as a variable or as an inline literal: the range kernels' compile step has
        # separate arms for every combination of plain values and variable references.  The choice is a deterministic
        # function of the case (3 bits of a CRC), so that replays are exact; about 40% of the cases are mixed.
        import zlib
        h = zlib.crc32(repr((k, form, a, s, b)).encode())
        mixed = (h % 5) < 2 and k != "c64" and not (k in ms.INT_KINDS and k[0] == "i" and min(a, s, b) < 0)
        use_var = [True, True, True] if not mixed else [bool((h >> 8) & 1), bool((h >> 9) & 1), bool((h >> 10) & 1)]
        lines = []
        if use_var[0]:
            lines.append(define("a", k, a))
        if stepf and use_var[1]:
            lines.append(define("s", k, s))
        if use_var[2]:
            lines.append(define("b", k, b))
        bound = (h % 7) == 3 and k != "c64" and not mixed
        if bound:
            # one operand is a name bound by a match arm (a local environment, not the symbol table); a global of the
            # same name with another value is defined first in half of the cases
            which = ((h >> 12) % 3) if stepf else (0 if (h >> 12) & 1 else 2)
            val = (a, s, b)[which]
            names = ["a", "s", "b"]; names[which] = "z"
            lines = [define(n, k, v) for n, v, w in (("a", a, 0), ("s", s, 1), ("b", b, 2)) if w != which and (w != 1 or stepf)]
            if (h >> 14) & 1:
                lines.append(define("z", k, (b, a, a)[which]))
            lines.append(define("m", k, val))
            zero = {"f64": "0", "f32": "0<f32>", "r64": "0/1"}.get(k, "0%s" % k)
            lines.append("m? | z => %s | * => [%s]." % (expr(form, names[0], names[1], names[2]), zero))
            stream = stream + "-armbound"
        else:
            lines.append(expr(form, "a" if use_var[0] else il(a), "s" if use_var[1] else il(s), "b" if use_var[2] else il(b)))
        src = "\n".join(lines)
        if mixed:
            stream = stream + "-mixed"
    cls = "c64" if k == "c64" else classify(form, a, s, b)
    return dict(sx=sx(["range", k, form, ms.payload(k, a), ms.payload(k, s), ms.payload(k, b)]),
                impl=dict(src=src),
                tags=dict(kind=k, form=form, cls=cls, stream=stream + ("-inline" if inline else "")))


def make_ix(k, form, a, s, b, L, stream, inline=False):
    stepf = form in ("exs", "ins")
    if not stepf:
        s = one_of(k)
    lines = ["x<[u64]:1,%d> := [%s]" % (L, " ".join(str(10 * i) for i in range(1, L + 1)))]
    if inline:
        lines.append("x[%s]" % expr(form, lit(k, a), lit(k, s), lit(k, b)))
    else:
        lines.append(define("a", k, a))
        if stepf:
            lines.append(define("s", k, s))
        lines.append(define("b", k, b))
        lines.append("x[%s]" % expr(form, "a", "s", "b"))
    return dict(sx=sx(["rangeix", k, form, ms.payload(k, a), ms.payload(k, s), ms.payload(k, b), L]),
                impl=dict(src="\n".join(lines)),
                tags=dict(kind=k, form=form, cls="index-" + classify(form, a, s, b), stream=stream))


def granule(k):
    """spacing of f64-exact integers just below the kind's maximum"""
    lo, hi = ms.kind_range(k)
    bits = hi.bit_length()
    return 1 if bits <= 53 else 2 ** (bits - 53)


def int_cases(k, tier, rng):
    lo, hi = ms.kind_range(k)
    signed = lo < 0
    g = granule(k)
    out = []

    def add(form, a, s, b, stream, inline=False):
        if not (lit_ok(k, a) and lit_ok(k, b)):
            return
        if form in ("exs", "ins") and not lit_ok(k, s):
            return
        if not safe(form, a, s, b):
            return
        if inline and (signed or min(a, s, b) < 0):
            return
        out.append(make_case(k, form, a, s, b, stream, inline))

    # 1. boundary pool, all pairs, unit and a few steps
    pool = sorted(set(v for v in [lo, lo + g, lo + 2 * g, -2, -1, 0, 1, 2, 3, 7, hi - 2 * g, hi - g, hi,
                                  hi + 1 - g, hi + 1 - 2 * g, hi + 1 - 3 * g] if lit_ok(k, v)))
    steps = [s for s in [1, 2, 3, g, 2 * g, 3 * g, -1, -2, -g, -2 * g, 0] if lit_ok(k, s)]
    steps = sorted(set(steps))
    for a in pool:
        for b in pool:
            for form in ("ex", "in"):
                add(form, a, 1, b, "boundary")
            for s in steps:
                for form in ("exs", "ins"):
                    add(form, a, s, b, "boundary")
    # 2. windows ending at the maximum / starting at the minimum
    for j in (1, 2, 3, 5, 10):
        a = hi + 1 - g * j if g > 1 else hi - j
        for b in (hi, hi + 1 - g if g > 1 else hi - 1):
            for s in (1, g, 2 * g, 3 * g, 4 * g, 1000, 7):
                for form in FORMS:
                    add(form, a, s, b, "near-max")
        if signed:
            b = lo + g * j
            for a2 in (lo, lo + g):
                for s in (1, g, 2 * g, 3 * g, 7):
                    for form in FORMS:
                        add(form, a2, s, b, "near-min")
                    for form in ("exs", "ins"):
                        add(form, b, -s, a2, "near-min-desc")
    # 3. wide ranges (difference overflows the signed kind / reaches the whole unsigned kind)
    w = hi - lo
    big_steps = [w // 3, w // 7, w // 100, w // 1000, 2 ** (hi.bit_length() - 2), 2 ** (hi.bit_length() - 1) - g]
    for a in (lo, lo + g, lo // 2 if signed else 0, -1 if signed else 1):
        for b in (hi, hi + 1 - g if g > 1 else hi - 1, hi // 2, hi // 2 + 1):
            for s in big_steps:
                if s <= 0:
                    continue
                sf = int(float(s)) if s > 2 ** 53 else s
                for form in FORMS:
                    add(form, a, sf, b, "wide")
    # 4. random small triples
    nrand = (60 if tier == "quick" else 3500)
    for _ in range(nrand):
        base = rng.choice([0, 0, 0, hi - 60 * g, lo if signed else 0])
        span = 40
        a = base + g * rng.randint(-span if signed else 0, span)
        b = base + g * rng.randint(-span if signed else 0, span)
        s = g * rng.choice([1, 1, 2, 3, 4, 5, 7, 10, 0, -1, -2, -3, -5])
        form = rng.choice(FORMS)
        add(form, a, s, b, "random")
    # 5. inline literals (unsigned only: `7i8` lexes as a complex literal)
    if not signed and g == 1:
        for (a, s, b) in [(1, 1, 5), (0, 2, 9), (250, 1, 255), (3, 3, 3), (5, 1, 2), (hi - 5, 1, hi), (hi - 5, 2, hi - 1), (0, 0, 4)]:
            for form in FORMS:
                add(form, a, s, b, "lit", inline=True)
    return out


def float_cases(k, tier, rng):
    out = []
    prec = 24 if k == "f32" else 53

    def add(form, a, s, b, stream, inline=False):
        vals = [float(a), float(s), float(b)]
        if k == "f32":
            vals = [ms.bits_f32(ms.f32_bits(v)) for v in vals]
        a, s, b = vals
        if not safe(form, a, s, b):
            return
        if inline and k != "f64":
            return
        out.append(make_case(k, form, a, s, b, stream, inline))

    pool = [0, 1, -1, 2, 5, 10, 0.5, -0.5, 0.25, 1.5, -2.5, 2.75, 3, 7.125, -3, 100, 0.0009765625]
    steps = [1, 0.5, 0.25, 0.125, 2, 1.5, 2.5, 3, -1, -0.5, -2.5, 0, 0.1, 0.3, -0.1, 1.0 / 3]
    for a in pool:
        for b in pool:
            for form in ("ex", "in"):
                add(form, a, 1, b, "pool")
            if tier == "quick" and rng.random() < 0.6:
                continue
            for s in steps:
                if tier == "quick" and rng.random() < 0.7:
                    continue
                for form in ("exs", "ins"):
                    add(form, a, s, b, "pool")
    # near the end of the exactly representable integers
    top = 2 ** prec
    for (a, s, b) in [(top - 6, 1, top + 6), (top - 6, 2, top + 6), (top - 4, 1, top), (top - 3, 1, top - 1),
                      (top, 2, top + 10), (top, 1, top + 4), (top - 5, 3, top + 7), (-top - 4, 2, -top + 4)]:
        for form in FORMS:
            add(form, a, s, b, "near-2^prec")
    # size rounding: small start, far end
    for (a, s, b) in [(2.0 ** -20, 1, 100), (2.0 ** -30, 1, 100), (2.0 ** -40, 1, 64), (2.0 ** -30, 0.5, 10), (0.0009765625, 1, 100),
                      (-(2.0 ** -30), 1, 100), (2.0 ** -50, 1, 8)]:
        for form in FORMS:
            add(form, a, s, b, "tiny-start")
    nrand = 250 if tier == "quick" else 12000
    for _ in range(nrand):
        den = rng.choice([1, 1, 2, 4, 8, 16, 10, 3])
        a = rng.randint(-200, 200) / den
        b = a + rng.randint(-40, 400) / rng.choice([1, 2, 4, 8, 10])
        s = rng.choice([1, 2, 3, 5, -1, -2, -3]) / rng.choice([1, 1, 2, 4, 8, 16, 10, 3, 7])
        if rng.random() < 0.04:
            s = 0.0
        if rng.random() < 0.15:
            a, b = b, a
        add(rng.choice(FORMS), a, s, b, "random")
    for (a, s, b) in [(1, 1, 5), (1, 2, 10), (1, 2, 9), (0, 0.25, 1), (0, 0.1, 1), (5, 1, 5), (5, 1, 3), (1, 0, 5), (1, 1, 2.5), (0.5, 1, 3), (10, -1, 0), (5, -1, 5), (10, -2.5, 0)]:
        for form in FORMS:
            add(form, a, s, b, "lit", inline=True)
    return out


def rat_cases(tier, rng):
    out = []
    k = "r64"
    fixed = [(Fraction(1, 2), Fraction(1), Fraction(7, 2)), (Fraction(0), Fraction(1, 3), Fraction(2)), (Fraction(-1, 2), Fraction(1, 4), Fraction(1, 2)),
             (Fraction(3), Fraction(1), Fraction(3)), (Fraction(5), Fraction(1), Fraction(2)), (Fraction(1), Fraction(0), Fraction(4)),
             (Fraction(2), Fraction(-1, 2), Fraction(0)), (Fraction(1, 3), Fraction(2, 3), Fraction(10, 3))]
    for (a, s, b) in fixed:
        for form in FORMS:
            out.append(make_case(k, form, a, s, b, "fixed"))
    n = 60 if tier == "quick" else 800
    for _ in range(n):
        a = Fraction(rng.randint(-20, 20), rng.randint(1, 9))
        b = a + Fraction(rng.randint(-10, 60), rng.randint(1, 9))
        s = Fraction(rng.choice([1, 2, 3, -1, -2, 0, 1, 5]), rng.randint(1, 7))
        form = rng.choice(FORMS)
        if safe(form, a, s, b):
            out.append(make_case(k, form, a, s, b, "random"))
    return out


def cpx_cases():
    out = []
    for (a, s, b) in [((1.0, 2.0), (1.0, 0.0), (5.0, 2.0)), ((0.0, 0.0), (1.0, 1.0), (3.0, 3.0)), ((1.0, 0.0), (1.0, 0.0), (1.0, 0.0))]:
        for form in FORMS:
            out.append(make_case("c64", form, a, s, b, "fixed"))
    return out


def index_cases(tier, rng):
    out = []
    n = 25 if tier == "quick" else 300
    kinds = ["u8", "u16", "u32", "u64", "u128", "i8", "i16", "i32", "i64", "i128", "f64", "f32"]
    for k in kinds:
        for _ in range(n // 2 if k != "f64" else n):
            L = rng.randint(3, 40)
            a = rng.randint(1, L)
            b = rng.randint(1, L)
            if rng.random() < 0.8 and a > b:
                a, b = b, a
            s = rng.choice([1, 1, 2, 3, 4])
            form = rng.choice(FORMS)
            if k in ("f64", "f32"):
                a, s, b = float(a), float(s), float(b)
            inline = (k == "f64" and rng.random() < 0.5)
            out.append(make_ix(k, form, a, s, b, L, "index" + ("-inline" if inline else ""), inline))
    return out


def generate(tier, rng):
    for k in ms.INT_KINDS:
        cs = int_cases(k, tier, rng)
        if tier == "quick" and len(cs) > 420:
            keep = [c for c in cs if c["tags"]["stream"] not in ("boundary",)]
            bnd = [c for c in cs if c["tags"]["stream"] == "boundary"]
            room = max(150, 420 - len(keep))
            cs = keep + (rng.sample(bnd, room) if len(bnd) > room else bnd)
        for c in cs:
            yield c
    for k in ("f64", "f32"):
        for c in float_cases(k, tier, rng):
            yield c
    for c in rat_cases(tier, rng):
        yield c
    for c in cpx_cases():
        yield c
    for c in index_cases(tier, rng):
        yield c


def shrink(case):
    return []
