"""C20 — source includes: generator of include graphs / directory trees.

A case is a small directory tree of .mec files plus the file to load.  The model gets the whole tree as an
S-expression; the harness (`harness20/`, binary `mvh20`, links the root crate `mech`) materialises the same tree
under a per-run scratch directory (created here with tempfile.mkdtemp, outside /repo and /verif, removed at exit)
and calls the real `mech::read_mech_source_file`."""
import atexit, itertools, os, posixpath, shutil, tempfile
from vlib.core import q

PROP = "C20"
MODE = "include"
CRATE = "harness20"
BIN = "mvh20"
TARGET_DIR = "/verif/.cache/target20"
STALL = 20.0
RULE = ("every include graph (every subset of the n*n edges incl. self-loops, diamonds, cycles) over 3 files [quick and thorough] "
        "and over 4 files [quick: 1500 sampled + all 543 acyclic ones; thorough: all 65536], files spread over 1-3 directories (5 layouts, relative paths with "
        "sub/, ../, ./, detours through another directory); plus varied texts: include lines with surrounding/inner spaces, tabs, CR, "
        "include-looking lines inside backtick/tilde fences of length 3-6 with shorter/equal/longer/other-marker/indented/texted closers and "
        "unclosed fences, other brace expressions, empty files, with/without trailing newline, missing files and missing directories. "
        "non-trivial = distinct case in which at least one include line outside fences is expanded or diagnosed")
ASSUMPTIONS = [
    "file contents are 7-bit ASCII (Rust's trim also strips non-ASCII Unicode white space, which the byte model does not know); no symlinks, "
    "no directories named *.mec, no unreadable files; include targets never leave the scratch root (such cases are advisory)",
    "a line such as `{a} {b.mec}` (braces inside the target) is classified advisory: the property text does not say whether it is a stand-alone include",
    "error classes are recognised by message text: 'Circular include detected' / 'Include failed: <name as written>' (docs/mechdown/include.mec)",
]
TRIVIAL_TAGS = ["verbatim"]

_SCRATCH = tempfile.mkdtemp(prefix="mvh20-")
assert not os.path.realpath(_SCRATCH).startswith(("/repo", "/verif"))
os.environ["MVH20_SCRATCH"] = _SCRATCH
atexit.register(lambda: shutil.rmtree(_SCRATCH, ignore_errors=True))

LAYOUTS4 = [
    ["a.mec", "b.mec", "c.mec", "d.mec"],
    ["a.mec", "b.mec", "sub/c.mec", "sub/d.mec"],
    ["a.mec", "sub/b.mec", "sub/deep/c.mec", "sub/d.mec"],
    ["a.mec", "sub/b.mec", "other/c.mec", "other/d.mec"],
    ["top/a.mec", "top/b.mec", "sub/c.mec", "d.mec"],
]
LAYOUTS3 = [
    ["a.mec", "b.mec", "c.mec"],
    ["a.mec", "b.mec", "sub/c.mec"],
    ["a.mec", "sub/b.mec", "sub/deep/c.mec"],
    ["a.mec", "sub/b.mec", "other/c.mec"],
    ["top/a.mec", "sub/b.mec", "c.mec"],
]


def mk_case(files, root, tags, root_as=None):
    """files: list of (relative path, text); root_as: the (possibly non-canonical) spelling of root handed to the loader"""
    fsx = "(" + " ".join("((%s) %s)" % (" ".join(q(c) for c in p.split("/")), q(t)) for p, t in files) + ")"
    case_sx = "(inc %s (%s))" % (fsx, " ".join(q(c) for c in root.split("/")))
    return dict(sx=case_sx, impl=dict(root=root_as or root, files=[[p, t] for p, t in files]), tags=tags)


def dirs_of(paths):
    ds = {""}
    for p in paths:
        d = posixpath.dirname(p)
        while d:
            ds.add(d); d = posixpath.dirname(d)
    return sorted(ds)


def ref(src, dst, style, dirs, rng):
    """text of an include target naming dst as seen from src"""
    sd = posixpath.dirname(src)
    rel = posixpath.relpath(dst, sd or ".")
    if style == 1:
        return "./" + rel
    if style == 2 and "/" in rel:
        return rel.replace("/", "//", 1)
    if style == 3:
        others = [d for d in dirs if d != sd]
        if others:
            d = rng.choice(others)
            return posixpath.relpath(d or ".", sd or ".") + "/" + posixpath.relpath(dst, d or ".")
    return rel


def graph_case(layout, edges, idx, stream, rng, styled=False):
    n = len(layout)
    dirs = dirs_of(layout)
    files = []
    for i, p in enumerate(layout):
        name = posixpath.basename(p)[:-4].upper()
        lines = ["%s begins" % name]
        for j in range(n):
            if (i, j) in edges:
                lines.append("{%s}" % ref(p, layout[j], rng.choice([0, 0, 1, 2, 3]) if styled else 0, dirs, rng))
        lines.append("%s ends" % name)
        text = "\n".join(lines) + ("\n" if (idx >> i) & 1 else "")
        files.append((p, text))
    return mk_case(files, layout[0], dict(stream=stream, files=n, edges=len(edges)))


PRE = ["", "", " ", "  ", "   ", "    ", "\t", " \t", "\x0b", "\x0c "]
SUF = ["", "", " ", "\t", "  \t ", "\r", " \r", "\x0c", " \x0b"]
PAD = ["", "", " ", "\t", "  "]
PLAIN = ["text", "x := 1 + 2", "A {1+1} and {foo/bar} B", "", "   ", "# Title", "use `{path/to/file.mec}` inline", "a ~~~ b", "``", "~~ not a fence"]


def fence_block(rng, targets):
    m = rng.choice("`~")
    n = rng.randint(3, 6)
    indent = rng.choice(["", "", " ", "   ", "    ", "\t", "  \t"])
    info = rng.choice(["", "", "mech", " mech:ex", "x" + m * 3])
    out = [indent + m * n + info]
    for _ in range(rng.randint(0, 3)):
        out.append(rng.choice(PRE) + "{%s}" % rng.choice(targets) + rng.choice(SUF) if rng.random() < 0.7 else rng.choice(PLAIN))
    kind = rng.choice(["equal", "equal", "shorter", "longer", "other", "texted", "indent4", "none", "space-tail", "indent3"])
    other = "~" if m == "`" else "`"
    closer = {"equal": m * n, "shorter": m * max(1, n - rng.randint(1, 2)), "longer": m * (n + rng.randint(1, 2)), "other": other * n,
              "texted": m * n + " end", "indent4": "    " + m * n, "none": None, "space-tail": m * n + " \t", "indent3": "   " + m * n}[kind]
    if closer is not None:
        out.append(closer)
        if kind in ("shorter", "other", "texted", "indent4") and rng.random() < 0.6:
            out.append("{%s}" % rng.choice(targets))          # still inside the fence
            if rng.random() < 0.7:
                out.append(m * (n + 1))
    return out


def varied_case(rng, stream, missing=False):
    n = rng.choice([1, 2, 3, 3, 4, 4])
    layout = list(rng.choice(LAYOUTS4 if n == 4 else LAYOUTS3))[:n] if n >= 3 else list(rng.choice(LAYOUTS4))[:n]
    if rng.random() < 0.15 and n >= 2:                   # root in a sub directory: ../ references
        layout = layout[::-1]
    dirs = dirs_of(layout)
    # sparse edges, mostly forward (acyclic), sometimes anything
    edges = set()
    for i in range(n):
        for j in range(n):
            pr = 0.35 if j > i else (0.04 if rng.random() < 0.5 else 0.0)
            if rng.random() < pr:
                edges.add((i, j))
    files = []
    for i, p in enumerate(layout):
        if rng.random() < 0.06:
            files.append((p, rng.choice(["", "\n", " "]))); continue
        targets = [ref(p, layout[j], rng.choice([0, 0, 1, 2, 3]), dirs, rng) for j in range(n)]
        bogus = ["nope.mec", "sub/nope.mec", "nodir/x.mec", "nodir/../" + posixpath.basename(layout[0]),
                 posixpath.basename(p) + "/../" + posixpath.basename(p), ".mec", "sub\\c.mec", posixpath.basename(p).upper()[:-4] + ".mec",
                 posixpath.basename(p) + "/", "./"]
        lines = []
        def noise():
            r = rng.random()
            if r < 0.45:
                lines.append(rng.choice(PLAIN))
            elif r < 0.75:
                t = rng.choice(targets)
                lines.append(rng.choice(["{x + 1}", "{foo.txt}", "{ %s } trailing" % t, "see {%s}" % t, "{%s.txt}" % t, "{}", "{", "}",
                                         "{%s" % t, "%s}" % t, "{{%s}" % "x", "{ %s.MEC }" % t[:-4], "{%s }x" % t, "-{%s}" % t]))
            else:
                lines.extend(fence_block(rng, targets + bogus[:3]))
        for _ in range(rng.randint(0, 2)):
            noise()
        for j in range(n):
            if (i, j) in edges:
                for _ in range(2 if rng.random() < 0.15 else 1):      # the same file twice
                    lines.append(rng.choice(PRE) + "{" + rng.choice(PAD) + targets[j] + rng.choice(PAD) + "}" + rng.choice(SUF))
                for _ in range(rng.randint(0, 1)):
                    noise()
        if missing and rng.random() < 0.5:
            lines.insert(rng.randint(0, len(lines)), rng.choice(PRE) + "{" + rng.choice(bogus[:8]) + "}" + rng.choice(SUF))
        if rng.random() < 0.01:
            lines.append("{a} {%s}" % rng.choice(targets))            # advisory class (brace inside the target)
        nl = "\r\n" if rng.random() < 0.08 else "\n"
        text = nl.join(lines) + (nl if rng.random() < 0.6 else "")
        files.append((p, text))
    root_as = None
    if rng.random() < 0.12:                               # the loader canonicalises the path it is given
        d = rng.choice(dirs)
        root_as = rng.choice(["./" + layout[0], (d + "/" if d else "./") + posixpath.relpath(layout[0], d or ".")])
    return mk_case(files, layout[0], dict(stream=stream, files=n), root_as=root_as)


def acyclic(n, edges):
    state = [0] * n
    def visit(i):
        if state[i] == 1: return False
        if state[i] == 2: return True
        state[i] = 1
        for (a, b) in edges:
            if a == i and not visit(b): return False
        state[i] = 2
        return True
    return all(visit(i) for i in range(n))


def all_edge_sets(n):
    pairs = [(i, j) for i in range(n) for j in range(n)]
    for mask in range(1 << len(pairs)):
        yield mask, {pairs[k] for k in range(len(pairs)) if (mask >> k) & 1}


def fixed_cases():
    F = lambda *fs: list(fs)
    yield mk_case(F(("main.mec", "Hello\n{foo/bar.mec}\nWorld"), ("foo/bar.mec", "This is included.")), "main.mec", dict(stream="fixed"))
    yield mk_case(F(("a.mec", "{b.mec}"), ("b.mec", "{a.mec}")), "a.mec", dict(stream="fixed"))
    yield mk_case(F(("a.mec", "{a.mec}\n")), "a.mec", dict(stream="fixed"))
    yield mk_case(F(("main.mec", "{foo/bar.mec}")), "main.mec", dict(stream="fixed"))
    yield mk_case(F(("main.mec", "Top\n{sections/chapter.mec}\nBottom"), ("sections/chapter.mec", "Chapter\n{partials/bit.mec}"),
                    ("sections/partials/bit.mec", "Nested")), "main.mec", dict(stream="fixed"))
    yield mk_case(F(("main.mec", "Before\n```mech\n{foo/bar.mec}\n```\n{inc.mec}\nAfter\n~~~\n{also/not-real.mec}\n~~~\n"), ("inc.mec", "Included")),
                  "main.mec", dict(stream="fixed"))
    # diamond: a -> b, c ; b -> d ; c -> d
    yield mk_case(F(("a.mec", "{b.mec}\n{sub/c.mec}\n"), ("b.mec", "B\n{sub/d.mec}\n"), ("sub/c.mec", "C\n{d.mec}\n"), ("sub/d.mec", "D\n")),
                  "a.mec", dict(stream="fixed"))
    yield mk_case(F(("a.mec", "{b.mec}\n{b.mec}\n{./b.mec}"), ("b.mec", "B")), "a.mec", dict(stream="fixed"))
    # a fence in an included file that is never closed does not swallow the includer's later lines
    yield mk_case(F(("a.mec", "{b.mec}\n{c.mec}\n"), ("b.mec", "```\n{nope.mec}\n"), ("c.mec", "C\n")), "a.mec", dict(stream="fixed"))
    yield mk_case(F(("a.mec", "````\n```\n{a.mec}\n`````\n{b.mec}\n"), ("b.mec", "B")), "a.mec", dict(stream="fixed"))
    yield mk_case(F(("a.mec", "    ```\n{b.mec}\n"), ("b.mec", "B")), "a.mec", dict(stream="fixed"))
    yield mk_case(F(("a.mec", "{nodir/../b.mec}\n"), ("b.mec", "B")), "a.mec", dict(stream="fixed"))
    yield mk_case(F(("a.mec", "{b.mec/../b.mec}\n"), ("b.mec", "B")), "a.mec", dict(stream="fixed"))
    yield mk_case(F(("a.mec", "")), "a.mec", dict(stream="fixed"))


def generate(tier, rng):
    for c in fixed_cases():
        yield c
    # every graph on 3 files
    for mask, edges in all_edge_sets(3):
        yield graph_case(LAYOUTS3[mask % len(LAYOUTS3)], edges, mask // len(LAYOUTS3), "graph3", rng)
    # graphs on 4 files
    if tier == "quick":
        masks = rng.sample(range(1 << 16), 1500)
    else:
        masks = range(1 << 16)
    pairs = [(i, j) for i in range(4) for j in range(4)]
    for k, mask in enumerate(masks):
        edges = {pairs[b] for b in range(16) if (mask >> b) & 1}
        yield graph_case(LAYOUTS4[k % len(LAYOUTS4)], edges, k // len(LAYOUTS4), "graph4", rng, styled=(k % 3 == 0))
    # every acyclic graph on 4 files (543 labelled DAGs): diamonds, chains, fans with repeated targets
    k = 0
    for mask in range(1 << 16):
        edges = {pairs[b] for b in range(16) if (mask >> b) & 1}
        if acyclic(4, edges):
            yield graph_case(LAYOUTS4[k % len(LAYOUTS4)], edges, k // len(LAYOUTS4), "dag4", rng, styled=(k % 2 == 0)); k += 1
    nvar = 1500 if tier == "quick" else 20000
    for _ in range(nvar):
        yield varied_case(rng, "varied")
    for _ in range(nvar // 3):
        yield varied_case(rng, "varied-missing", missing=True)


def shrink(case):
    """drop one file, or one line of one file"""
    files = [tuple(f) for f in case["impl"]["files"]]
    root = posixpath.normpath(case["impl"]["root"])
    out = []
    for i, (p, t) in enumerate(files):
        if p != root:
            out.append(mk_case(files[:i] + files[i + 1:], root, case.get("tags", {})))
    for i, (p, t) in enumerate(files):
        ls = t.split("\n")
        for k in range(len(ls)):
            t2 = "\n".join(ls[:k] + ls[k + 1:])
            out.append(mk_case(files[:i] + [(p, t2)] + files[i + 1:], root, case.get("tags", {})))
    return out
