"""C05 — bindings are isolated: generator of statement histories run one at a time in one session."""
from vlib import mechsrc as ms
from vlib.core import sx, q, parse_sx

PROP = "C05"
MODE = "session"
RULE = ("random histories of 3-25 statements (define / mutable define / assign / indexed assign / op-assign / field assign / "
        "tuple-element assign / tuple destructure) over 5 names and the value kinds scalar, matrix (row, column, 2-D, 1x1), "
        "record, tuple, set, table (f64), right-hand sides literals, bare variables and tuple/record literals with variable "
        "elements; about 40 % of the statements deliberately invalid (redefinition, undefined or immutable target, kind or "
        "form mismatch, index out of range, unknown field, failing destructure, over-long table column); plus a fixed list "
        "of hand-written histories (the witnesses of the findings, the mandatory errors, copy-assignment, double references). "
        "non-trivial = distinct history judged ok")
ASSUMPTIONS = [
    "numbers are f64 values k/8 (|k| <= 512) combined by at most 25 exact operations (+, -, * by +-2 or 0.5, / by +-2^k), so "
    "every value is a dyadic rational the f64 arithmetic computes exactly; the judge decodes bit patterns to exact dyadics",
    "the interpreter's own symbol `ans` (rebound to the last result after every successful statement) is not one of the "
    "history's names and is removed from the observed symbol table",
    "error kinds/messages are not compared (one Err token); a panic, parse error, abort or hang of a step is a violation",
    "what an accepted assignment writes into its OWN target is not constrained here (C04), only that nothing else changes",
]
TRIVIAL_TAGS = []

NAMES_POOL = ["a", "b", "c", "d", "g", "h", "k", "m", "n", "p", "q", "s", "t", "u", "v", "w", "x", "y", "z"]
FIELDS = ["fa", "fb", "fc"]


# ---- numbers ---------------------------------------------------------------
def num(rng, nonneg=False, small=False):
    if small:
        k = rng.choice([8, 16, 24, 4, 12, 20, 40])
    else:
        k = rng.randint(0, 512) if rng.random() < 0.7 else 8 * rng.randint(0, 64)
    if not nonneg and rng.random() < 0.3:
        k = -k
    return k / 8.0


def nlit(x):
    return ms.fmt_float(x)


def nsx(x):
    return ms.f64_bits(float(x))


# ---- types (python objects shared between aliases, like the cells) -----------
class T:
    def __init__(self, kind, **kw):
        self.kind = kind
        self.__dict__.update(kw)


def lit_of_type(rng, t, nonneg=False):
    """(source, sx) of a literal of the same kind and shape as type t (num / mat only)"""
    if t.kind == "num":
        x = num(rng, nonneg)
        return nlit(x), ["num", nsx(x)]
    if t.kind == "mat":
        d = [num(rng, nonneg) for _ in range(t.r * t.c)]
        return mat_src(t.r, t.c, d), ["mat", t.r, t.c, [nsx(x) for x in d]]
    raise ValueError(t.kind)


def mat_src(r, c, d):
    return "[" + "; ".join(" ".join(nlit(d[j * r + i]) for j in range(c)) for i in range(r)) + "]"


def rand_shape(rng):
    return rng.choice([(1, 2), (1, 3), (1, 4), (2, 1), (3, 1), (2, 2), (2, 3), (3, 2), (1, 1)])


def rand_atom(rng, env, allow_var=True):
    """(source, sx, type)"""
    r = rng.random()
    if allow_var and env and r < 0.35:
        n = rng.choice(sorted(env))
        return n, ["var", q(n)], env[n]["type"]
    if r < 0.8:
        x = num(rng)
        return nlit(x), ["num", nsx(x)], T("num")
    rr, cc = rand_shape(rng)
    d = [num(rng, nonneg=True) for _ in range(rr * cc)]
    return mat_src(rr, cc, d), ["mat", rr, cc, [nsx(x) for x in d]], T("mat", r=rr, c=cc)


def rand_literal(rng, env, kind=None, allow_var=True):
    """(source, sx, type) of a literal expression"""
    kind = kind or rng.choice(["num", "num", "mat", "mat", "rec", "tup", "tup", "set", "tab"])
    if kind == "num":
        x = num(rng)
        return nlit(x), ["num", nsx(x)], T("num")
    if kind == "mat":
        r, c = rand_shape(rng)
        d = [num(rng, nonneg=True) for _ in range(r * c)]
        return mat_src(r, c, d), ["mat", r, c, [nsx(x) for x in d]], T("mat", r=r, c=c)
    if kind == "set":
        ks = rng.sample(range(0, 64), rng.randint(1, 4))
        return "{" + ", ".join(nlit(float(k)) for k in ks) + "}", ["set", [nsx(k) for k in ks]], T("set")
    if kind == "tab":
        ncol = rng.randint(1, 2)
        rows = rng.randint(2, 3)
        cols = FIELDS[:ncol]
        data = {f: [float(rng.randint(0, 99)) for _ in range(rows)] for f in cols}
        src = "| " + " ".join("%s<f64>" % f for f in cols) + " | " + " | ".join(
            " ".join(nlit(data[f][i]) for f in cols) for i in range(rows)) + " |"
        return src, ["tab", [[q(f), [nsx(x) for x in data[f]]] for f in cols]], T("tab", cols=cols, rows=rows)
    if kind == "tup":
        n = rng.randint(2, 3)
        ats = [rand_atom(rng, env, allow_var) for _ in range(n)]
        return "(" + ", ".join(a[0] for a in ats) + ")", ["tup"] + [a[1] for a in ats], T("tup", elems=[a[2] for a in ats])
    if kind == "rec":
        n = rng.randint(1, 3)
        fs = FIELDS[:n]
        ats = [rand_atom(rng, env, allow_var) for _ in range(n)]
        return ("{" + ", ".join("%s: %s" % (f, a[0]) for f, a in zip(fs, ats)) + "}",
                ["rec"] + [[q(f), a[1]] for f, a in zip(fs, ats)], T("rec", fields=list(zip(fs, [a[2] for a in ats]))))
    raise ValueError(kind)


OPS = {"add": "+=", "sub": "-=", "mul": "*=", "div": "/="}


class Hist:
    def __init__(self, rng, names, p_invalid, prof=None):
        self.rng = rng
        self.prof = prof or dict(barevar=0.3, varatom=True, destr=True, longcol=True)
        self.names = names
        self.env = {}            # name -> dict(type=T, mut=bool)
        self.src = []
        self.sxs = []
        self.kinds = []
        self.invalid = 0
        self.p_invalid = p_invalid

    def emit(self, kind, src, s, invalid):
        self.src.append(src)
        self.sxs.append(s)
        self.kinds.append(kind)
        self.invalid += 1 if invalid else 0

    # -- helpers
    def defined(self):
        return sorted(self.env)

    def undefined(self):
        return [n for n in self.names if n not in self.env]

    def pick(self, pred):
        c = [n for n in self.defined() if pred(self.env[n])]
        return self.rng.choice(c) if c else None

    def any_expr(self):
        """an arbitrary well-formed right-hand side: (src, sx, type)"""
        rng = self.rng
        if self.env and rng.random() < 0.3:
            n = rng.choice(self.defined())
            return n, ["var", q(n)], self.env[n]["type"]
        return self.literal()

    def literal(self, kind=None):
        return rand_literal(self.rng, self.env, kind, allow_var=self.prof["varatom"])

    # -- statement generators; each returns True if it emitted something
    def g_define(self, invalid):
        rng = self.rng
        mu = rng.random() < 0.6
        pre = "~" if mu else ""
        if invalid:
            if self.env and rng.random() < 0.75:
                x = rng.choice(self.defined())                       # redefinition
                e = self.any_expr()
            elif self.undefined():
                x = rng.choice(self.undefined())                     # undefined variable on the right
                und = [n for n in self.undefined() if n != x] or [x]
                y = rng.choice(und)
                e = (y, ["var", q(y)], None)
            else:
                return False
            self.emit("def", "%s%s := %s" % (pre, x, e[0]), ["def", int(mu), q(x), e[1]], True)
            return True
        if not self.undefined():
            return False
        x = rng.choice(self.undefined())
        if self.env and rng.random() < self.prof["barevar"]:
            y = rng.choice(self.defined())
            e = (y, ["var", q(y)], self.env[y]["type"])             # bare variable: shares in mech
        else:
            e = self.literal()
        self.emit("def", "%s%s := %s" % (pre, x, e[0]), ["def", int(mu), q(x), e[1]], False)
        self.env[x] = dict(type=e[2], mut=mu)
        return True

    def bad_target(self):
        """an undefined or immutable name, or None"""
        rng = self.rng
        c = []
        if self.undefined():
            c.append(rng.choice(self.undefined()))
        im = self.pick(lambda e: not e["mut"])
        if im:
            c.append(im)
        return rng.choice(c) if c else None

    def g_assign(self, invalid):
        rng = self.rng
        if invalid:
            r = rng.random()
            if r < 0.6:
                x = self.bad_target()
                if x is None:
                    return False
                e = self.any_expr()
            else:
                x = self.pick(lambda e: e["mut"])
                if x is None:
                    return False
                t = self.env[x]["type"]
                if t.kind == "num":
                    e = self.literal(rng.choice(["mat", "tup", "set"]))
                elif t.kind == "mat":
                    if t.r == 1 and t.c >= 2:
                        e = self.literal("num") if rng.random() < 0.5 else lit_of_type(rng, T("mat", r=t.c, c=1)) + (None,)
                    else:
                        e = self.literal(rng.choice(["num", "rec"]))
                else:
                    e = self.any_expr()
            self.emit("asg", "%s = %s" % (x, e[0]), ["asg", q(x), e[1]], True)
            return True
        x = self.pick(lambda e: e["mut"] and e["type"].kind in ("num", "mat"))
        if x is None:
            return False
        t = self.env[x]["type"]
        y = self.pick(lambda e: e["type"].kind == t.kind and (t.kind == "num" or (e["type"].r, e["type"].c) == (t.r, t.c)))
        if y is not None and rng.random() < 0.35:
            e = (y, ["var", q(y)])
        else:
            e = lit_of_type(rng, t)
        self.emit("asg", "%s = %s" % (x, e[0]), ["asg", q(x), e[1]], False)
        return True

    def g_index(self, invalid):
        rng = self.rng
        v = num(rng, nonneg=True)
        two = rng.random() < 0.5
        if invalid:
            r = rng.random()
            if r < 0.45:
                x = self.bad_target()
                if x is None:
                    return False
                i, j = rng.randint(1, 3), rng.randint(1, 3)
            elif r < 0.75:
                x = self.pick(lambda e: e["mut"] and e["type"].kind == "mat")
                if x is None:
                    return False
                t = self.env[x]["type"]
                if two:
                    i, j = rng.choice([(t.r + 1, 1), (1, t.c + 1), (0, 1), (t.r + 2, t.c)])
                else:
                    i, j = rng.choice([0, t.r * t.c + 1, t.r * t.c + 3]), 1
            else:
                x = self.pick(lambda e: e["mut"] and e["type"].kind != "mat")
                if x is None:
                    return False
                i, j = 1, 1
            valid = False
        else:
            x = self.pick(lambda e: e["mut"] and e["type"].kind == "mat")
            if x is None:
                return False
            t = self.env[x]["type"]
            i, j = (rng.randint(1, t.r), rng.randint(1, t.c)) if two else (rng.randint(1, t.r * t.c), 1)
        if two:
            self.emit("ix2", "%s[%d,%d] = %s" % (x, i, j, nlit(v)), ["ix2", q(x), i, j, nsx(v)], invalid)
        else:
            self.emit("ix1", "%s[%d] = %s" % (x, i, nlit(v)), ["ix1", q(x), i, nsx(v)], invalid)
        return True

    def g_op(self, invalid):
        rng = self.rng
        if invalid:
            r = rng.random()
            op = rng.choice(["add", "sub"])
            if r < 0.55:
                x = self.bad_target()
                if x is None:
                    return False
                e = self.literal(rng.choice(["num", "mat"]))
            else:
                x = self.pick(lambda e: e["mut"])
                if x is None:
                    return False
                t = self.env[x]["type"]
                if t.kind == "num":
                    e = self.literal("mat")
                elif t.kind == "mat":
                    if t.r == 1 and t.c >= 2:
                        e = lit_of_type(rng, T("mat", r=t.c, c=1), nonneg=True)
                    elif t.c == 1 and t.r >= 2:
                        e = lit_of_type(rng, T("mat", r=1, c=t.r), nonneg=True)
                    else:
                        e = self.literal(rng.choice(["set", "tup"]))
                elif t.kind == "tab":
                    if rng.random() < 0.5:
                        op = "sub"
                        e = self.row_literal(t)
                    else:
                        e = self.literal("num")
                else:
                    e = self.literal("num")
            self.emit("op", "%s %s %s" % (x, OPS[op], e[0]), ["op", q(x), op, e[1]], True)
            return True
        x = self.pick(lambda e: e["mut"] and e["type"].kind in ("num", "mat", "tab"))
        if x is None:
            return False
        t = self.env[x]["type"]
        if t.kind == "tab":
            y = None
            e = self.row_literal(t)
            self.emit("op", "%s += %s" % (x, e[0]), ["op", q(x), "add", e[1]], False)
            t.rows += 1
            return True
        op = rng.choice(["add", "sub", "add", "sub", "mul", "div"])
        if op == "mul":
            f = rng.choice([2.0, -1.0, 0.5, -2.0])
            e = (nlit(f), ["num", nsx(f)])
        elif op == "div":
            f = rng.choice([2.0, -2.0, 0.5, -1.0])
            e = (nlit(f), ["num", nsx(f)])
        else:
            y = self.pick(lambda e: e["type"].kind == "num" or (t.kind == "mat" and e["type"].kind == "mat" and (e["type"].r, e["type"].c) == (t.r, t.c)))
            if y is not None and rng.random() < 0.3:
                e = (y, ["var", q(y)])
            elif t.kind == "mat" and rng.random() < 0.5:
                e = lit_of_type(rng, t, nonneg=True)
            else:
                e = lit_of_type(rng, T("num"), nonneg=True)
        self.emit("op", "%s %s %s" % (x, OPS[op], e[0]), ["op", q(x), op, e[1]], False)
        return True

    def row_literal(self, t):
        vals = [float(self.rng.randint(0, 99)) for _ in t.cols]
        return ("{" + ", ".join("%s: %s" % (f, nlit(v)) for f, v in zip(t.cols, vals)) + "}",
                ["rec"] + [[q(f), ["num", nsx(v)]] for f, v in zip(t.cols, vals)])

    def col_literal(self, n):
        d = [float(self.rng.randint(0, 99)) for _ in range(n)]
        return mat_src(n, 1, d), ["mat", n, 1, [nsx(x) for x in d]]

    def g_field(self, invalid):
        rng = self.rng
        if invalid:
            r = rng.random()
            if r < 0.4:
                x = self.bad_target()
                if x is None:
                    return False
                f = rng.choice(FIELDS)
                e = self.literal("num")
            else:
                x = self.pick(lambda e: e["mut"])
                if x is None:
                    return False
                t = self.env[x]["type"]
                if t.kind == "rec":
                    fs = [f for f, _ in t.fields]
                    c = rng.random()
                    if c < 0.4:
                        f = rng.choice([g for g in FIELDS + ["zz"] if g not in fs])
                        e = self.literal("num")
                    elif c < 0.7:
                        f = rng.choice(fs)
                        e = self.literal(rng.choice(["mat", "set"]))
                    else:
                        f = rng.choice(fs)
                        y = self.pick(lambda e: e["type"].kind == "num")
                        if y is None:
                            return False
                        e = (y, ["var", q(y)])
                elif t.kind == "tab":
                    c = rng.random()
                    f = rng.choice(t.cols)
                    if c < 0.45 and self.prof["longcol"]:
                        e = self.col_literal(t.rows + rng.randint(1, 2))       # longer than the table
                    elif c < 0.65:
                        d = [float(rng.randint(0, 9)) for _ in range(t.rows)]
                        e = (mat_src(1, t.rows, d), ["mat", 1, t.rows, [nsx(v) for v in d]])   # a row vector
                    elif c < 0.8:
                        e = self.literal("num")
                    else:
                        f = "zz"
                        e = self.col_literal(t.rows)
                else:
                    f = rng.choice(FIELDS)
                    e = self.literal("num")
            self.emit("fld", "%s.%s = %s" % (x, f, e[0]), ["fld", q(x), q(f), e[1]], True)
            return True
        x = self.pick(lambda e: e["mut"] and (e["type"].kind == "tab" or (e["type"].kind == "rec" and any(ft.kind == "num" for _, ft in e["type"].fields))))
        if x is None:
            return False
        t = self.env[x]["type"]
        if t.kind == "tab":
            f = rng.choice(t.cols)
            e = self.col_literal(t.rows)
        else:
            f = rng.choice([g for g, ft in t.fields if ft.kind == "num"])
            e = self.literal("num")
        self.emit("fld", "%s.%s = %s" % (x, f, e[0]), ["fld", q(x), q(f), e[1]], False)
        return True

    def g_tix(self, invalid):
        rng = self.rng
        if invalid:
            r = rng.random()
            e = self.literal("num")
            if r < 0.4:
                x = self.bad_target()
                if x is None:
                    return False
                k = rng.randint(1, 2)
            else:
                x = self.pick(lambda e: e["mut"])
                if x is None:
                    return False
                t = self.env[x]["type"]
                if t.kind == "tup":
                    c = rng.random()
                    if c < 0.5:
                        k = rng.choice([0, len(t.elems) + 1])
                    else:
                        k = rng.randint(1, len(t.elems))
                        e = self.literal(rng.choice(["mat", "set"]))
                else:
                    k = 1
            self.emit("tix", "%s.%d = %s" % (x, k, e[0]), ["tix", q(x), k, e[1]], True)
            return True
        x = self.pick(lambda e: e["mut"] and e["type"].kind == "tup" and any(et.kind == "num" for et in e["type"].elems))
        if x is None:
            return False
        t = self.env[x]["type"]
        k = rng.choice([i + 1 for i, et in enumerate(t.elems) if et.kind == "num"])
        e = self.literal("num")
        self.emit("tix", "%s.%d = %s" % (x, k, e[0]), ["tix", q(x), k, e[1]], False)
        return True

    def g_destr(self, invalid):
        rng = self.rng
        und = self.undefined()
        y = self.pick(lambda e: e["type"].kind == "tup")
        if y is not None and rng.random() < 0.45:
            e = (y, ["var", q(y)], self.env[y]["type"])
        else:
            e = self.literal("tup")
        n = len(e[2].elems)
        if invalid:
            c = rng.random()
            if c < 0.35 and self.env and und:
                k = rng.randint(2, max(2, min(n, 1 + len(und))))
                xs = rng.sample(und, min(len(und), k - 1))
                xs.insert(rng.randint(0, len(xs)), rng.choice(self.defined()))       # a target that exists
            elif c < 0.55 and len(und) >= n + 1:
                xs = rng.sample(und, n + 1)                                          # too many targets
            elif c < 0.7 and und:
                x = rng.choice(und)
                xs = [x, x]                                                          # the same target twice
            elif c < 0.85 and len(und) >= 2:
                xs = rng.sample(und, 2)
                e = self.literal(rng.choice(["num", "mat", "set"])) if rng.random() < 0.6 or not self.env else None
                if e is None:
                    z = self.pick(lambda en: en["type"].kind != "tup")
                    if z is None:
                        return False
                    e = (z, ["var", q(z)], None)
            elif len(und) >= 2:
                xs = rng.sample(und, 2)
                z = und[0] if und[0] not in xs else (und[-1] if und[-1] not in xs else None)
                if z is None:
                    return False
                e = (z, ["var", q(z)], None)                                         # undefined source
            else:
                return False
            self.emit("des", "(%s) := %s" % (", ".join(xs), e[0]), ["des", [q(x) for x in xs], e[1]], True)
            # what mech leaves behind is not tracked: such names are only used as "maybe defined" targets
            return True
        if len(und) < 2:
            return False
        k = rng.randint(2, min(n, len(und)))
        xs = rng.sample(und, k)
        self.emit("des", "(%s) := %s" % (", ".join(xs), e[0]), ["des", [q(x) for x in xs], e[1]], False)
        for x, et in zip(xs, e[2].elems):
            self.env[x] = dict(type=et, mut=rng.random() < 0.5)   # mech: mutable; the property: immutable — both get exercised
        return True

    def step(self):
        rng = self.rng
        invalid = rng.random() < self.p_invalid
        gens = [(self.g_define, 5 if len(self.env) < len(self.names) else 2), (self.g_assign, 4), (self.g_index, 3), (self.g_op, 4),
                (self.g_field, 3), (self.g_tix, 2), (self.g_destr, 2 if self.prof["destr"] else 0)]
        if len(self.env) == 0:
            gens = [(self.g_define, 8), (self.g_destr, 1 if self.prof["destr"] else 0), (self.g_assign, 1)]
        for _ in range(12):
            g = rng.choices([g for g, _ in gens], [w for _, w in gens])[0]
            if g(invalid):
                return
            if rng.random() < 0.3:
                invalid = not invalid
        # nothing applicable: a redefinition or a plain definition always is
        if not self.g_define(False):
            self.g_define(True)


def bucket(n, edges):
    for e in edges:
        if n <= e:
            return "<=%d" % e
    return ">%d" % edges[-1]


def make_case(h, stream):
    n = len(h.src)
    tags = dict(stream=stream, length=bucket(n, [8, 16, 25]), invalid_pct=bucket(100 * h.invalid // max(1, n), [20, 40, 60, 100]))
    for k in sorted(set(h.kinds)):
        tags["has_" + k] = 1
    return dict(sx=sx(["hist"] + h.sxs), impl=dict(stmts=h.src), tags=tags)


def fixed_cases():
    """hand-written histories: the witnesses of the known findings and the basic error cases"""
    def S(text):
        return text
    n = lambda x: ["num", nsx(x)]
    v = lambda x: ["var", q(x)]
    rows = [
        ("alias-define", ["a := 1", "~b := a", "b = 5"],
         [["def", 0, q("a"), n(1)], ["def", 1, q("b"), v("a")], ["asg", q("b"), n(5)]]),
        ("alias-define-matrix", ["~m := [1 2 3]", "n := m", "m[1] = 100"],
         [["def", 1, q("m"), ["mat", 1, 3, [nsx(1), nsx(2), nsx(3)]]], ["def", 0, q("n"), v("m")], ["ix1", q("m"), 1, nsx(100)]]),
        ("alias-literal", ["~a := 1", "t := (a, 2)", "a = 5"],
         [["def", 1, q("a"), n(1)], ["def", 0, q("t"), ["tup", v("a"), n(2)]], ["asg", q("a"), n(5)]]),
        ("alias-literal-record", ["~a := 1", "r := {fa: a, fb: 2}", "a += 5"],
         [["def", 1, q("a"), n(1)], ["def", 0, q("r"), ["rec", [q("fa"), v("a")], [q("fb"), n(2)]]], ["op", q("a"), "add", n(5)]]),
        ("destructure-partial", ["a := 1", "(p, a) := (1, 2)"],
         [["def", 0, q("a"), n(1)], ["des", [q("p"), q("a")], ["tup", n(1), n(2)]]]),
        ("destructure-too-many", ["t := (1, 2)", "(p, q, s) := t"],
         [["def", 0, q("t"), ["tup", n(1), n(2)]], ["des", [q("p"), q("q"), q("s")], v("t")]]),
        ("destructure-mutable", ["(p, q) := (1, 2)", "p = 5"],
         [["des", [q("p"), q("q")], ["tup", n(1), n(2)]], ["asg", q("p"), n(5)]]),
        ("alias-destructure", ["t := (1, 2)", "(p, q) := t", "p = 5"],
         [["def", 0, q("t"), ["tup", n(1), n(2)]], ["des", [q("p"), q("q")], v("t")], ["asg", q("p"), n(5)]]),
        ("table-column-partial", ["~t := | fa<f64> | 1 | 2 |", "t.fa = [5; 6; 7]"],
         [["def", 1, q("t"), ["tab", [[q("fa"), [nsx(1), nsx(2)]]]]], ["fld", q("t"), q("fa"), ["mat", 3, 1, [nsx(5), nsx(6), nsx(7)]]]]),
        ("errors", ["x := 1", "x := 2", "x = 2", "y = 2", "y += 2", "x += 2", "~x := 3"],
         [["def", 0, q("x"), n(1)], ["def", 0, q("x"), n(2)], ["asg", q("x"), n(2)], ["asg", q("y"), n(2)],
          ["op", q("y"), "add", n(2)], ["op", q("x"), "add", n(2)], ["def", 1, q("x"), n(3)]]),
        ("clean", ["~x := 4", "x += 1", "x -= 2", "x *= 2", "x /= 2", "y := 7", "x = 2.5", "~m := [1 2; 3 4]", "m[2,1] = 9", "m[3] = 8", "m += 1"],
         [["def", 1, q("x"), n(4)], ["op", q("x"), "add", n(1)], ["op", q("x"), "sub", n(2)], ["op", q("x"), "mul", n(2)],
          ["op", q("x"), "div", n(2)], ["def", 0, q("y"), n(7)], ["asg", q("x"), n(2.5)],
          ["def", 1, q("m"), ["mat", 2, 2, [nsx(1), nsx(3), nsx(2), nsx(4)]]], ["ix2", q("m"), 2, 1, nsx(9)], ["ix1", q("m"), 3, nsx(8)],
          ["op", q("m"), "add", n(1)]]),
        ("copy-assign", ["~x := 1", "~y := 2", "x = y", "y = 5", "x += y"],
         [["def", 1, q("x"), n(1)], ["def", 1, q("y"), n(2)], ["asg", q("x"), v("y")], ["asg", q("y"), n(5)], ["op", q("x"), "add", v("y")]]),
        ("double-reference", ["~a := 1", "(t, z) := (a, 1)", "u := (t, 3)", "(p, q) := u", "p = 7", "t = 7"],
         [["def", 1, q("a"), n(1)], ["des", [q("t"), q("z")], ["tup", v("a"), n(1)]], ["def", 0, q("u"), ["tup", v("t"), n(3)]],
          ["des", [q("p"), q("q")], v("u")], ["asg", q("p"), n(7)], ["asg", q("t"), n(7)]]),
    ]
    for name, src, sxs in rows:
        yield dict(sx=sx(["hist"] + sxs), impl=dict(stmts=src), tags=dict(stream="fixed", name=name))


def generate(tier, rng):
    for c in fixed_cases():
        yield c
    n = 1500 if tier == "quick" else 50000
    for i in range(n):
        names = rng.sample(NAMES_POOL, 5)
        r = rng.random()
        p_inv = 0.33 if r < 0.7 else (0.12 if r < 0.85 else 0.6)
        if rng.random() < 0.4:
            prof = dict(barevar=0.0, varatom=False, destr=False, longcol=False)         # nothing that shares storage
            stream = "random-closed"
        else:
            prof = dict(barevar=rng.choice([0.0, 0.3]), varatom=rng.random() < 0.5, destr=rng.random() < 0.4, longcol=rng.random() < 0.5)
            stream = "random"
        h = Hist(rng, names, p_inv, prof)
        length = rng.randint(3, 25)
        for _ in range(length):
            h.step()
        yield make_case(h, stream)


def shrink(case):
    p = parse_sx(case["sx"])
    stmts = case["impl"]["stmts"]
    if not isinstance(p, list) or len(p) - 1 != len(stmts) or len(stmts) <= 1:
        return []
    out = []
    n = len(stmts)
    cands = [list(range(k)) for k in range(1, n)] + [[j for j in range(n) if j != i] for i in range(n)]
    for keep in cands:
        out.append(dict(sx=sx(["hist"] + [p[1 + j] for j in keep]), impl=dict(stmts=[stmts[j] for j in keep]), tags=dict(case.get("tags", {}))))
    return out
