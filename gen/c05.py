"""C05 — bindings are isolated: generator of statement histories run one at a time in one session."""
from vlib import mechsrc as ms
from vlib.core import sx, q, parse_sx

PROP = "C05"
MODE = "session"
RULE = ("(1) random histories of 3-25 statements (define / mutable define / assign / indexed assign / op-assign / field assign / "
        "tuple-element assign / tuple destructure) over 5 names and the value kinds scalar, matrix (row, column, 2-D, 1x1), "
        "record, tuple, set, table (f64), right-hand sides literals, bare variables and tuple/record literals with variable "
        "elements; about 40 % of the statements deliberately invalid (redefinition, undefined or immutable target, kind or "
        "form mismatch, index out of range, unknown field, failing destructure, over-long table column); plus a fixed list "
        "of hand-written histories (the witnesses of the findings, the mandatory errors, copy-assignment, double references). "
        "(2) stream `kinds`: histories over 1-3 of the 16 element kinds (u8..u128, i8..i128, f32, f64, r64, c64, bool, string; "
        "every kind leads 1/16 of the histories): definitions in every syntactic form (`x := 5<k>`, `~x := ..`, suffix `5u8`, "
        "annotated `x<k> := 5`, `x<k2> := 5<k1>`, typed-element matrices, `m<[k]:r,c> := [..]`, `m<[k]> := [..]`, fractions, "
        "complex literals, tuples and records of mixed kinds), whole / indexed / field / tuple-element assignment and the four "
        "op-assignments with literals and variables of the same kind, of another kind, form or shape, integer operands large "
        "enough to overflow the 8-bit kinds now and then, zero divisors (scalars and inside matrices), redefinitions, "
        "undefined / immutable targets, ill-kinded annotations that must fail; no construct of the aliasing findings. "
        "(3) stream `kinds-containers`: the same plus tables with typed columns (column assignment, row append) and typed sets, "
        "without op-assignments.  The witnesses and the mandatory-error history are repeated for each of the 16 kinds. "
        "non-trivial = distinct history judged ok")
ASSUMPTIONS = [
    "numbers are f64 values k/8 (|k| <= 512) combined by at most 25 exact operations (+, -, * by +-2 or 0.5, / by +-2^k), so "
    "every value is a dyadic rational the f64 arithmetic computes exactly; the judge decodes bit patterns to exact dyadics",
    "the interpreter's own symbol `ans` (rebound to the last result after every successful statement) is not one of the "
    "history's names and is removed from the observed symbol table",
    "error kinds/messages are not compared (one Err token); a panic, parse error, abort or hang of a step is a violation",
    "what an accepted assignment writes into its OWN target is not constrained here (C04), only that nothing else changes",
    "values of the kinds other than f64 are compared by their printed payloads (integers, f32 / c64 bit patterns with -0 = +0, "
    "numerator / denominator, 0/1, quoted strings); tables and sets with a non-f64 column / element by their whole canonical "
    "form; every literal is a small value its syntax denotes exactly (no `-128<i8>`, no complex literal with a negative "
    "real part, integer cells under an r64 table column: the parser / conversions treat those specially, not C05's business)",
    "an ill-kinded annotation (`x<u8> := \"s\"`, `m<[u8]:1,3> := [1 2]`, ...) is encoded as a definition whose right-hand side "
    "has no value: it must fail and define nothing",
    "a known finding is reported as such only if one configuration of the heap model predicts every outcome and table up to "
    "and including the LAST step that breaks the property (the steps after it satisfy the property by themselves)",
]
TRIVIAL_TAGS = []

def pregen():
    """regenerate coq/theories/Gen/OpAssignArms.v from the current Rust source (translators/opassign_arms.py): the arm
    obligations of Props/C05.v (theorems 12-15) are stated over that table"""
    import os, sys
    from vlib import core
    sys.path.insert(0, os.path.join(core.ROOT, "translators"))
    import armlib
    return armlib.pregen(PROP, [("opassign_arms", "theories/Proofs/OpAssignArmsP.vo")])


NAMES_POOL = ["a", "b", "c", "d", "g", "h", "k", "m", "n", "p", "q", "s", "t", "u", "v", "w", "x", "y", "z"]
FIELDS = ["fa", "fb", "fc"]


# ---- numbers ---------------------------------------------------------------
def num(rng, nonneg=False, small=False):
    if small:
        k = rng.choice([8, 16, 24, 4, 12, 20, 40])
    else:
        k = rng.randint(0, 512) if rng.random() < 0.7 else 8 * rng.randint(0, 64)
    if not nonneg and rng.random() < 0.3:
        k = -k
    return k / 8.0


def nlit(x):
    return ms.fmt_float(x)


def nsx(x):
    return ms.f64_bits(float(x))


# ---- types (python objects shared between aliases, like the cells) -----------
class T:
    def __init__(self, kind, **kw):
        self.kind = kind
        self.__dict__.update(kw)


def lit_of_type(rng, t, nonneg=False):
    """(source, sx) of a literal of the same kind and shape as type t (num / mat only)"""
    if t.kind == "num":
        x = num(rng, nonneg)
        return nlit(x), ["num", nsx(x)]
    if t.kind == "mat":
        d = [num(rng, nonneg) for _ in range(t.r * t.c)]
        return mat_src(t.r, t.c, d), ["mat", t.r, t.c, [nsx(x) for x in d]]
    raise ValueError(t.kind)


def mat_src(r, c, d):
    return "[" + "; ".join(" ".join(nlit(d[j * r + i]) for j in range(c)) for i in range(r)) + "]"


def rand_shape(rng):
    return rng.choice([(1, 2), (1, 3), (1, 4), (2, 1), (3, 1), (2, 2), (2, 3), (3, 2), (1, 1)])


def rand_atom(rng, env, allow_var=True):
    """(source, sx, type)"""
    r = rng.random()
    if allow_var and env and r < 0.35:
        n = rng.choice(sorted(env))
        return n, ["var", q(n)], env[n]["type"]
    if r < 0.8:
        x = num(rng)
        return nlit(x), ["num", nsx(x)], T("num")
    rr, cc = rand_shape(rng)
    d = [num(rng, nonneg=True) for _ in range(rr * cc)]
    return mat_src(rr, cc, d), ["mat", rr, cc, [nsx(x) for x in d]], T("mat", r=rr, c=cc)


def rand_literal(rng, env, kind=None, allow_var=True):
    """(source, sx, type) of a literal expression"""
    kind = kind or rng.choice(["num", "num", "mat", "mat", "rec", "tup", "tup", "set", "tab"])
    if kind == "num":
        x = num(rng)
        return nlit(x), ["num", nsx(x)], T("num")
    if kind == "mat":
        r, c = rand_shape(rng)
        d = [num(rng, nonneg=True) for _ in range(r * c)]
        return mat_src(r, c, d), ["mat", r, c, [nsx(x) for x in d]], T("mat", r=r, c=c)
    if kind == "set":
        ks = rng.sample(range(0, 64), rng.randint(1, 4))
        return "{" + ", ".join(nlit(float(k)) for k in ks) + "}", ["set", [nsx(k) for k in ks]], T("set")
    if kind == "tab":
        ncol = rng.randint(1, 2)
        rows = rng.randint(2, 3)
        cols = FIELDS[:ncol]
        data = {f: [float(rng.randint(0, 99)) for _ in range(rows)] for f in cols}
        src = "| " + " ".join("%s<f64>" % f for f in cols) + " | " + " | ".join(
            " ".join(nlit(data[f][i]) for f in cols) for i in range(rows)) + " |"
        return src, ["tab", [[q(f), [nsx(x) for x in data[f]]] for f in cols]], T("tab", cols=cols, rows=rows)
    if kind == "tup":
        n = rng.randint(2, 3)
        ats = [rand_atom(rng, env, allow_var) for _ in range(n)]
        return "(" + ", ".join(a[0] for a in ats) + ")", ["tup"] + [a[1] for a in ats], T("tup", elems=[a[2] for a in ats])
    if kind == "rec":
        n = rng.randint(1, 3)
        fs = FIELDS[:n]
        ats = [rand_atom(rng, env, allow_var) for _ in range(n)]
        return ("{" + ", ".join("%s: %s" % (f, a[0]) for f, a in zip(fs, ats)) + "}",
                ["rec"] + [[q(f), a[1]] for f, a in zip(fs, ats)], T("rec", fields=list(zip(fs, [a[2] for a in ats]))))
    raise ValueError(kind)


OPS = {"add": "+=", "sub": "-=", "mul": "*=", "div": "/="}


class Hist:
    def __init__(self, rng, names, p_invalid, prof=None):
        self.rng = rng
        self.prof = prof or dict(barevar=0.3, varatom=True, destr=True, longcol=True)
        self.names = names
        self.env = {}            # name -> dict(type=T, mut=bool)
        self.src = []
        self.sxs = []
        self.kinds = []
        self.invalid = 0
        self.p_invalid = p_invalid

    def emit(self, kind, src, s, invalid):
        self.src.append(src)
        self.sxs.append(s)
        self.kinds.append(kind)
        self.invalid += 1 if invalid else 0

    # -- helpers
    def defined(self):
        return sorted(self.env)

    def undefined(self):
        return [n for n in self.names if n not in self.env]

    def pick(self, pred):
        c = [n for n in self.defined() if pred(self.env[n])]
        return self.rng.choice(c) if c else None

    def any_expr(self):
        """an arbitrary well-formed right-hand side: (src, sx, type)"""
        rng = self.rng
        if self.env and rng.random() < 0.3:
            n = rng.choice(self.defined())
            return n, ["var", q(n)], self.env[n]["type"]
        return self.literal()

    def literal(self, kind=None):
        return rand_literal(self.rng, self.env, kind, allow_var=self.prof["varatom"])

    # -- statement generators; each returns True if it emitted something
    def g_define(self, invalid):
        rng = self.rng
        mu = rng.random() < 0.6
        pre = "~" if mu else ""
        if invalid:
            if self.env and rng.random() < 0.75:
                x = rng.choice(self.defined())                       # redefinition
                e = self.any_expr()
            elif self.undefined():
                x = rng.choice(self.undefined())                     # undefined variable on the right
                und = [n for n in self.undefined() if n != x] or [x]
                y = rng.choice(und)
                e = (y, ["var", q(y)], None)
            else:
                return False
            self.emit("def", "%s%s := %s" % (pre, x, e[0]), ["def", int(mu), q(x), e[1]], True)
            return True
        if not self.undefined():
            return False
        x = rng.choice(self.undefined())
        if self.env and rng.random() < self.prof["barevar"]:
            y = rng.choice(self.defined())
            e = (y, ["var", q(y)], self.env[y]["type"])             # bare variable: shares in mech
        else:
            e = self.literal()
        self.emit("def", "%s%s := %s" % (pre, x, e[0]), ["def", int(mu), q(x), e[1]], False)
        self.env[x] = dict(type=e[2], mut=mu)
        return True

    def bad_target(self):
        """an undefined or immutable name, or None"""
        rng = self.rng
        c = []
        if self.undefined():
            c.append(rng.choice(self.undefined()))
        im = self.pick(lambda e: not e["mut"])
        if im:
            c.append(im)
        return rng.choice(c) if c else None

    def g_assign(self, invalid):
        rng = self.rng
        if invalid:
            r = rng.random()
            if r < 0.6:
                x = self.bad_target()
                if x is None:
                    return False
                e = self.any_expr()
            else:
                x = self.pick(lambda e: e["mut"])
                if x is None:
                    return False
                t = self.env[x]["type"]
                if t.kind == "num":
                    e = self.literal(rng.choice(["mat", "tup", "set"]))
                elif t.kind == "mat":
                    if t.r == 1 and t.c >= 2:
                        e = self.literal("num") if rng.random() < 0.5 else lit_of_type(rng, T("mat", r=t.c, c=1)) + (None,)
                    else:
                        e = self.literal(rng.choice(["num", "rec"]))
                else:
                    e = self.any_expr()
            self.emit("asg", "%s = %s" % (x, e[0]), ["asg", q(x), e[1]], True)
            return True
        x = self.pick(lambda e: e["mut"] and e["type"].kind in ("num", "mat"))
        if x is None:
            return False
        t = self.env[x]["type"]
        y = self.pick(lambda e: e["type"].kind == t.kind and (t.kind == "num" or (e["type"].r, e["type"].c) == (t.r, t.c)))
        if y is not None and rng.random() < 0.35:
            e = (y, ["var", q(y)])
        else:
            e = lit_of_type(rng, t)
        self.emit("asg", "%s = %s" % (x, e[0]), ["asg", q(x), e[1]], False)
        return True

    def g_index(self, invalid):
        rng = self.rng
        v = num(rng, nonneg=True)
        two = rng.random() < 0.5
        if invalid:
            r = rng.random()
            if r < 0.45:
                x = self.bad_target()
                if x is None:
                    return False
                i, j = rng.randint(1, 3), rng.randint(1, 3)
            elif r < 0.75:
                x = self.pick(lambda e: e["mut"] and e["type"].kind == "mat")
                if x is None:
                    return False
                t = self.env[x]["type"]
                if two:
                    i, j = rng.choice([(t.r + 1, 1), (1, t.c + 1), (0, 1), (t.r + 2, t.c)])
                else:
                    i, j = rng.choice([0, t.r * t.c + 1, t.r * t.c + 3]), 1
            else:
                x = self.pick(lambda e: e["mut"] and e["type"].kind != "mat")
                if x is None:
                    return False
                i, j = 1, 1
            valid = False
        else:
            x = self.pick(lambda e: e["mut"] and e["type"].kind == "mat")
            if x is None:
                return False
            t = self.env[x]["type"]
            i, j = (rng.randint(1, t.r), rng.randint(1, t.c)) if two else (rng.randint(1, t.r * t.c), 1)
        if two:
            self.emit("ix2", "%s[%d,%d] = %s" % (x, i, j, nlit(v)), ["ix2", q(x), i, j, nsx(v)], invalid)
        else:
            self.emit("ix1", "%s[%d] = %s" % (x, i, nlit(v)), ["ix1", q(x), i, nsx(v)], invalid)
        return True

    def g_op(self, invalid):
        rng = self.rng
        if invalid:
            r = rng.random()
            op = rng.choice(["add", "sub"])
            if r < 0.55:
                x = self.bad_target()
                if x is None:
                    return False
                e = self.literal(rng.choice(["num", "mat"]))
            else:
                x = self.pick(lambda e: e["mut"])
                if x is None:
                    return False
                t = self.env[x]["type"]
                if t.kind == "num":
                    e = self.literal("mat")
                elif t.kind == "mat":
                    if t.r == 1 and t.c >= 2:
                        e = lit_of_type(rng, T("mat", r=t.c, c=1), nonneg=True)
                    elif t.c == 1 and t.r >= 2:
                        e = lit_of_type(rng, T("mat", r=1, c=t.r), nonneg=True)
                    else:
                        e = self.literal(rng.choice(["set", "tup"]))
                elif t.kind == "tab":
                    if rng.random() < 0.5:
                        op = "sub"
                        e = self.row_literal(t)
                    else:
                        e = self.literal("num")
                else:
                    e = self.literal("num")
            self.emit("op", "%s %s %s" % (x, OPS[op], e[0]), ["op", q(x), op, e[1]], True)
            return True
        x = self.pick(lambda e: e["mut"] and e["type"].kind in ("num", "mat", "tab"))
        if x is None:
            return False
        t = self.env[x]["type"]
        if t.kind == "tab":
            y = None
            e = self.row_literal(t)
            self.emit("op", "%s += %s" % (x, e[0]), ["op", q(x), "add", e[1]], False)
            t.rows += 1
            return True
        op = rng.choice(["add", "sub", "add", "sub", "mul", "div"])
        if op == "mul":
            f = rng.choice([2.0, -1.0, 0.5, -2.0])
            e = (nlit(f), ["num", nsx(f)])
        elif op == "div":
            f = rng.choice([2.0, -2.0, 0.5, -1.0])
            e = (nlit(f), ["num", nsx(f)])
        else:
            y = self.pick(lambda e: e["type"].kind == "num" or (t.kind == "mat" and e["type"].kind == "mat" and (e["type"].r, e["type"].c) == (t.r, t.c)))
            if y is not None and rng.random() < 0.3:
                e = (y, ["var", q(y)])
            elif t.kind == "mat" and rng.random() < 0.5:
                e = lit_of_type(rng, t, nonneg=True)
            else:
                e = lit_of_type(rng, T("num"), nonneg=True)
        self.emit("op", "%s %s %s" % (x, OPS[op], e[0]), ["op", q(x), op, e[1]], False)
        return True

    def row_literal(self, t):
        vals = [float(self.rng.randint(0, 99)) for _ in t.cols]
        return ("{" + ", ".join("%s: %s" % (f, nlit(v)) for f, v in zip(t.cols, vals)) + "}",
                ["rec"] + [[q(f), ["num", nsx(v)]] for f, v in zip(t.cols, vals)])

    def col_literal(self, n):
        d = [float(self.rng.randint(0, 99)) for _ in range(n)]
        return mat_src(n, 1, d), ["mat", n, 1, [nsx(x) for x in d]]

    def g_field(self, invalid):
        rng = self.rng
        if invalid:
            r = rng.random()
            if r < 0.4:
                x = self.bad_target()
                if x is None:
                    return False
                f = rng.choice(FIELDS)
                e = self.literal("num")
            else:
                x = self.pick(lambda e: e["mut"])
                if x is None:
                    return False
                t = self.env[x]["type"]
                if t.kind == "rec":
                    fs = [f for f, _ in t.fields]
                    c = rng.random()
                    if c < 0.4:
                        f = rng.choice([g for g in FIELDS + ["zz"] if g not in fs])
                        e = self.literal("num")
                    elif c < 0.7:
                        f = rng.choice(fs)
                        e = self.literal(rng.choice(["mat", "set"]))
                    else:
                        f = rng.choice(fs)
                        y = self.pick(lambda e: e["type"].kind == "num")
                        if y is None:
                            return False
                        e = (y, ["var", q(y)])
                elif t.kind == "tab":
                    c = rng.random()
                    f = rng.choice(t.cols)
                    if c < 0.45 and self.prof["longcol"]:
                        e = self.col_literal(t.rows + rng.randint(1, 2))       # longer than the table
                    elif c < 0.65:
                        d = [float(rng.randint(0, 9)) for _ in range(t.rows)]
                        e = (mat_src(1, t.rows, d), ["mat", 1, t.rows, [nsx(v) for v in d]])   # a row vector
                    elif c < 0.8:
                        e = self.literal("num")
                    else:
                        f = "zz"
                        e = self.col_literal(t.rows)
                else:
                    f = rng.choice(FIELDS)
                    e = self.literal("num")
            self.emit("fld", "%s.%s = %s" % (x, f, e[0]), ["fld", q(x), q(f), e[1]], True)
            return True
        x = self.pick(lambda e: e["mut"] and (e["type"].kind == "tab" or (e["type"].kind == "rec" and any(ft.kind == "num" for _, ft in e["type"].fields))))
        if x is None:
            return False
        t = self.env[x]["type"]
        if t.kind == "tab":
            f = rng.choice(t.cols)
            e = self.col_literal(t.rows)
        else:
            f = rng.choice([g for g, ft in t.fields if ft.kind == "num"])
            e = self.literal("num")
        self.emit("fld", "%s.%s = %s" % (x, f, e[0]), ["fld", q(x), q(f), e[1]], False)
        return True

    def g_tix(self, invalid):
        rng = self.rng
        if invalid:
            r = rng.random()
            e = self.literal("num")
            if r < 0.4:
                x = self.bad_target()
                if x is None:
                    return False
                k = rng.randint(1, 2)
            else:
                x = self.pick(lambda e: e["mut"])
                if x is None:
                    return False
                t = self.env[x]["type"]
                if t.kind == "tup":
                    c = rng.random()
                    if c < 0.5:
                        k = rng.choice([0, len(t.elems) + 1])
                    else:
                        k = rng.randint(1, len(t.elems))
                        e = self.literal(rng.choice(["mat", "set"]))
                else:
                    k = 1
            self.emit("tix", "%s.%d = %s" % (x, k, e[0]), ["tix", q(x), k, e[1]], True)
            return True
        x = self.pick(lambda e: e["mut"] and e["type"].kind == "tup" and any(et.kind == "num" for et in e["type"].elems))
        if x is None:
            return False
        t = self.env[x]["type"]
        k = rng.choice([i + 1 for i, et in enumerate(t.elems) if et.kind == "num"])
        e = self.literal("num")
        self.emit("tix", "%s.%d = %s" % (x, k, e[0]), ["tix", q(x), k, e[1]], False)
        return True

    def g_destr(self, invalid):
        rng = self.rng
        und = self.undefined()
        y = self.pick(lambda e: e["type"].kind == "tup")
        if y is not None and rng.random() < 0.45:
            e = (y, ["var", q(y)], self.env[y]["type"])
        else:
            e = self.literal("tup")
        n = len(e[2].elems)
        if invalid:
            c = rng.random()
            if c < 0.35 and self.env and und:
                k = rng.randint(2, max(2, min(n, 1 + len(und))))
                xs = rng.sample(und, min(len(und), k - 1))
                xs.insert(rng.randint(0, len(xs)), rng.choice(self.defined()))       # a target that exists
            elif c < 0.55 and len(und) >= n + 1:
                xs = rng.sample(und, n + 1)                                          # too many targets
            elif c < 0.7 and und:
                x = rng.choice(und)
                xs = [x, x]                                                          # the same target twice
            elif c < 0.85 and len(und) >= 2:
                xs = rng.sample(und, 2)
                e = self.literal(rng.choice(["num", "mat", "set"])) if rng.random() < 0.6 or not self.env else None
                if e is None:
                    z = self.pick(lambda en: en["type"].kind != "tup")
                    if z is None:
                        return False
                    e = (z, ["var", q(z)], None)
            elif len(und) >= 2:
                xs = rng.sample(und, 2)
                z = und[0] if und[0] not in xs else (und[-1] if und[-1] not in xs else None)
                if z is None:
                    return False
                e = (z, ["var", q(z)], None)                                         # undefined source
            else:
                return False
            self.emit("des", "(%s) := %s" % (", ".join(xs), e[0]), ["des", [q(x) for x in xs], e[1]], True)
            # what mech leaves behind is not tracked: such names are only used as "maybe defined" targets
            return True
        if len(und) < 2:
            return False
        k = rng.randint(2, min(n, len(und)))
        xs = rng.sample(und, k)
        self.emit("des", "(%s) := %s" % (", ".join(xs), e[0]), ["des", [q(x) for x in xs], e[1]], False)
        for x, et in zip(xs, e[2].elems):
            self.env[x] = dict(type=et, mut=rng.random() < 0.5)   # mech: mutable; the property: immutable — both get exercised
        return True

    def g_fncall(self, invalid):
        """a statement whose right-hand side calls a user-defined function whose body fails (error value or caught
        panic): the model sees an expression whose evaluation fails, `(fails)`; the store must be left unchanged"""
        if not invalid or not getattr(self, "with_fns", False):
            return False
        rng = self.rng
        call = rng.choice(["dec(0u64)", "idx(7u64)", "undef(1)", "idx(0u64)", "dec(dec(1u64))"])
        form = rng.random()
        muts = [n for n in self.defined() if self.env[n]["mut"]]
        if form < 0.4 and self.undefined():
            x = rng.choice(self.undefined()); mu = rng.random() < 0.5
            self.emit("fncall", "%s%s := %s" % ("~" if mu else "", x, call), ["def", int(mu), q(x), ["fails"]], True)
        elif form < 0.7 and muts:
            x = rng.choice(muts)
            self.emit("fncall", "%s = %s" % (x, call), ["asg", q(x), ["fails"]], True)
        elif muts:
            x = rng.choice(muts)
            o, on = rng.choice([("+=", "add"), ("-=", "sub"), ("*=", "mul")])     # the model admits `/=` only with literal divisors
            self.emit("fncall", "%s %s %s" % (x, o, call), ["op", q(x), on, ["fails"]], True)
        else:
            return False
        return True

    def step(self):
        rng = self.rng
        invalid = rng.random() < self.p_invalid
        gens = [(self.g_define, 5 if len(self.env) < len(self.names) else 2), (self.g_assign, 4), (self.g_index, 3), (self.g_op, 4),
                (self.g_field, 3), (self.g_tix, 2), (self.g_destr, 2 if self.prof["destr"] else 0),
                (self.g_fncall, 3 if getattr(self, "with_fns", False) else 0)]
        if len(self.env) == 0:
            gens = [(self.g_define, 8), (self.g_destr, 1 if self.prof["destr"] else 0), (self.g_assign, 1)]
        for _ in range(12):
            g = rng.choices([g for g, _ in gens], [w for _, w in gens])[0]
            if g(invalid):
                return
            if rng.random() < 0.3:
                invalid = not invalid
        # nothing applicable: a redefinition or a plain definition always is
        if not self.g_define(False):
            self.g_define(True)


# =============================================================================
# the value kinds other than f64: every numeric kind, bool and string
# =============================================================================
from fractions import Fraction

K_ALL = ms.ALL_KINDS                      # 10 integer kinds, f32, f64, r64, c64, bool, string
WORDS = ["a", "bc", "dog", "x y", "q7", "mech", "", "zz"]
INVALID_RHS = ["var", q("!no-value")]     # a right-hand side that denotes nothing: the definition must fail


def kvalue(rng, k, big=False, nonzero=False):
    """a value of kind k that its literal denotes exactly"""
    if k in ms.INT_KINDS:
        lo, hi = ms.kind_range(k)
        if big and rng.random() < 0.5:
            v = rng.randint(max(lo + 1, -130), min(hi, 260))     # (`-128<i8>` is -(128 saturated) = -127: not used)
        else:
            v = rng.randint(0 if (lo == 0 or rng.random() < 0.7) else -12, 12)
        if nonzero and v == 0:
            v = 3
        return v
    if k == "f32":
        v = float(rng.randint(-24, 48)) / rng.choice([1, 1, 2, 4])
        return 2.0 if (nonzero and v == 0) else v
    if k == "f64":
        v = num(rng)
        return 2.0 if (nonzero and v == 0) else v
    if k == "r64":
        v = Fraction(rng.randint(-9, 12), rng.randint(1, 6))
        return Fraction(2, 3) if (nonzero and v == 0) else v
    if k == "c64":
        return (float(rng.randint(0, 9)), float(rng.randint(-6, 9)))      # `-2+3i` is parsed as -(2+3i): no negative real part
    if k == "bool":
        return rng.random() < 0.5
    if k == "string":
        return rng.choice(WORDS)
    raise ValueError(k)


def klit(rng, k, v):
    """source of a literal of kind k"""
    if k in ms.INT_KINDS:
        if k[0] == "u" and rng.random() < 0.25:
            return "%d%s" % (v, k)                    # suffix form, unsigned only
        return "%d<%s>" % (v, k)
    if k == "f32":
        return "%s<f32>" % ms.fmt_float(v)
    if k == "f64":
        return ms.fmt_float(v) + ("<f64>" if rng.random() < 0.3 else "")
    if k == "r64":
        if v.denominator == 1 and rng.random() < 0.5:
            return "%d<r64>" % v.numerator
        return "%d/%d" % (v.numerator, v.denominator)
    return ms.lit(k, v)


def ksx(k, v):
    """history form of a scalar of kind k"""
    if k == "f64":
        return ["num", nsx(v)]
    return ["ks", k, ms.payload(k, v)]


def kmat_sx(k, r, c, d):
    if k == "f64":
        return ["mat", r, c, [nsx(x) for x in d]]
    return ["km", k, r, c, [ms.payload(k, x) for x in d]]


def kmat_src(rng, k, r, c, d):
    return "[" + "; ".join(" ".join(klit(rng, k, d[j * r + i]) for j in range(c)) for i in range(r)) + "]"


def plain(k, v):
    """the value written without its kind (the right-hand side of an annotated definition), or None"""
    if k in ms.INT_KINDS or k in ("f32", "f64"):
        return ms.fmt_float(float(v))
    if k == "r64" and v.denominator in (1, 2, 4):
        return ms.fmt_float(float(v))
    if k in ("bool", "string", "c64"):
        return ms.lit(k, v)
    return None


class KT:
    """type of a name in the kinds stream: scalar / matrix of kind k, tuple or record of scalars"""
    def __init__(self, tag, k=None, r=0, c=0, elems=None):
        self.tag, self.k, self.r, self.c, self.elems = tag, k, r, c, elems


class KHist(Hist):
    def __init__(self, rng, names, p_invalid, kinds, containers=False):
        Hist.__init__(self, rng, names, p_invalid, dict(barevar=0.0, varatom=False, destr=False, longcol=False))
        self.ks = kinds
        self.containers = containers
        self.kseen = set()

    def kind(self):
        k = self.rng.choice(self.ks)
        self.kseen.add(k)
        return k

    def other_kind(self, k):
        c = [x for x in K_ALL if x != k]
        return self.rng.choice(c)

    def scalar(self, k, **kw):
        v = kvalue(self.rng, k, **kw)
        return klit(self.rng, k, v), ksx(k, v), KT("s", k)

    def matrix(self, k, r=None, c=None, **kw):
        if r is None:
            r, c = rand_shape(self.rng)
        d = [kvalue(self.rng, k, **kw) for _ in range(r * c)]
        return kmat_src(self.rng, k, r, c, d), kmat_sx(k, r, c, d), KT("m", k, r, c)

    def same(self, t, **kw):
        return self.scalar(t.k, **kw) if t.tag == "s" else self.matrix(t.k, t.r, t.c, **kw)

    # -- definitions in every syntactic form
    def k_define(self, invalid):
        rng = self.rng
        mu = rng.random() < 0.65
        pre = "~" if mu else ""
        und = self.undefined()
        k = self.kind()
        if invalid:
            c = rng.random()
            if self.env and c < 0.45:                          # redefinition, in any form
                x = rng.choice(self.defined())
                form = rng.random()
                if form < 0.4:
                    e = self.scalar(k)
                    src = "%s%s := %s" % (pre, x, e[0])
                elif form < 0.7 and plain(k, kvalue(rng, k)) is not None:
                    v = kvalue(rng, k)
                    e = (None, ksx(k, v))
                    src = "%s%s<%s> := %s" % (pre, x, k, plain(k, v))
                else:
                    e = self.matrix(k)
                    src = "%s%s := %s" % (pre, x, e[0])
                self.emit("def", src, ["def", int(mu), q(x), e[1]], True)
                return True
            if not und:
                return False
            x = rng.choice(und)
            if c < 0.6:                                        # undefined variable on the right
                y = rng.choice([n for n in und if n != x] or [x])
                self.emit("def", "%s%s<%s> := %s" % (pre, x, k, y) if rng.random() < 0.5 else "%s%s := %s" % (pre, x, y),
                          ["def", int(mu), q(x), ["var", q(y)]], True)
                return True
            # an annotation the right-hand side cannot be converted to: the definition has no value and must fail
            forms = ['%s<[%s]:1,3> := [1 2]' % (x, k), '%s<[%s]:2,2> := [1 2 3]' % (x, k), '%s<[%s]:3> := [1 2 3]' % (x, k)]
            if k in ms.INT_KINDS or k in ("f32", "f64"):
                forms += ['%s<%s> := "s"' % (x, k), '%s<%s> := true' % (x, k), '%s<%s> := [1 2]' % (x, k)]
            if k in ms.INT_KINDS or k == "f32":
                forms += ['%s<%s> := 1/2' % (x, k)]
            if k == "bool":
                forms += ['%s<bool> := 5' % x, '%s<bool> := "s"' % x]
            if k == "c64":
                forms += ['%s<c64> := 5' % x, '%s<[c64]:1,3> := [1 2 3]' % x]
            self.emit("def", pre + rng.choice(forms), ["def", int(mu), q(x), INVALID_RHS], True)
            return True
        if not und:
            return False
        x = rng.choice(und)
        form = rng.random()
        if form < 0.3:                                         # x := 5<k>
            e = self.scalar(k, big=rng.random() < 0.3)
            src = "%s%s := %s" % (pre, x, e[0])
        elif form < 0.5:                                       # x<k> := 5
            v = kvalue(rng, k)
            pl = plain(k, v)
            if pl is None:
                return False
            e = (None, ksx(k, v), KT("s", k))
            src = "%s%s<%s> := %s" % (pre, x, k, pl)
        elif form < 0.58:                                      # x<k2> := 5<k1>, both integer kinds
            if k not in ms.INT_KINDS:
                return False
            k1 = rng.choice(ms.INT_KINDS)
            v = rng.randint(0, 100)
            e = (None, ksx(k, v), KT("s", k))
            src = "%s%s<%s> := %d<%s>" % (pre, x, k, v, k1)
        elif form < 0.75:                                      # m := [1<k> 2<k>]
            e = self.matrix(k, big=rng.random() < 0.3)
            src = "%s%s := %s" % (pre, x, e[0])
        elif form < 0.9:                                       # m<[k]:r,c> := [1 2 3]   /   m<[k]> := [1 2 3]
            r, c = rand_shape(rng)
            d = [kvalue(rng, k) for _ in range(r * c)]
            if k == "c64" or any(plain(k, v) is None for v in d):
                return False
            body = "[" + "; ".join(" ".join(plain(k, d[j * r + i]) for j in range(c)) for i in range(r)) + "]"
            e = (None, kmat_sx(k, r, c, d), KT("m", k, r, c))
            ann = "<[%s]:%d,%d>" % (k, r, c) if rng.random() < 0.7 else "<[%s]>" % k
            src = "%s%s%s := %s" % (pre, x, ann, body)
        else:                                                  # tuple / record of scalars of several kinds
            n = rng.randint(1, 3)
            ats = [self.scalar(self.kind()) for _ in range(n)]
            if rng.random() < 0.5 and n >= 2:
                e = ("(" + ", ".join(a[0] for a in ats) + ")", ["tup"] + [a[1] for a in ats], KT("tup", elems=[a[2] for a in ats]))
            else:
                fs = FIELDS[:n]
                e = ("{" + ", ".join("%s: %s" % (f, a[0]) for f, a in zip(fs, ats)) + "}",
                     ["rec"] + [[q(f), a[1]] for f, a in zip(fs, ats)], KT("rec", elems=list(zip(fs, [a[2] for a in ats]))))
            src = "%s%s := %s" % (pre, x, e[0])
        self.emit("def", src, ["def", int(mu), q(x), e[1]], False)
        self.env[x] = dict(type=e[2], mut=mu)
        return True

    def k_target(self, pred):
        return self.pick(lambda e: e["mut"] and pred(e["type"]))

    def k_source(self, t, **kw):
        """a right-hand side of the type t: a literal or a variable holding such a value"""
        y = self.pick(lambda e: not e.get("poison") and e["type"].tag == t.tag and e["type"].k == t.k and (t.tag == "s" or (e["type"].r, e["type"].c) == (t.r, t.c)))
        if y is not None and self.rng.random() < 0.3:
            return y, ["var", q(y)]
        e = self.same(t, **kw)
        return e[0], e[1]

    def k_mismatch(self, t):
        """a right-hand side the sink's kernel must refuse: another kind, another form, another shape class"""
        rng = self.rng
        c = rng.random()
        if c < 0.5:
            k2 = self.other_kind(t.k)
            e = self.scalar(k2) if t.tag == "s" else self.matrix(k2, t.r, t.c)
        elif t.tag == "s":
            e = self.matrix(t.k)
        elif t.r == 1 and t.c >= 2:
            e = self.matrix(t.k, t.c, 1) if c < 0.8 else self.scalar(t.k)
        elif t.c == 1 and t.r >= 2:
            e = self.matrix(t.k, 1, t.r)
        else:
            e = self.scalar(self.other_kind(t.k))
        return e[0], e[1]

    def k_assign(self, invalid):
        rng = self.rng
        if invalid:
            if rng.random() < 0.5:
                x = self.bad_target()
                if x is None:
                    return False
                e = self.scalar(self.kind())[:2]
            else:
                x = self.k_target(lambda t: t.tag in ("s", "m"))
                if x is None:
                    return False
                e = self.k_mismatch(self.env[x]["type"])
            self.emit("asg", "%s = %s" % (x, e[0]), ["asg", q(x), e[1]], True)
            return True
        x = self.k_target(lambda t: t.tag in ("s", "m"))
        if x is None:
            return False
        e = self.k_source(self.env[x]["type"])
        self.emit("asg", "%s = %s" % (x, e[0]), ["asg", q(x), e[1]], False)
        if self.env[x]["type"].k != "i128":
            self.env[x].pop("poison", None)
        return True

    def k_index(self, invalid):
        rng = self.rng
        two = rng.random() < 0.5
        if invalid:
            c = rng.random()
            if c < 0.35:
                x = self.bad_target()
                if x is None:
                    return False
                k = self.kind()
                i, j = rng.randint(1, 3), rng.randint(1, 3)
            else:
                x = self.k_target(lambda t: t.tag == "m") if c < 0.85 else self.k_target(lambda t: t.tag != "m")
                if x is None:
                    return False
                t = self.env[x]["type"]
                if t.tag != "m":
                    k, i, j = (t.k or self.kind()), 1, 1
                elif c < 0.6:                                   # out of range, right kind
                    k = t.k
                    i, j = rng.choice([(t.r + 1, 1), (1, t.c + 1), (0, 1)]) if two else (rng.choice([0, t.r * t.c + 1, t.r * t.c + 2]), 1)
                else:                                           # in range, another kind
                    k = self.other_kind(t.k)
                    i, j = (rng.randint(1, t.r), rng.randint(1, t.c)) if two else (rng.randint(1, t.r * t.c), 1)
        else:
            x = self.k_target(lambda t: t.tag == "m")
            if x is None:
                return False
            t = self.env[x]["type"]
            k = t.k
            i, j = (rng.randint(1, t.r), rng.randint(1, t.c)) if two else (rng.randint(1, t.r * t.c), 1)
        v = kvalue(rng, k)
        if two:
            self.emit("ix2", "%s[%d,%d] = %s" % (x, i, j, klit(rng, k, v)), ["ix2", q(x), i, j, ksx(k, v) if k != "f64" else nsx(v)], invalid)
        else:
            self.emit("ix1", "%s[%d] = %s" % (x, i, klit(rng, k, v)), ["ix1", q(x), i, ksx(k, v) if k != "f64" else nsx(v)], invalid)
        return True

    def k_op(self, invalid):
        rng = self.rng
        if self.containers:
            return False
        if invalid:
            op = rng.choice(["add", "sub", "mul"])
            if rng.random() < 0.45:
                x = self.bad_target()
                if x is None:
                    return False
                e = self.scalar(self.kind())[:2]
            else:
                x = self.k_target(lambda t: t.tag in ("s", "m"))
                if x is None:
                    return False
                e = self.k_mismatch(self.env[x]["type"])
            self.emit("op", "%s %s %s" % (x, OPS[op], e[0]), ["op", q(x), op, e[1]], True)
            return True
        x = self.pick(lambda e: e["mut"] and e["type"].tag in ("s", "m") and not e.get("poison"))
        if x is None:
            return False
        t = self.env[x]["type"]
        k = t.k
        op = rng.choice(["add", "sub", "add", "sub", "mul", "div"])
        big = k in ms.INT_KINDS and rng.random() < 0.35          # large enough to overflow the 8-bit kinds now and then
        if k == "f64":
            if op in ("mul", "div"):
                f = rng.choice([2.0, -1.0, 0.5, -2.0])
                e = (nlit(f), ["num", nsx(f)])
            elif t.tag == "m" and rng.random() < 0.5:
                e = lit_of_type(rng, T("mat", r=t.r, c=t.c), nonneg=True)
            else:
                e = lit_of_type(rng, T("num"), nonneg=True)
        elif k == "f32":
            if op in ("mul", "div"):
                f = rng.choice([2.0, -1.0, 0.5, -2.0, 4.0])
                e = (klit(rng, k, f), ksx(k, f))
            else:
                e = self.k_source(t if rng.random() < 0.5 else KT("s", k))
        elif k == "c64":
            if op == "div":
                op = "mul"
            e = self.k_source(t if rng.random() < 0.5 else KT("s", k))
        elif op == "div" and (k in ms.INT_KINDS or k == "r64"):
            # integers and rationals: a zero divisor now and then (panics; in a matrix after some elements were stored)
            zero = rng.random() < 0.3
            if zero and k == "r64":
                self.env[x]["poison"] = True                    # it will hold n/0: no arithmetic on it until it is assigned again
            tt = t if rng.random() < 0.6 else KT("s", k)
            if tt.tag == "s":
                v = 0 if zero else kvalue(rng, k, nonzero=True)
                v = Fraction(v) if k == "r64" else v
                e = (klit(rng, k, v), ksx(k, v))
            else:
                d = [kvalue(rng, k, nonzero=True) for _ in range(tt.r * tt.c)]
                if zero:
                    d[rng.randrange(len(d))] = Fraction(0) if k == "r64" else 0
                e = (kmat_src(rng, k, tt.r, tt.c, d), kmat_sx(k, tt.r, tt.c, d))
        elif op == "div":
            e = self.same(t if rng.random() < 0.5 else KT("s", k))[:2]
        else:
            e = self.k_source(t if rng.random() < 0.5 else KT("s", k), big=big)
        self.emit("op", "%s %s %s" % (x, OPS[op], e[0]), ["op", q(x), op, e[1]], False)
        return True

    def k_field(self, invalid):
        rng = self.rng
        x = self.k_target(lambda t: t.tag == "rec")
        if invalid:
            c = rng.random()
            if c < 0.35 or x is None:
                x = self.bad_target()
                if x is None:
                    return False
                f, e = rng.choice(FIELDS), self.scalar(self.kind())
            else:
                t = self.env[x]["type"]
                f, ft = rng.choice(t.elems)
                if c < 0.6:
                    e = self.scalar(self.other_kind(ft.k))
                elif c < 0.8:
                    f, e = "zz", self.scalar(ft.k)
                else:
                    e = self.matrix(ft.k)
            self.emit("fld", "%s.%s = %s" % (x, f, e[0]), ["fld", q(x), q(f), e[1]], True)
            return True
        if x is None:
            return False
        f, ft = rng.choice(self.env[x]["type"].elems)
        e = self.scalar(ft.k)
        self.emit("fld", "%s.%s = %s" % (x, f, e[0]), ["fld", q(x), q(f), e[1]], False)
        return True

    def k_tix(self, invalid):
        rng = self.rng
        x = self.k_target(lambda t: t.tag == "tup")
        if invalid:
            c = rng.random()
            if c < 0.35 or x is None:
                x = self.bad_target()
                if x is None:
                    return False
                i, e = rng.randint(1, 2), self.scalar(self.kind())
            else:
                t = self.env[x]["type"]
                if c < 0.6:
                    i = rng.choice([0, len(t.elems) + 1])
                    e = self.scalar(self.kind())
                else:
                    i = rng.randint(1, len(t.elems))
                    e = self.scalar(self.other_kind(t.elems[i - 1].k))
            self.emit("tix", "%s.%d = %s" % (x, i, e[0]), ["tix", q(x), i, e[1]], True)
            return True
        if x is None:
            return False
        t = self.env[x]["type"]
        i = rng.randint(1, len(t.elems))
        e = self.scalar(t.elems[i - 1].k)                      # accepted for f64, i64, bool, string; refused for the rest
        self.emit("tix", "%s.%d = %s" % (x, i, e[0]), ["tix", q(x), i, e[1]], False)
        return True

    # -- tables and sets of the other kinds (compared by their canonical form)
    def k_container(self, invalid):
        rng = self.rng
        und = self.undefined()
        tb = self.k_target(lambda t: t.tag == "tab")
        c = rng.random()
        if tb is None or (c < 0.3 and und and not invalid):
            if not und or invalid:
                return False
            x = rng.choice(und)
            mu = rng.random() < 0.8
            pre = "~" if mu else ""
            if rng.random() < 0.75:
                ncol, rows = rng.randint(1, 2), rng.randint(2, 3)
                cols = [(f, self.kind()) for f in FIELDS[:ncol]]
                if any(k == "c64" for _, k in cols):
                    return False
                # (a table cell written 2.5 under an r64 column is stored as 2: conversions are not C05's business)
                data = {f: [(Fraction(rng.randint(-9, 12)) if k == "r64" else kvalue(rng, k)) for _ in range(rows)] for f, k in cols}
                if any(plain(k, v) is None for f, k in cols for v in data[f]):
                    return False
                src = "| " + " ".join("%s<%s>" % (f, k) for f, k in cols) + " | " + " | ".join(
                    " ".join(plain(k, data[f][i]) for f, k in cols) for i in range(rows)) + " |"
                if all(k == "f64" for _, k in cols):
                    ex = ["tab", [[q(f), [nsx(v) for v in data[f]]] for f, k in cols]]
                else:
                    ex = ["opq", ["table", rows] + [[q(f), q(k), [["s", k, ms.payload(k, v)] for v in data[f]]] for f, k in cols]]
                self.emit("def", "%s%s := %s" % (pre, x, src), ["def", int(mu), q(x), ex], False)
                self.env[x] = dict(type=KT("tab", elems=dict(cols=cols, rows=rows)), mut=mu)
            else:
                k = self.kind()
                if k in ("bool", "c64"):
                    return False
                vals = []
                for _ in range(rng.randint(1, 4)):
                    v = kvalue(rng, k)
                    if v not in vals:
                        vals.append(v)
                src = "{" + ", ".join(klit(rng, k, v) for v in vals) + "}"
                if k == "f64":
                    ex = ["set", [nsx(v) for v in vals]]
                else:
                    ex = ["opq", ["set", q(k), len(vals), [["s", k, ms.payload(k, v)] for v in vals]]]
                self.emit("def", "%s%s := %s" % (pre, x, src), ["def", int(mu), q(x), ex], False)
                self.env[x] = dict(type=KT("set", k), mut=mu)
            return True
        t = self.env[tb]["type"].elems
        cols, rows = t["cols"], t["rows"]
        if c < 0.65:                                           # a column
            f, k = rng.choice(cols)
            n = rows
            if invalid:
                w = rng.random()
                if w < 0.35:
                    n = rows + rng.randint(1, 2)
                elif w < 0.7:
                    k = self.other_kind(k)
                else:
                    f = "zz"
            e = self.matrix(k, n, 1)
            self.emit("fld", "%s.%s = %s" % (tb, f, e[0]), ["fld", q(tb), q(f), e[1]], invalid)
            return True
        ats = []                                               # a row (always all the columns)
        bad = rng.randrange(len(cols)) if invalid else -1
        for i, (f, k) in enumerate(cols):
            ats.append((f, self.scalar(self.other_kind(k) if i == bad else k)))
        self.emit("op", "%s += {%s}" % (tb, ", ".join("%s: %s" % (f, a[0]) for f, a in ats)),
                  ["op", q(tb), "add", ["rec"] + [[q(f), a[1]] for f, a in ats]], invalid)
        if not invalid:
            t["rows"] += 1
        return True

    def step(self):
        rng = self.rng
        invalid = rng.random() < self.p_invalid
        gens = [(self.k_define, 5 if len(self.env) < len(self.names) else 2), (self.k_assign, 4), (self.k_index, 3),
                (self.k_op, 5), (self.k_field, 2), (self.k_tix, 2), (self.k_container, 6 if self.containers else 0)]
        if len(self.env) == 0:
            gens = [(self.k_define, 8), (self.k_assign, 1), (self.k_container, 4 if self.containers else 0)]
        for _ in range(14):
            g = rng.choices([g for g, _ in gens], [w for _, w in gens])[0]
            if g(invalid):
                return
            if rng.random() < 0.3:
                invalid = not invalid
        if not self.k_define(False):
            self.k_define(True)


def bucket(n, edges):
    for e in edges:
        if n <= e:
            return "<=%d" % e
    return ">%d" % edges[-1]


# user-defined functions whose bodies fail for some arguments (integer underflow, index out of range, undefined name);
# they are defined together with the first statement of a history (function definitions bind no variable)
FNDEFS = ("dec(n<u64>) = r<u64> :=\n  r := n - 1u64.\n"
          "idx(i<u64>) = r<f64> :=\n  w := [1 2 3]\n  r := w[i].\n"
          "undef(x<f64>) = r<f64> :=\n  r := x + missingname.\n")


def make_case(h, stream):
    if getattr(h, "with_fns", False) and h.src and not h.src[0].startswith("dec(n<u64>)"):
        h.src[0] = FNDEFS + h.src[0]
    n = len(h.src)
    tags = dict(stream=stream, length=bucket(n, [8, 16, 25]), invalid_pct=bucket(100 * h.invalid // max(1, n), [20, 40, 60, 100]))
    for k in sorted(set(h.kinds)):
        tags["has_" + k] = 1
    return dict(sx=sx(["hist"] + h.sxs), impl=dict(stmts=h.src), tags=tags)


def fixed_cases():
    """hand-written histories: the witnesses of the known findings and the basic error cases"""
    def S(text):
        return text
    n = lambda x: ["num", nsx(x)]
    v = lambda x: ["var", q(x)]
    rows = [
        ("alias-define", ["a := 1", "~b := a", "b = 5"],
         [["def", 0, q("a"), n(1)], ["def", 1, q("b"), v("a")], ["asg", q("b"), n(5)]]),
        ("alias-define-matrix", ["~m := [1 2 3]", "n := m", "m[1] = 100"],
         [["def", 1, q("m"), ["mat", 1, 3, [nsx(1), nsx(2), nsx(3)]]], ["def", 0, q("n"), v("m")], ["ix1", q("m"), 1, nsx(100)]]),
        ("alias-literal", ["~a := 1", "t := (a, 2)", "a = 5"],
         [["def", 1, q("a"), n(1)], ["def", 0, q("t"), ["tup", v("a"), n(2)]], ["asg", q("a"), n(5)]]),
        ("alias-literal-record", ["~a := 1", "r := {fa: a, fb: 2}", "a += 5"],
         [["def", 1, q("a"), n(1)], ["def", 0, q("r"), ["rec", [q("fa"), v("a")], [q("fb"), n(2)]]], ["op", q("a"), "add", n(5)]]),
        ("destructure-partial", ["a := 1", "(p, a) := (1, 2)"],
         [["def", 0, q("a"), n(1)], ["des", [q("p"), q("a")], ["tup", n(1), n(2)]]]),
        ("destructure-too-many", ["t := (1, 2)", "(p, q, s) := t"],
         [["def", 0, q("t"), ["tup", n(1), n(2)]], ["des", [q("p"), q("q"), q("s")], v("t")]]),
        ("destructure-mutable", ["(p, q) := (1, 2)", "p = 5"],
         [["des", [q("p"), q("q")], ["tup", n(1), n(2)]], ["asg", q("p"), n(5)]]),
        ("alias-destructure", ["t := (1, 2)", "(p, q) := t", "p = 5"],
         [["def", 0, q("t"), ["tup", n(1), n(2)]], ["des", [q("p"), q("q")], v("t")], ["asg", q("p"), n(5)]]),
        ("table-column-partial", ["~t := | fa<f64> | 1 | 2 |", "t.fa = [5; 6; 7]"],
         [["def", 1, q("t"), ["tab", [[q("fa"), [nsx(1), nsx(2)]]]]], ["fld", q("t"), q("fa"), ["mat", 3, 1, [nsx(5), nsx(6), nsx(7)]]]]),
        ("errors", ["x := 1", "x := 2", "x = 2", "y = 2", "y += 2", "x += 2", "~x := 3"],
         [["def", 0, q("x"), n(1)], ["def", 0, q("x"), n(2)], ["asg", q("x"), n(2)], ["asg", q("y"), n(2)],
          ["op", q("y"), "add", n(2)], ["op", q("x"), "add", n(2)], ["def", 1, q("x"), n(3)]]),
        ("clean", ["~x := 4", "x += 1", "x -= 2", "x *= 2", "x /= 2", "y := 7", "x = 2.5", "~m := [1 2; 3 4]", "m[2,1] = 9", "m[3] = 8", "m += 1"],
         [["def", 1, q("x"), n(4)], ["op", q("x"), "add", n(1)], ["op", q("x"), "sub", n(2)], ["op", q("x"), "mul", n(2)],
          ["op", q("x"), "div", n(2)], ["def", 0, q("y"), n(7)], ["asg", q("x"), n(2.5)],
          ["def", 1, q("m"), ["mat", 2, 2, [nsx(1), nsx(3), nsx(2), nsx(4)]]], ["ix2", q("m"), 2, 1, nsx(9)], ["ix1", q("m"), 3, nsx(8)],
          ["op", q("m"), "add", n(1)]]),
        ("copy-assign", ["~x := 1", "~y := 2", "x = y", "y = 5", "x += y"],
         [["def", 1, q("x"), n(1)], ["def", 1, q("y"), n(2)], ["asg", q("x"), v("y")], ["asg", q("y"), n(5)], ["op", q("x"), "add", v("y")]]),
        ("double-reference", ["~a := 1", "(t, z) := (a, 1)", "u := (t, 3)", "(p, q) := u", "p = 7", "t = 7"],
         [["def", 1, q("a"), n(1)], ["des", [q("t"), q("z")], ["tup", v("a"), n(1)]], ["def", 0, q("u"), ["tup", v("t"), n(3)]],
          ["des", [q("p"), q("q")], v("u")], ["asg", q("p"), n(7)], ["asg", q("t"), n(7)]]),
    ]
    for name, src, sxs in rows:
        yield dict(sx=sx(["hist"] + sxs), impl=dict(stmts=src), tags=dict(stream="fixed", name=name))
    # the same witnesses and error cases for every kind
    import random as _random
    r0 = _random.Random(5)
    for k in K_ALL:
        one, two, three = {"bool": (True, False, True), "string": ("a", "bc", "d"), "c64": ((1.0, 2.0), (3.0, 4.0), (5.0, 6.0)),
                           "r64": (Fraction(1, 2), Fraction(5, 3), Fraction(7, 1)), "f32": (1.5, 2.0, 7.0), "f64": (1.5, 2.0, 7.0)}.get(k, (1, 5, 7))
        L = lambda v: klit(r0, k, v)
        yield dict(sx=sx(["hist", ["def", 0, q("a"), ksx(k, one)], ["def", 1, q("b"), ["var", q("a")]], ["asg", q("b"), ksx(k, two)]]),
                   impl=dict(stmts=["a := %s" % L(one), "~b := a", "b = %s" % L(two)]), tags=dict(stream="fixed", name="alias-define-" + k))
        d = [one, two, three]
        yield dict(sx=sx(["hist", ["def", 1, q("m"), kmat_sx(k, 1, 3, d)], ["def", 0, q("n"), ["var", q("m")]],
                          ["ix1", q("m"), 1, ksx(k, three) if k != "f64" else nsx(three)]]),
                   impl=dict(stmts=["~m := %s" % kmat_src(r0, k, 1, 3, d), "n := m", "m[1] = %s" % L(three)]),
                   tags=dict(stream="fixed", name="alias-define-matrix-" + k))
        yield dict(sx=sx(["hist", ["def", 0, q("x"), ksx(k, one)], ["def", 0, q("x"), ksx(k, two)], ["asg", q("x"), ksx(k, two)],
                          ["asg", q("y"), ksx(k, two)], ["op", q("y"), "add", ksx(k, two)], ["op", q("x"), "add", ksx(k, two)],
                          ["def", 1, q("x"), ksx(k, three)], ["def", 1, q("z"), ksx(k, three)], ["asg", q("z"), ksx(k, one)]]),
                   impl=dict(stmts=["x := %s" % L(one), "x := %s" % L(two), "x = %s" % L(two), "y = %s" % L(two), "y += %s" % L(two),
                                    "x += %s" % L(two), "~x := %s" % L(three), "~z := %s" % L(three), "z = %s" % L(one)]),
                   tags=dict(stream="fixed", name="errors-" + k))
    ks = lambda k, v: ["ks", k, v]
    yield dict(sx=sx(["hist", ["def", 1, q("m"), ["km", "u8", 1, 3, [1, 100, 3]]], ["op", q("m"), "add", ks("u8", 200)]]),
               impl=dict(stmts=["~m<[u8]:1,3> := [1 100 3]", "m += 200<u8>"]), tags=dict(stream="fixed", name="int-op-partial"))
    yield dict(sx=sx(["hist", ["def", 1, q("m"), ["km", "u8", 1, 3, [4, 4, 4]]], ["op", q("m"), "div", ["km", "u8", 1, 3, [2, 0, 2]]]]),
               impl=dict(stmts=["~m<[u8]:1,3> := [4 4 4]", "m /= [2<u8> 0<u8> 2<u8>]"]), tags=dict(stream="fixed", name="int-div-partial"))
    yield dict(sx=sx(["hist", ["def", 1, q("x"), ks("r64", [3, 2])], ["op", q("x"), "div", ks("r64", [0, 1])]]),
               impl=dict(stmts=["~x := 3/2", "x /= 0<r64>"]), tags=dict(stream="fixed", name="r64-div-zero"))
    yield dict(sx=sx(["hist", ["def", 1, q("m"), ["km", "r64", 1, 3, [[1, 2], [1, 3], [1, 4]]]],
                      ["op", q("m"), "div", ["km", "r64", 1, 3, [[1, 1], [0, 1], [1, 1]]]]]),
               impl=dict(stmts=["~m := [1/2 1/3 1/4]", "m /= [1<r64> 0<r64> 1<r64>]"]), tags=dict(stream="fixed", name="r64-div-zero-matrix"))


K_N = dict(quick=900, thorough=30000)


def generate(tier, rng):
    for c in fixed_cases():
        yield c
    n = 1500 if tier == "quick" else 50000
    for i in range(n):
        names = rng.sample(NAMES_POOL, 5)
        r = rng.random()
        p_inv = 0.33 if r < 0.7 else (0.12 if r < 0.85 else 0.6)
        if rng.random() < 0.4:
            prof = dict(barevar=0.0, varatom=False, destr=False, longcol=False)         # nothing that shares storage
            stream = "random-closed"
        else:
            prof = dict(barevar=rng.choice([0.0, 0.3]), varatom=rng.random() < 0.5, destr=rng.random() < 0.4, longcol=rng.random() < 0.5)
            stream = "random"
        h = Hist(rng, names, p_inv, prof)
        h.with_fns = rng.random() < 0.25
        length = rng.randint(3, 25)
        for _ in range(length):
            h.step()
        yield make_case(h, stream)
    # the other value kinds: 1-3 kinds per history so that same-kind interactions are frequent, all 16 over the run
    nk = K_N[tier]
    for i in range(nk):
        names = rng.sample(NAMES_POOL, 5)
        r = rng.random()
        p_inv = 0.33 if r < 0.7 else (0.12 if r < 0.85 else 0.6)
        kinds = [K_ALL[i % len(K_ALL)]] + rng.sample(K_ALL, rng.randint(0, 2))
        cont = (i % 5 == 4)
        h = KHist(rng, names, p_inv, kinds, containers=cont)
        for _ in range(rng.randint(3, 22)):
            h.step()
        c = make_case(h, "kinds-containers" if cont else "kinds")
        for k in sorted(h.kseen):
            c["tags"]["kind_" + k] = 1
        yield c


def shrink(case):
    p = parse_sx(case["sx"])
    stmts = case["impl"]["stmts"]
    if not isinstance(p, list) or len(p) - 1 != len(stmts) or len(stmts) <= 1:
        return []
    out = []
    n = len(stmts)
    cands = [list(range(k)) for k in range(1, n)] + [[j for j in range(n) if j != i] for i in range(n)]
    for keep in cands:
        out.append(dict(sx=sx(["hist"] + [p[1 + j] for j in keep]), impl=dict(stmts=[stmts[j] for j in keep]), tags=dict(case.get("tags", {}))))
    return out
