"""C11 — matrix construction by concatenation: generator of block tilings."""
import itertools
from vlib import mechsrc as ms
from vlib.core import sx

PROP = "C11"
MODE = "prog"
RULE = ("every tiling of an r x c result (r,c<=4; thorough: also up to 9x9) into 1-4 block rows and 1-4 blocks per row, "
        "blocks bound to variables (scalar / 1x1 / row / column / matrix as their size dictates) with pairwise distinct "
        "element values; plus invalid tilings (one block off by one) and mixed-kind tilings; all 16 kinds rotating. "
        "non-trivial = distinct case whose expected result is a value (not an error)")
ASSUMPTIONS = [
    "blocks are observed through variables defined by typed literals; values restricted to |int| < 2^53 and short dyadic floats "
    "so that the literal syntax denotes them exactly (C13 covers literals)",
    "error kinds/messages are not compared (one Err token)",
]
TRIVIAL_TAGS = ["error"]


def pregen():
    """regenerate coq/theories/Gen/CatArms.v from the current Rust source (translators/cat_arms.py): the offset-chain obligations
    of Props/C11.v are stated over that table"""
    import os, sys
    from vlib import core
    sys.path.insert(0, os.path.join(core.ROOT, "translators"))
    import armlib
    return armlib.pregen(PROP, [("cat_arms", "theories/Proofs/CatArmsP.vo")])


def compositions(n, maxparts=4):
    res = []
    def go(rem, acc):
        if rem == 0:
            res.append(list(acc)); return
        if len(acc) == maxparts:
            return
        for p in range(1, rem + 1):
            acc.append(p); go(rem - p, acc); acc.pop()
    go(n, [])
    return res


def make_case(kinds_per_block, tiling, rng, scalar_as_matrix_p=0.3, tag=None):
    """tiling: list of block rows, each a list of (h, w).  kinds_per_block: function idx -> kind"""
    src = []
    rows_sx = []
    names = []
    counter = [0]
    idx = 0
    used = {}
    for br in tiling:
        row_sx = []
        row_names = []
        for (h, w) in br:
            k = kinds_per_block(idx)
            name = "b%d" % idx
            idx += 1
            data = []
            for _ in range(h * w):
                data.append(distinct_value(k, counter, rng))
            # how the block is written in the literal: a variable reference, an inline nested literal, or
            # (numeric kinds) an inline arithmetic expression on a variable — the kernels take different
            # branches for directly-valued blocks and for variable references
            style = rng.random()
            if h == 1 and w == 1 and rng.random() > scalar_as_matrix_p:
                if style < 0.6:
                    src.append(ms.define_scalar(name, k, data[0])); ref = name
                else:
                    ref = ms.lit(k, data[0], typed=True)
                row_sx.append(ms.kval_scalar(k, data[0]))
            else:
                if style < 0.5:
                    src.append(ms.define_matrix(name, k, h, w, data)); ref = name
                elif style < 0.85 or k not in ms.INT_KINDS + ["f64", "f32"]:
                    ref = ms.mat_literal(k, h, w, data, typed_elems=True)
                else:
                    src.append(ms.define_matrix(name, k, h, w, data))
                    unit = ms.lit(k, 0, typed=True) if rng.random() < 0.5 else None
                    ref = "%s + %s" % (name, unit) if unit else "%s * %s" % (name, ms.lit(k, 1, typed=True))
                row_sx.append(ms.kval_matrix(k, h, w, data))
            row_names.append(ref)
        rows_sx.append(row_sx)
        names.append(row_names)
    lit_text = "[" + "; ".join(" ".join(r) for r in names) + "]"
    varpos = [(i, j) for i, r in enumerate(names) for j, t in enumerate(r) if t.startswith("b") and t[1:].isdigit()]
    if len(varpos) >= 2 and rng.random() < 0.12:
        # one block is a name bound by a match arm (a local environment) that shadows a global `w` holding ANOTHER block
        (i, j), (i2, j2) = rng.sample(varpos, 2)
        arm = [list(r) for r in names]; bound = arm[i][j]; arm[i][j] = "w"
        arm_text = "[" + "; ".join(" ".join(r) for r in arm) + "]"
        src.append("w := %s" % names[i2][j2])
        src.append("%s? | w => %s | * => %s." % (bound, arm_text, lit_text))
        tag = dict(tag or {}, written="arm-bound-block")
    else:
        src.append(lit_text)
    case = dict(sx=sx(["cat"] + rows_sx), impl=dict(src="\n".join(src)), tags=tag or {})
    return case


def distinct_value(k, counter, rng):
    counter[0] += 1
    n = counter[0]
    if k in ms.INT_KINDS:
        lo, hi = ms.kind_range(k)
        v = n if k[0] == "u" or n % 2 else -n
        return max(lo, min(hi, v))
    if k in ("f64", "f32"):
        return (n if n % 3 else -n) + (0.5 if n % 2 else 0.25)
    if k == "r64":
        from fractions import Fraction
        return Fraction(2 * n + 1, 2)
    if k == "c64":
        return (float(n), float(-n))
    if k == "bool":
        return rng.random() < 0.5
    if k == "string":
        return "s%d" % n
    raise ValueError(k)


def all_tilings(r, c):
    for heights in compositions(r):
        width_choices = [compositions(c) for _ in heights]
        for widths in itertools.product(*width_choices):
            yield [[(h, w) for w in ws] for h, ws in zip(heights, widths)]


def generate(tier, rng):
    kinds = ms.ALL_KINDS
    ki = 0
    tilings = []
    for r in range(1, 5):
        for c in range(1, 5):
            ts = list(all_tilings(r, c))
            if tier == "quick" and len(ts) > 60:
                ts = rng.sample(ts, 60)
            tilings += ts
    for t in tilings:
        k = kinds[ki % len(kinds)]; ki += 1
        yield make_case(lambda i, k=k: k, t, rng, tag=dict(stream="valid", kind=k, nblocks=sum(len(r) for r in t)))
    # larger dynamic tilings
    nbig = 60 if tier == "quick" else 1500
    for _ in range(nbig):
        r, c = rng.randint(5, 9), rng.randint(5, 9)
        heights = rng.choice(compositions(r))
        t = [[(h, w) for w in rng.choice(compositions(c))] for h in heights]
        k = kinds[ki % len(kinds)]; ki += 1
        yield make_case(lambda i, k=k: k, t, rng, tag=dict(stream="valid-large", kind=k, nblocks=sum(len(r) for r in t)))
    # every kind on a fixed set of interesting tilings
    fixed = [
        [[(1, 1), (1, 1)], [(1, 1), (1, 1)]],
        [[(2, 2), (2, 1)], [(1, 3)]],
        [[(1, 2), (1, 1)], [(2, 1), (2, 2)]],
        [[(3, 1), (3, 2), (3, 1)]],
        [[(1, 4)], [(2, 4)], [(1, 4)]],
        [[(2, 1), (2, 1)], [(2, 2)]],
    ]
    for k in kinds:
        for t in fixed:
            yield make_case(lambda i, k=k: k, t, rng, tag=dict(stream="valid-allkinds", kind=k, nblocks=sum(len(r) for r in t)))
    # invalid: one block off by one
    ninv = 300 if tier == "quick" else 3000
    pool = [t for t in tilings if sum(len(r) for r in t) >= 2]
    for _ in range(ninv):
        t = [list(r) for r in rng.choice(pool)]
        i = rng.randrange(len(t)); j = rng.randrange(len(t[i]))
        h, w = t[i][j]
        if rng.random() < 0.5:
            h = h + rng.choice([-1, 1]) if h > 1 else h + 1
        else:
            w = w + rng.choice([-1, 1]) if w > 1 else w + 1
        t[i][j] = (h, w)
        k = kinds[ki % len(kinds)]; ki += 1
        yield make_case(lambda i_, k=k: k, t, rng, tag=dict(stream="perturbed", kind=k))
    # mixed kinds
    nmix = 200 if tier == "quick" else 2000
    for _ in range(nmix):
        t = rng.choice(pool)
        nb = sum(len(r) for r in t)
        k1, k2 = rng.sample(kinds, 2)
        odd = rng.randrange(nb)
        yield make_case(lambda i, k1=k1, k2=k2, odd=odd: (k2 if i == odd else k1), t, rng, tag=dict(stream="mixed-kind", kind=k1 + "/" + k2))


def shrink(case):
    return []
