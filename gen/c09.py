"""C09 — the parser is total: generator of arbitrary / mutated / truncated texts.

case sx:   (c09 "<text bytes, \\xNN-escaped>")      — the judge recomputes the line table from the text itself
impl:      {src: text}                               — mvh mode `parse` (harness/src/mode_parse.rs)
"""
import os as _os
_REPO_ROOT = _os.environ.get("MECH_REPO", "/repo")   # testing aid (seeded runs); registered commands never set it
import os, re, random
from vlib.core import q

PROP = "C09"
MODE = "parse"
LEVEL = "proof"
STALL = 45.0          # seconds without output from the harness => the driver reports (hang) for the current case
TRIVIAL_TAGS = []
RULE = ("texts: (1) random strings of 1-40 tokens over the Mech token alphabet (operators, brackets, keywords, digits, identifiers, "
        ":=, ~, |, quotes, #, backticks, newlines CR/LF/CRLF, box-drawing, emoji incl. ZWJ sequences, combining marks, control characters, "
        "mika tokens); (2) every statement-level source of /repo/tests/interpreter.rs and code lines of the .mec files with 1-3 token-level "
        "mutations (delete / duplicate / swap / insert bracket or quote / truncate); (3) .mec files of the repository whole (quick: the ones "
        "up to 2.5 kB; thorough: up to 20 kB) and prefixes cut at grapheme-ish boundaries and at code-point boundaries inside a combining sequence "
        "(quick: ~60 prefixes of each of 6 files, capped at 2.5 kB; thorough: 40 prefixes of every file, capped at 4 kB); (4) valid programs "
        "with combining characters / emoji / box-drawing spliced in; (5) nesting-depth ladders and stray mika brackets (known findings). "
        "non-trivial = distinct text judged ok (tree or in-range report)")
ASSUMPTIONS = [
    "PARTIAL: (a) the recovery skeleton (mech_code / section / body loops, parse()'s remaining-must-be-empty rule) and the cursor -> "
    "(row, col) range arithmetic are proved for abstract leaf parsers (`leaf_ok`: results carry cursors in [i, len]; code_terminal "
    "consumes nothing only at eof or before a mika close; section elements consume at least one grapheme); (b) the ~5000-line nom "
    "grammar is re-extracted from /repo/src/syntax/src/*.rs on every run (translators/parser_grammar.py -> Gen/ParserGrammar.v: one "
    "entry per parser function, every nom repetition and hand-written parsing loop a recursive entry) and a machine-checked progress "
    "analysis (Model/Progress.v, theorems 20-28) shows on the CURRENT source: no call cycle without consumption (no left recursion; "
    "every loop advances or stops) outside the two recovery loops of (a), all nom repetition guards dead except two allow-listed ones "
    "(spurious Err, not a hang), termination of every parser function at recursion depth <= (|input|+1)*R*S.",
    "the progress theorems are about the EXTRACTED grammar: the translator (a symbolic executor for the Rust subset the parser is "
    "written in) is trusted to be faithful; what it does not understand becomes an explicit unknown node (count in the evidence: "
    "translator.unknown_nodes; 4 functions, theorem 25) and is never assumed to consume.  The primitive leaves (ParseString::consume_*), "
    "nom 7.1.3's many0/many1/many_till/separated_list0/1, nom's alt/opt/peek/not/cut/tuple and lib.rs::alt_best are modelled by hand from "
    "their source; the repetition combinators and alt_best are pinned by a source fingerprint (translators/pg_pins.json), a mismatch "
    "downgrades them to unknown.  Parses of a different text from inside the parser (fenced ```mech / ```ebnf blocks, rich comments) "
    "are opaque conditions: their termination follows from the same theorem applied to the shorter text, which is not formalised.",
    "recursion DEPTH is bounded linearly in the input, the number of steps is not (alt_best re-parses: finding exp-nesting), and a "
    "linear depth still overflows the native stack on long operator runs (finding stack-overflow-prefix-run); panics inside leaf "
    "parsers (9 unreachable!() / unwrap sites are explicit SPanic leaves of the grammar) are searched, not proved absent.",
    "absence of panics and hangs inside the leaf parsers, and the leaf assumptions themselves, are SEARCHED on this run's cases "
    "(catch_unwind + a wall-clock budget of STALL seconds without output), not proved",
    "a parse that needs longer than the budget is indistinguishable from a hang for the check (the exponential cost of nested brackets "
    "is listed as a known finding for that reason: the random streams cap the bracket nesting at 3, [ and { at 2); inputs are kept small "
    "enough that the dev-profile parser answers in seconds; thorough raises the budget to 1800 s for the error-heavy whole files",
    "'the same text always gives the same outcome' is observed by parsing twice in one process (HashMap seeds differ between the two runs) "
    "and comparing the Debug text of the tree / the error report; 'reads no files and no interpreter state' rests on the signature "
    "parser::parse(&str), on the harness constructing no interpreter in this mode, and on the observation that the two parses add no "
    "read-type system call to /proc/self/io's syscr counter (flag ioread otherwise) — opens / mmaps are not traced",
    "the guarded hook (proposed/C09-hook.diff, add-only) is NOT part of /repo: the shared harness prints `(hook off)` and the judge's replay "
    "of the hook log (progress invariants of the three loops, cursor ranges of the recovery functions) is vacuous in ./check; it was run "
    "against a private hook-enabled build (19 121 records on the quick tier incl. 3 zero-width code_terminal records, all conforming)",
    "columns are counted by mech in display widths (control characters have width 0); 'lies within the input' is judged against the "
    "per-line widths of the newline-terminated text: start column <= width+1 (the line terminator), exclusive end column <= width+2; "
    "the judge recomputes the number of lines and, for printable-ASCII lines, the exact widths from the text bytes, and bounds the "
    "harness's grapheme counts by the code-point counts for other lines (grapheme segmentation itself is not re-implemented in Coq)",
]

REPO = (_REPO_ROOT + "")

# --------------------------------------------------------------------------- alphabet
OPS = ["+", "-", "*", "/", "^", "**", "==", "!=", "<", ">", "<=", ">=", "&&", "||", "^^", "!", "=", ":=", "+=", "-=", "*=", "/=", "^=",
       "~", "|", "&", ":", "::", ";", ",", ".", "..", "..=", "...", "=>", "->", "<-", "?", "@", "$", "%", "\\", "'", "_", "∪", "∩", "∈", "∉",
       "⊆", "∖", "⊕", "⋈", "≠", "≤", "≥", "¬", "√", "π", "∞", "→", "←", "⇒", "×", "·", "√"]
BRACKETS_OPEN = ["(", "[", "{", "<", "⟨", "<<", "[[", "{{"]
BRACKETS_CLOSE = [")", "]", "}", ">", "⟩", ">>", "]]", "}}"]
KEYWORDS = ["true", "false", "if", "else", "fn", "let", "mut", "where", "for", "in", "u8", "i8", "f64", "u64", "string", "bool",
            "mech:", "✓", "✗", "_", "*", "--", "---", "===", "====="]
DIGITS = ["0", "1", "7", "42", "3.14", "1e3", "0x1F", "0b101", "0o17", "1/2", "2i", "1+2i", "5u8", "7<i8>", "1_000", "1.", ".5", "0x", "1e", "9999999999999999999999"]
IDENTS = ["x", "y", "foo", "a1", "x/2", "math/sin", "stats/sum", "Δ", "λx", "α_β", "é", "n\u0303", "名前", "🚀", "x🚀"]
QUOTES = ["$$", "$$", "$", '"', '"abc"', '"a\\"b"', "'", "`", "``", "```", "```mech", "```mech:disabled", "```python", "~~~", '"\n', "“", "”", "‘"]
HASHES = ["#", "##", "#x", "#Counter", "# Title", "--", "-- c", "// c", "%%", "%% sec", "(?)>", "(i)>", "(!)>", "(✓)>", "(✗)>", "(*)>", "[^1]:", "[^", "![", "](", ">", "> q", "* ", "- [ ]", "1. ", "|-", "|:-:|", "$$", "{{", "}}", "<<", ">>"]
NEWLINES = ["\n", "\n", "\n", "\r\n", "\r", "\n\n", " ", " ", " ", "  ", "\t", "\u00a0", "\u2009"]
BOX = ["├", "└", "│", "─", "╭", "╮", "╰", "╯", "┌", "┐", "┘", "┼", "═", "║", "╔", "╗", "╚", "╝", "├ ", "└ ", "│ "]
EMOJI = ["😀", "👨‍👩‍👧", "🇨🇦", "👍🏽", "❤️", "✓", "⚠", "🧑‍🚀", "#️⃣", "☃"]
COMBINING = ["\u0301", "\u0303", "\u0308\u0301", "e\u0301", "a\u0300\u0301\u0302", "\u200d", "\ufe0f", "\u20dd", "\u0e33", "\u1100\u1161", "\u0915\u094d\u0937"]
CONTROL = ["\x00", "\x01", "\x07", "\x0b", "\x0c", "\x1b", "\x7f", "\u0085", "\u2028", "\u2029", "\ufeff", "\u202e"]
MIKA = ["⸢", "⸥", "⸥", "╭◉╮", "╰◉╯", "─◉─", "◉", "⦿", "⊕", "╭", "╮", "›─", "Ɔ∞", "╭⦿╮", "╭⊖╮", "⸢ hi", "(˙◯˙)"]
MIKA_CLOSE = "⸥"

ALPHABET = (OPS * 2 + BRACKETS_OPEN + BRACKETS_CLOSE * 2 + KEYWORDS + DIGITS + IDENTS * 2 + QUOTES + HASHES + NEWLINES * 3 + BOX + EMOJI
            + COMBINING + CONTROL + MIKA)

MAX_OPEN = 3    # random streams keep the bracket nesting depth small: nested brackets cost ~4x per level (finding exp-nesting)
OPEN_CH = "([{"
CLOSE_CH = ")]}"


def nest_depth(s):
    d = m = 0
    for ch in s:
        if ch in OPEN_CH:
            d += 1; m = max(m, d)
        elif ch in CLOSE_CH:
            d = max(0, d - 1)
    return m


def cap_nesting(s, limit=MAX_OPEN, limit_sq=2):
    """Drop opening brackets that would push the naive nesting depth above `limit` (above `limit_sq` for [ and {,
    which cost ~7x per level)."""
    out = []
    stack = []
    for ch in s:
        if ch in OPEN_CH:
            sq = sum(1 for c in stack if c in "[{")
            if len(stack) >= limit or (ch in "[{" and sq >= limit_sq):
                continue
            stack.append(ch)
        elif ch in CLOSE_CH:
            if stack:
                stack.pop()
        out.append(ch)
    return "".join(out)


def case(text, **tags):
    return dict(sx="(c09 %s)" % q(text), impl=dict(src=text), tags=tags)


# --------------------------------------------------------------------------- sources of valid text
_RS_STR = re.compile(r'test_interpreter!\(\s*\w+\s*,\s*(r#"(?P<raw>.*?)"#|"(?P<esc>(?:\\.|[^"\\])*)")', re.S)


def _unescape(s):
    def rep(m):
        c = m.group(1)
        if c == "n": return "\n"
        if c == "t": return "\t"
        if c == "r": return "\r"
        if c == "0": return "\0"
        if c.startswith("u{"): return chr(int(c[2:-1], 16))
        if c == "\n": return ""
        return c
    s = re.sub(r'\\(u\{[0-9a-fA-F]+\}|\n\s*|.)', rep, s, flags=re.S)
    return s


def interpreter_sources():
    p = os.path.join(REPO, "tests", "interpreter.rs")
    res = []
    try:
        txt = open(p, encoding="utf-8").read()
    except OSError:
        return res
    for m in _RS_STR.finditer(txt):
        s = m.group("raw") if m.group("raw") is not None else _unescape(m.group("esc"))
        if s and len(s) < 1500:
            res.append(s)
    return res


def mec_files():
    out = []
    for d, dirs, fs in os.walk(REPO):
        dirs[:] = [x for x in dirs if x not in ("target", ".git", "node_modules")]
        for f in fs:
            if f.endswith(".mec"):
                out.append(os.path.join(d, f))
    return sorted(out)


def read_text(p):
    try:
        return open(p, encoding="utf-8", newline="").read()
    except (OSError, UnicodeDecodeError):
        return None


def code_lines(files, rng, n):
    """Indented (code) lines and small code paragraphs of the .mec documents."""
    pool = []
    for p in files:
        t = read_text(p)
        if not t:
            continue
        for para in re.split(r"\r?\n\s*\r?\n", t):
            if para.startswith("  ") and len(para) < 600:
                pool.append(para)
    rng.shuffle(pool)
    return pool[:n]


TOKEN_RE = re.compile(r"[A-Za-z_][A-Za-z0-9_]*|\d+(?:\.\d+)?|\s+|:=|==|!=|<=|>=|\.\.=|\.\.|=>|->|\+=|-=|.", re.S)


def tokens(s):
    return TOKEN_RE.findall(s)


def mutate(s, rng, k=None):
    toks = tokens(s)
    if not toks:
        return s, "empty"
    k = k or rng.randint(1, 3)
    names = []
    for _ in range(k):
        if not toks:
            break
        op = rng.choice(["del", "dup", "swap", "ins-open", "ins-close", "del-bracket", "ins-quote", "trunc", "ins-alpha", "dup-line", "cut-head"])
        i = rng.randrange(len(toks))
        if op == "del":
            del toks[i]
        elif op == "dup":
            toks.insert(i, toks[i])
        elif op == "swap" and len(toks) > 1:
            j = rng.randrange(len(toks)); toks[i], toks[j] = toks[j], toks[i]
        elif op == "ins-open":
            toks.insert(i, rng.choice(BRACKETS_OPEN))
        elif op == "ins-close":
            toks.insert(i, rng.choice(BRACKETS_CLOSE))
        elif op == "del-bracket":
            idx = [n for n, t in enumerate(toks) if t in "()[]{}<>|\"'`"]
            if idx:
                del toks[rng.choice(idx)]
        elif op == "ins-quote":
            toks.insert(i, rng.choice(['"', "'", "`", "```", "--", "#"]))
        elif op == "trunc":
            toks = toks[:max(1, i)]
        elif op == "ins-alpha":
            toks.insert(i, rng.choice(ALPHABET))
        elif op == "dup-line":
            toks = toks + ["\n"] + toks[i:]
        elif op == "cut-head":
            toks = toks[i:]
        names.append(op)
    return "".join(toks), "+".join(names)


def random_string(rng, n):
    return "".join(rng.choice(ALPHABET) for _ in range(n))


def cp_boundaries(s):
    return list(range(len(s) + 1))


_COMB = re.compile(r"[\u0300-\u036f\u200d\ufe0f\u20d0-\u20ff\U0001f3fb-\U0001f3ff]")


def prefix_positions(s, rng, n, cap):
    """Positions (in code points) at which to cut: mostly anywhere (code points ~ graphemes for these files), always including
    positions just before a combining mark / ZWJ / variation selector (inside a grapheme cluster) and inside CRLF."""
    lim = min(len(s), cap)
    inside = [m.start() for m in _COMB.finditer(s[:lim])] + [m.start() + 1 for m in re.finditer("\r\n", s[:lim])]
    pos = set(rng.sample(inside, min(len(inside), max(2, n // 6))))
    # line starts / ends and random interior points
    nl = [m.start() for m in re.finditer("\n", s[:lim])]
    for p in rng.sample(nl, min(len(nl), n // 4)):
        pos.add(p); pos.add(p + 1)
    while len(pos) < n and len(pos) < lim:
        pos.add(rng.randint(1, lim))
    return sorted(pos)[:n + 8]


def splice_unicode(s, rng):
    toks = tokens(s)
    for _ in range(rng.randint(1, 3)):
        i = rng.randrange(len(toks) + 1)
        toks.insert(i, rng.choice(EMOJI + COMBINING + BOX + CONTROL[:4] + ["\u00a0", "é", "名"]))
    return "".join(toks)


# --------------------------------------------------------------------------- generate
def generate(tier, rng):
    global STALL
    quick = tier == "quick"
    STALL = 45.0 if quick else 1800.0     # thorough parses whole error-heavy files (tests/math.mec needs minutes in the dev profile)
    files = mec_files()
    isrc = interpreter_sources()
    seen = set()

    def emit(text, **tags):
        if tags.get("stream") not in ("nest", "mec-whole", "mec-prefix", "fence", "chain"):
            text = cap_nesting(text)
        if text in seen:
            return None
        seen.add(text)
        return case(text, **tags)

    out = []
    def add(c):
        if c is not None:
            out.append(c)

    # (0) fixed small witnesses and corner cases
    fixed = ["", "\n", "\r", "\r\n", " ", "\t", "x", "x := 1", "x := 1\n", "x := 1\r\n", "x := 1\r", "1 +", "(", ")", "[", "]", "{", "}", "<", ">", "|", "~",
             "`", "-", '"', "'", "#", ":", ";", "=", ":=", "x :=", "x := [1 2", "x := [1 2; 3", "x := {1, 2", 'x := "abc', "x = = 3", "f(x", "f(x, ", "x[1", "x[1,", "x.y.", "x := 1 +\ny = = 3\n\"abc",
             "a\x01b := ((", "é\u0301 := 👨‍👩‍👧 + ├└│", "x := 1\n\n\n", "\n\n\nx := ", "x := 1;;; y := 2", "-- comment", "-- comment\n(", "```mech\nx := (\n```\n", "```mech\nx := 1\n", "```\n",
             "# Title\n\n## Sub\n\n  x := [1 2\n\nparagraph ( text\n", "| a | b |\n|---|---|\n| 1 |", "| x<u8> y |\n| 1", "#Counter(n<u64>) => <u64>\n  ├ :Count(n<u64>)\n  └ :Done(n<u64>", "╭◉╮", "╭◉", "⸢", "⸢ x := 1", "⸢⸢", "(˙◯˙", "x := 0x", "x := 1e", "x := 1.", "x := 5u", "x<", "x<u8", "x<[u8]:2,", "x<u8> :=",
             "x := 1\x00", "\x00", "\ufeffx := 1", "x := \u202e1", "👨‍👩‍👧", "🇨🇦 := 1", "e\u0301", "\u0301", "\u0301\u0301 := 1", "x\u2028y := 1", "x := 1 \u0085 y := 2"]
    # inline Mech code in prose with a syntax error inside it (the error is recovered inside the paragraph: it must still be
    # reported, and the tree must not silently lack the text)
    fixed += ["Hello {{qzx := }} world", "- item {{qzx := }} more\n- second\n", "Total {{(qzx + 1}} done", "A {{x := [1 2}} b\n\nnext paragraph",
              "1. one {{y<u8 := 1}} two\n2. three", "> quote {{z := 0x}} end", "text {{a := {1, 2}} tail {{b := 2}} end", "Para {{f(x}} and {{g(}}.\n"]
    # Mechdown inline elements with empty or missing parts (hyperlinks, images, footnote references, inline code)
    fixed += ["See [the docs]() for details.\n", "[a]()", "[a](", "[](x)", "[]()", "![img]()", "![](x.png)", "- item [a]()\n- other\n",
              "| h |\n|---|\n| [a]() |\n", "text [^1] more\n\n[^1]: \n", "``", "` `", "**", "****", "__", "~~ ~~", "{{}}", "{{ }}", "$$", "$$ $$",
              "> \n", "(i)> \n", "[x](y)[z]()", "[[a]()](b)"]
    for t in fixed:
        add(emit(t, stream="fixed"))
    # all one- and two-character strings over a compact alphabet
    small = list("()[]{}<>|:=~#`\"';,._-+*/^!?@$%&1aA \n\t") + ["⸢", "├", "└", "│", "😀", "é", "\u0301", "\r", "✓", "⊕"]
    for a in small:
        for b in ([""] + (small if not quick else rng.sample(small, 12))):
            add(emit(a + b, stream="short"))

    # (1) random token strings
    n_alpha = 700 if quick else 6000
    for _ in range(n_alpha):
        n = rng.choice([1, 2, 3, 4, 5, 6, 8, 10, 12, 16, 24, 40])
        add(emit(random_string(rng, n), stream="alphabet", ntok=n))

    # (2) mutated programs
    pool = list(isrc) + code_lines(files, rng, 400 if quick else 4000)
    n_mut = 900 if quick else 8000
    if pool:
        for i in range(n_mut):
            s = pool[i % len(pool)] if i < len(pool) and not quick else rng.choice(pool)
            if len(s) > 700:
                s = s[:700]
            m, how = mutate(s, rng)
            add(emit(m, stream="mutated", how=how.split("+")[0]))
        # the unmutated sources themselves (they must parse: tree or report, no panic)
        for s in (rng.sample(isrc, min(len(isrc), 150)) if quick else isrc):
            add(emit(s, stream="valid-source"))

    # (4) valid programs with unicode spliced in
    if pool:
        for _ in range(150 if quick else 1500):
            s = rng.choice(pool)[:400]
            add(emit(splice_unicode(s, rng), stream="unicode-splice"))

    # (3) .mec files: whole and prefixes
    cap_whole = 2500 if quick else 20000
    whole = [p for p in files if os.path.getsize(p) <= cap_whole]
    # quick: a deterministic sample of the small files, thorough: all
    if quick:
        whole = rng.sample(whole, min(len(whole), 40))
    for p in whole:
        t = read_text(p)
        if t is not None:
            add(emit(t, stream="mec-whole", file=os.path.relpath(p, REPO)))
    pf = files if not quick else [p for p in [
        "docs/reference/set.mec", "docs/reference/number.mec", "examples/working/bubble-sort.mec", "tests/logic.mec",
        "mika/mika.mec", "docs/reference/state-machine.mec"] if True]
    for p in pf:
        p = p if os.path.isabs(p) else os.path.join(REPO, p)
        t = read_text(p)
        if not t:
            continue
        npre, cap = (60, 2500) if quick else (40, 4000)
        for k in prefix_positions(t, rng, npre, cap):
            add(emit(t[:k], stream="mec-prefix", file=os.path.relpath(p, REPO)))

    # (8) long runs of prefix operators / kind brackets (recursion depth = run length; >= ~450-900 overflows the stack: finding
    #     stack-overflow-prefix-run) and long left-recursive chains (iterative: fine)
    for d in (50, 200):
        add(emit("x := " + "-" * d + "1", stream="prefix-run", run=d))
        add(emit("x := " + "!" * d + "true", stream="prefix-run", run=d))
        add(emit("x" + "<" * d, stream="prefix-run", run=d))
    add(emit("x := " + "-" * 1500 + "1", stream="prefix-run", run=1500))
    add(emit("x" + "<" * 900, stream="prefix-run", run=900))
    if not quick:
        add(emit("x := " + "!" * 1500 + "true", stream="prefix-run", run=1500))
        add(emit("x := " + "-!" * 800 + "1", stream="prefix-run", run=1600))
        add(emit("-" * 1500, stream="prefix-run", run=1500))
    for d in ((100,) if quick else (100, 1000)):
        add(emit("x := 1" + " + 1" * d, stream="chain", n=d))
        add(emit("x := a" + ".b" * d, stream="chain", n=d))
        add(emit("x" + "[1]" * d, stream="chain", n=d))
        add(emit("> " * d + "q", stream="chain", n=d))
        add(emit("hello " + "(" * d + " world", stream="chain", n=d))
        add(emit("x := 1\n" * d, stream="chain", n=d))
        add(emit("\n" * d, stream="chain", n=d))
        add(emit("a" * (10 * d), stream="chain", n=d))

    # (7) every code-point prefix (cuts inside grapheme clusters included) of unicode-rich sources
    rich = ["é\u0301x := 👨\u200d👩\u200d👧 + 1\r\ny\u0303 := \"e\u0301🇨🇦\" -- ❤\ufe0f\n├ a\n└ b\n",
            "x := [1 2 3] -- 👍🏽\n名前 := \"값\"\n#️⃣ := ✓\n",
            "# Títle\u0301\n\npara 🧑\u200d🚀 text\u0308\u0301 (a\u20dd)\r\n\r\n  Δ := √4 ⊕ π\n",
            "| x<u8> é |\n| 1 \"🇨🇦\" |\n", "╭◉╮ ⸢ hé\u0301llo 😀 ⸢\n"]
    for r in (rich if not quick else rich[:3]):
        for k in range(1, len(r) + 1):
            add(emit(r[:k], stream="cp-prefix"))

    # (6) fenced code blocks: mech blocks with good / broken code (0:0-0:0 range before fix 6eb0df4), ebnf blocks (todo!() before it)
    fence_tags = ["mech", "mec", "🤖", "mech:disabled", "mech:hidden", "mech:ns1", "mech {output: false}", "python", "", "ebnf", "eq", "mermaid", "mech:" ]
    bodies = ["x := 1", "x := 1\ny := x + 1", "<=", "x := (", ")", "x := [1 2", "a := b ;", "foo", "", "x = = 1", "-- c", "x := \"a", "1 +", "⸢", "y := [1 2; 3]"]
    nf = 0
    for ft in fence_tags:
        for b in bodies:
            for sig in ("```", "~~~"):
                if quick and rng.random() < 0.55:
                    continue
                pre = rng.choice(["", "x := 1\n", "# T\n\npara\n\n", "\n"])
                post = rng.choice(["", "\n", "\ny := 2\n", "\n\ntext (\n"])
                close = rng.choice([sig, sig, sig, "", sig[:2]])
                add(emit(pre + sig + ft + "\n" + b + "\n" + close + post, stream="fence", tag=ft.split(":")[0].split(" ")[0] or "none"))
                nf += 1

    # (5) nesting ladders (cost grows ~4x per level; deep ones exceed the budget: finding exp-nesting) and stray mika closes
    for (o, c) in (("(", ")"), ("[", "]"), ("{", "}")):
        for d in (1, 2, 3) + (() if quick else (4,)):
            add(emit("x := " + o * d + "1" + c * d, stream="nest", depth=d))
            add(emit("x := " + o * d + "1", stream="nest", depth=d))
    add(emit("x := " + "(" * 14 + "1" + ")" * 14, stream="nest", depth=14))
    if not quick:
        add(emit("x := " + "[" * 12 + "1" + "]" * 12, stream="nest", depth=12))
        add(emit("f(g(h(i(j(k(l(m(n(o(p(1)))))))))))", stream="nest", depth=11))
    # inline equations: "$$…$$"; the empty one panicked before fix 35b608b
    for t in ["$$x$$", "a $$ x^2 $$ b", "$$", "$$$", "$$$$", "a $$$$ b", "$$ $$", "$$x$$$$", "$$\n$$", "$$x", "x := 1 -- $$$$"]:
        add(emit(t, stream="equation"))
    add(emit("⸥", stream="mika-close"))
    add(emit("x := 1\n⸥\n", stream="mika-close"))
    add(emit('x := "⸥"', stream="mika-close"))
    add(emit("-- ⸥", stream="mika-close"))
    if not quick:
        add(emit("⸢ hello ⸥", stream="mika-close"))
        add(emit("╭◉╮ ⸢ hello ⸥\n", stream="mika-close"))
        add(emit("paragraph with ⸥ inside\n", stream="mika-close"))
        add(emit("⸢ a ⸥ ⸥", stream="mika-close"))

    # (9) inputs aimed at the sites the progress analysis talks about: the two nom guards that may fire (a spurious error is
    #     fine, a hang / abort is not), the hand-written loops, and whatever site the analysis flagged on this run
    for t in targeted_inputs(_DIAG.get("flagged_functions", [])):
        add(emit(t, stream="targeted"))

    # interleave so that slow cases are spread over the worker chunks
    rng.shuffle(out)
    for c in out:
        yield c


def shrink(c):
    """Candidates: drop a line, drop a token span, halve."""
    text = c["impl"]["src"]
    cands = []
    lines = text.split("\n")
    if len(lines) > 1:
        for i in range(min(len(lines), 20)):
            cands.append("\n".join(lines[:i] + lines[i + 1:]))
        cands.append("\n".join(lines[:len(lines) // 2]))
        cands.append("\n".join(lines[len(lines) // 2:]))
    toks = tokens(text)
    if 1 < len(toks) <= 200:
        step = max(1, len(toks) // 12)
        for i in range(0, len(toks), step):
            cands.append("".join(toks[:i] + toks[i + step:]))
    elif len(text) > 1:
        cands.append(text[:len(text) // 2]); cands.append(text[len(text) // 2:])
    res = []
    seen = set()
    for t in cands:
        if t != text and t not in seen:
            seen.add(t)
            res.append(case(t, **dict(c.get("tags", {}), shrunk=1)))
    return res


# --------------------------------------------------------------------------- progress analysis of the real grammar
_DIAG = {}
ASSUMED_LOOPS = ["mech_code$loop#1", "section$loop#1"]            # = Model/ProgressInst.v assumed_loops   (diagnostics only)
GUARDS_ALLOWED = ["paragraph$many1#1", "regular_table$separated_list1#1"]     # = guards_allowed
UNKNOWN_EXPECTED = ["code_block", "mika_eye_left", "mika_eye_right", "mika_nose"]

# texts that exercise a construct, by the parser function that implements it (input quality only)
SNIPPETS = {
    "paragraph": ["x {", "hello {", "a { 1 +", "text {{", "p [^", "a $$", "t ![", "x {\n", "para **", "a `b", "q [x](", "w {{ x := "],
    "regular_table": ["| a<u8> |\n| 1 |x", "x := | a<u8> |\n| 1 |)", "| x<u8> y<u8> |\n| 1 2 |\n| 3 4 |x\n", "| a<u8> |\n| 1 |", "| a<u8> |\n| 1 |\n\n\n"],
    "mech_code": ["x := 1;", "x := 1 ;; y", "x := (\n;\n", "1 +\n", "x := 1 -- c", "x := 1\n⸥", "x = = 1; y := 2", "f(x\n"],
    "section": ["a\n\nb\n\n1. x\n---\n", "- a\n  - b\n    - c\n- d\n", "1. a\n2. b\n  1. c\n", "- [x] a\n- [ ] b\n  - [x] c\n", "> q\n\n(i)> info\n", "⸢ hi ⸥\n", "╭◉╮ ⸢ x ⸥"],
    "body": ["⸥", "⸥\n⸥", "x\n⸥\ny", "  \n\n ⸥"],
    "pattern_array": ["x := [1 2]?\n | [a, b] => 1\n | [a | r] => 2.", "f(x<[u8]>) => <u8>\n | [a, ...] => 1\n | [] => 0.", "x ? | [a, , b] => 1", "x ? | [a | ] => 1", "x ? | [... ...] => 1"],
    "title_front_matter": ["T\n===\nauthor: me\ndate: now\n===\n", "T\n=\nhero: ![a](b)\n=\n", "T\n===\nauthor:\n===\n", "T\n===\nauthor me\n===\n", "T\n===\nk: v"],
    "unordered_list": ["- a\n- b\n", "- a\n  - b\n - c\n", "-\n", "- \n", "- a\n-- c\n"],
    "ordered_list": ["1. a\n2. b\n", "1. a\n   1. b\n", "1.\n", "1. a\n--\n"],
    "check_list": ["- [x] a\n", "- [ ] a\n  - [x] b\n", "- [x]\n", "- [\n"],
    "skip_till_eol": ["x := (\n", "-- c", "// c\n\n"],
    "skip_till_section_element": ["x := [\n\n\n# t\n", "((\n((\n"],
    "code_block": ["```mech\nx := 1\n```\n", "~~~\nabc\n~~~", "```ebnf\na := \"b\" ;\n```\n", "```mech\n```", "```\n", "```mech {output: false}\nx\n```\n", "~~~mech\nx := (\n```\n~~~\n"],
    "comment": ["-- a {", "-- [x](", "// **", "-- \n"],
    "matrix": ["x := [1 2\n3 4]", "x := [\n1 2;\n]", "x := ┌ ┐\n│ 1 │\n└ ┘", "x := [1, 2; 3,]"],
    "string": ['x := "a\nb"', 'x := """a "" b"""', 'x := "', 'x := """'],
    "set": ["x := {1, 2 3}", "x := {1,}", "x := {x | x <- 1..3}", "x := {x | }"],
    "fsm": ["#f(x<u8>) -> :a\n  :a -> :b\n  :b => 1.", "#f() ->", "#f => <u8>\n  ├ :a\n  └ :b."],
    "function_define": ["f(x<u8>) = y<u8> := y := x + 1.", "f(x<u8>) => <u8>\n | 1 => 2\n | * => 3.", "f(x<u8>) =>", "f() = "],
}


def targeted_inputs(flagged):
    out = []
    keys = ["paragraph", "regular_table", "mech_code", "section", "body"] + [f for f in flagged if f in SNIPPETS]
    for f in flagged:                       # a flagged entry of a function we have no snippet for: use the ones of its callers' family
        base = f.split("$")[0].split("::")[-1]
        for k in SNIPPETS:
            if k in base and k not in keys:
                keys.append(k)
    seen = set()
    for k in keys:
        for t in SNIPPETS.get(k, []):
            for v in (t, t + "\n", t + " ", t + "x", "  " + t, t + t, t[:-1], t + "\n" + t):
                if v not in seen:
                    seen.add(v)
                    out.append(v)
    return out


def pregen():
    """regenerate Gen/ParserGrammar.v from the current parser source; run the UNTRUSTED python mirror of the analysis to
    have readable diagnostics ready (the verdict is Coq's: theorem C09_parser_loops_guarded)."""
    import sys
    sys.path.insert(0, os.path.join(os.path.dirname(os.path.dirname(os.path.abspath(__file__))), "translators"))
    import importlib
    PG = importlib.import_module("parser_grammar")
    A = importlib.import_module("pg_analysis")
    st = PG.regenerate(root=_REPO_ROOT)
    try:
        an = A.Analysis(PG.LAST["grammar"])
        X = PG.LAST["X"]
        where = {}
        for k, m, l, _ in PG.LAST["entries"]:
            where[k] = "src/syntax/src/%s.rs:%d" % (m, l)
        def loc(entry):
            base = entry.split("$more")[0]
            if base in X.rep_sites:
                kind, fn, l, c = X.rep_sites[base]
                return "%s `%s` in %s at line %d col %d" % (where.get(fn, fn), kind, fn, l, c)
            if base in X.loop_sites:
                fn, l, c = X.loop_sites[base]
                return "%s hand-written loop in %s at line %d" % (where.get(fn, fn), fn, l)
            return where.get(entry, entry)
        cycles = an.cycles()
        bad_cycles = [c for c in cycles if not all(x in ASSUMED_LOOPS for x in c)]
        guards = sorted(g.split(":", 1)[1] for g in an.guards_live())
        bad_guards = [g for g in guards if g not in GUARDS_ALLOWED]
        unk_fns = sorted(set(s.split(":")[0] for s in X.unknown_sites))
        diag = dict(
            unexpected_cycles=[dict(entries=c, where=[loc(x) for x in c],
                                    meaning="these entries can call each other before anything is consumed: a loop that may not advance / left recursion")
                               for c in bad_cycles],
            unexpected_live_guards=[dict(site=g, where=loc(g), why_body_may_not_consume=an.why_nullable(g + "$more")[:12] or an.why_nullable(g)[:12],
                                         meaning="nom's guard of this repetition may fire: spurious Err::Error, and the body is a candidate for a missing consuming token")
                                    for g in bad_guards],
            unexpected_unknown_functions=[f for f in unk_fns if f not in UNKNOWN_EXPECTED],
            unknown_sites={k: v for k, v in X.unknown_sites.items()},
            allow_listed=dict(assumed_loops=ASSUMED_LOOPS, guards=GUARDS_ALLOWED, unknown_functions=UNKNOWN_EXPECTED),
            nullable_source_functions=[k for k, _, _, _ in PG.LAST["entries"] if an.nu.get(k)],
        )
        flagged = sorted(set(x.split("$")[0] for c in bad_cycles for x in c) | set(g.split("$")[0] for g in bad_guards))
        diag["flagged_functions"] = flagged
        _DIAG.clear(); _DIAG.update(diag)
        st["mirror_analysis"] = dict(cycles=cycles, live_guards=guards, unexpected=len(bad_cycles) + len(bad_guards) + len(diag["unexpected_unknown_functions"]))
    except Exception as ex:                   # diagnostics only
        st["mirror_analysis"] = "unavailable: %r" % (ex,)
    return st


def check(tier, seed, replay=None):
    """the standard flow, plus: when the proof step fails, the sites found by the (mirror of the) analysis are written into the
    replay file and printed; thorough tier: the mutation self-test of the obligation (tools/c09_selftest.py)."""
    import glob, json, sys, time
    from vlib import core, flow
    class _Self(object):                  # this module, as the plugin object of the standard flow (without `check`)
        def __getattr__(self, k):
            if k == "check" or k not in globals():
                raise AttributeError(k)
            return globals()[k]
    me = _Self()
    t0 = time.time()
    rc = flow.standard_check(me, tier, seed, replay)
    evp = os.path.join(core.EVID, PROP + ".json")
    try:
        ev = json.load(open(evp))
    except Exception:
        return rc
    failed = ev.get("coverage", {}).get("proof_step_failed")
    if _DIAG:
        ev["coverage"]["progress_analysis"] = {k: _DIAG[k] for k in ("unexpected_cycles", "unexpected_live_guards", "unexpected_unknown_functions", "allow_listed", "flagged_functions")}
    if failed and _DIAG and not replay:
        unexpected = _DIAG["unexpected_cycles"] or _DIAG["unexpected_live_guards"] or _DIAG["unexpected_unknown_functions"]
        for rp in sorted(glob.glob(os.path.join(core.REPLAYS, PROP + "-*.json")), key=os.path.getmtime)[-6:]:
            if os.path.getmtime(rp) < t0:
                continue
            try:
                r = json.load(open(rp))
            except Exception:
                continue
            if r.get("no_failing_input_found"):
                r["progress_analysis"] = dict(_DIAG, note="UNTRUSTED python mirror of Model/Progress.v, for orientation; the failing theorem is in `broken`")
                json.dump(r, open(rp, "w"), indent=1, sort_keys=True)
        if unexpected:
            core.log("[C09] progress analysis (mirror) — sites that are not allow-listed:")
            for c in _DIAG["unexpected_cycles"]:
                core.log("[C09]   no-progress cycle: %s" % " -> ".join(c["entries"]))
                for w in c["where"]:
                    core.log("[C09]       %s" % w)
            for g in _DIAG["unexpected_live_guards"]:
                core.log("[C09]   repetition body may not consume: %s  (%s)" % (g["site"], g["where"]))
                for w in g["why_body_may_not_consume"]:
                    core.log("[C09]       %s" % w)
            for f in _DIAG["unexpected_unknown_functions"]:
                core.log("[C09]   unknown node in function %s: %s" % (f, [v for k, v in _DIAG["unknown_sites"].items() if k.startswith(f + ":")][:2]))
    if tier == "thorough" and not replay:
        sys.path.insert(0, os.path.join(core.ROOT, "tools"))
        import importlib
        ST = importlib.import_module("c09_selftest")
        ok, results = ST.run(log=lambda line: core.log("[C09] selftest " + line))
        ev["coverage"]["selftest"] = dict(ok=ok, mutants=results)
        undetected = [r["mutant"] for r in results if r.get("detected") is False and r["mutant"] != "baseline"]
        dirty = [r for r in results if r["mutant"] == "baseline" and not r.get("clean")]
        if undetected or dirty:
            path = core.write_replay(PROP, dict(property=PROP, no_failing_input_found=True, seed=seed, tier=tier,
                                                broken=dict(kind="selftest", what="selftest:progress-obligation does not detect %s" % (undetected or "a clean baseline"), results=results)))
            print("VIOLATION property=%s replay=%s no-failing-input-found" % (PROP, path))
            ev["violations"] = ev.get("violations", 0) + 1
            rc = 1
    tmp = evp + ".tmp"
    json.dump(ev, open(tmp, "w"), indent=1, sort_keys=True)
    os.replace(tmp, evp)
    return rc
