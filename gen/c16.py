"""C16 — function and match arms: the first arm that matches is the one that runs.

Every case is an abstract program (optional enum declaration, function definitions with arm lists,
global definitions, one main expression: a call or a match expression).  The SAME tree is
 * rendered to Mech source for the real interpreter (mvh prog), and
 * written as the case S-expression, from which the extracted Coq model (Model/Fun.v) computes the
   expected outcome on its own (first arm in source order whose pattern matches and whose guard is true).
"""
import itertools
from vlib import mechsrc as ms
from vlib.core import sx

PROP = "C16"
MODE = "prog"
STALL = 300.0
RULE = ("arm lists drawn from pattern pools (literal, variable, wildcard, tuple with literal / repeated-variable / wildcard "
        "elements, array [x] [h|t] [h ...] [... l] [a ... b] [a, b | r] [* ... t] [* ... m l] [] and literal heads, enum "
        "variants with and without payload; guards in match expressions, also on the wildcard arm) in every order: all "
        "ordered selections of 1..3 arms of each pool (fn-enum, match-enum: 1..4), the wildcard arm inserted at every "
        "position of match expressions (thorough tier: all of them, ~68000 cases; quick tier: all 1-arm and a seeded sample "
        "of the 2-4-arm lists), each applied to all small arguments (integers 0..3, pairs over 0..2, 9 vectors of length "
        "1..4, the 6 enum values, both bools), kinds rotating over the 10 integer kinds; recursive definitions: factorial "
        "for EVERY n up to one past the largest that fits, for all 10 kinds; power (bases 0,1,2,3,10, exponents incl. the "
        "largest that fits and one more), naive fibonacci (n <= 17 or first overflow), accumulator fibonacci up to the first "
        "overflow, gcd by remainder (boundary, Fibonacci-worst-case and random pairs), gcd by subtraction through a helper "
        "(mutual recursion), countdown to 50000 (thorough: 1000000), non-tail sum up to depth 1000; broadcasting of scalar "
        "functions over 6 matrix shapes (total, partial, kind-changing, recursive, bool); wrong arity 0..4 against 1..3 "
        "parameters; missing function; declared parameter NAMES read in arm bodies while the pattern position is `*`, binds "
        "another name, binds the same name (shadowing, also crosswise) or the arm is the shorthand arm `| expr.`: all ordered "
        "selections of 1..3 arms of a 6-arm one-parameter and a 10-arm two-parameter pool over all small arguments, and 19 "
        "recursive families (accumulator sum in 5 spellings up to the largest fitting n <= 2000 and one past it, gcd, "
        "accumulator fibonacci up to the first overflow, argument swap, power, factorial / sum reading the name after the "
        "nested call returns, a helper whose parameters carry the caller's names crosswise, mutual recursion).  non-trivial = distinct case whose specified outcome is a value")
ASSUMPTIONS = [
    "arguments and literals are typed literals of exactly the declared kinds, so no implicit conversion takes part "
    "(a literal pattern of another kind than the argument, e.g. `0` against a u8, is outside the family)",
    "integer literals are kept below 2^53 (larger ones are not read exactly by the parser; results may be larger)",
    "integer arithmetic that leaves the kind's range (a panic in the dev profile) is advisory",
    "arms of one match expression return values of one kind (MatchArmKindMismatch is a typing rule, advisory)",
    "error kinds/messages are not compared (one Err token); a broadcast result is compared element by element "
    "(kind and value) and by shape, whether it is stored as a typed matrix or as a matrix of values",
    "non-tail recursion deeper than 64 activations may exhaust the interpreter's native stack (known finding "
    "deep-recursion-abort); up to 64 the value is binding",
]
TRIVIAL_TAGS = ["error"]

INT_KINDS = ms.INT_KINDS

# ---------------------------------------------------------------- tree constructors
def I(k, z): return ["i", k, z]
def B(b): return ["b", 1 if b else 0]
def T(*vs): return ["t"] + list(vs)
def M(r, c, els): return ["m", r, c, list(els)]
def Row(k, zs): return M(1, len(zs), [I(k, z) for z in zs])
def En(tag, payload=None): return ["e", tag] if payload is None else ["e", tag, payload]

WILD = "_"
SHORT = "_short"      # the shorthand arm `| expr.` of a function: rendered without pattern, it IS a wildcard arm
def PV(x): return ["v", x]
def PL(v): return ["l", v]
def PT(*ps): return ["t"] + list(ps)
def PA(pre, sp, suf): return ["a", list(pre), sp, list(suf)]
def PE(tag, p=None): return ["e", tag] if p is None else ["e", tag, p]
ANY = "any"
NONE = "none"
def BIND(p): return ["bind", p]

def val(v): return ["val", v]
def var(x): return ["var", x]
def op(o, a, b): return ["op", o, a, b]
def call(f, *args): return ["call", f] + list(args)
def tup(*es): return ["tup"] + list(es)
def match(src, arms): return ["match", src] + list(arms)
def arm(p, g, b): return ["arm", p, "-" if g is None else g, b]
def fn(name, params, out, arms): return ["fn", name, [list(p) for p in params], out] + list(arms)
def kint(k): return ["int", k]
def kvec(k): return ["vec", k]

def num(k, z): return val(I(k, z))

# ---------------------------------------------------------------- rendering to Mech source
OPS = dict(add="+", sub="-", mul="*", div="/", mod="%", lt="<", le="<=", gt=">", ge=">=", eq="==", ne="!=")
OPS["and"] = "&&"
OPS["or"] = "||"

def r_value(v):
    t = v[0]
    if t == "i":
        return "%d<%s>" % (v[2], v[1])
    if t == "b":
        return "true" if v[1] else "false"
    if t == "t":
        return "(" + ", ".join(r_value(x) for x in v[1:]) + ")"
    if t == "m":
        r, c, els = v[1], v[2], v[3]
        assert r * c == len(els) and len(els) > 0
        return "[" + "; ".join(" ".join(r_value(els[j * r + i]) for j in range(c)) for i in range(r)) + "]"
    if t == "e":
        return ":" + v[1] + ("(%s)" % r_value(v[2]) if len(v) > 2 else "")
    raise ValueError(v)

def r_pat(p):
    if p == WILD:
        return "*"
    t = p[0]
    if t == "v":
        return p[1]
    if t == "l":
        return r_value(p[1])
    if t == "t":
        return "(" + ", ".join(r_pat(x) for x in p[1:]) + ")"
    if t == "e":
        return ":" + p[1] + ("(%s)" % r_pat(p[2]) if len(p) > 2 else "")
    if t == "a":
        pre, sp, suf = p[1], p[2], p[3]
        if sp == NONE:
            assert not suf
            return "[" + " ".join(r_pat(x) for x in pre) + "]"
        if sp == ANY:
            return "[" + " ".join([r_pat(x) for x in pre] + ["..."] + [r_pat(x) for x in suf]) + "]"
        b = sp[1]
        if not suf:
            if pre == [WILD]:
                return "[* ... %s]" % r_pat(b)
            return "[" + ", ".join(r_pat(x) for x in pre) + " | " + r_pat(b) + "]"
        assert pre == [WILD]
        return "[* ... " + " ".join([r_pat(b)] + [r_pat(x) for x in suf]) + "]"
    raise ValueError(p)

def r_expr(e, top=True):
    t = e[0]
    if t == "val":
        return r_value(e[1])
    if t == "var":
        return e[1]
    if t == "op":
        s = "%s %s %s" % (r_expr(e[2], False), OPS[e[1]], r_expr(e[3], False))
        return s if top else "(" + s + ")"
    if t == "tup":
        return "(" + ", ".join(r_expr(x) for x in e[1:]) + ")"
    if t == "call":
        return "%s(%s)" % (e[1], ", ".join(r_expr(x) for x in e[2:]))
    if t == "match":
        arms = []
        for a in e[2:]:
            g = "" if a[2] == "-" else ", " + r_expr(a[2])
            arms.append("  | %s%s => %s" % (r_pat(a[1]), g, r_expr(a[3])))
        return r_expr(e[1]) + "?\n" + "\n".join(arms) + "."
    raise ValueError(e)

def r_kind(k, enum_name="en"):
    if k == "bool":
        return "bool"
    if k == "enum":
        return enum_name
    if k[0] == "int":
        return k[1]
    if k[0] == "vec":
        return "[%s]" % k[1]
    raise ValueError(k)

def r_fn(f):
    name, params, out, arms = f[1], f[2], f[3], f[4:]
    head = "%s(%s) => <%s>" % (name, ", ".join("%s<%s>" % (p, r_kind(k)) for p, k in params), r_kind(out))
    lines = ["  | %s" % r_expr(a[3]) if a[1] == SHORT else "  | %s => %s" % (r_pat(a[1]), r_expr(a[3])) for a in arms]
    return head + "\n" + "\n".join(lines) + "."

def sx_fn(f):
    return f[:4] + [[a[0], WILD] + a[2:] if a[1] == SHORT else a for a in f[4:]]

def r_global(name, v, enum_vals):
    if v[0] == "e":
        return "%s<en> := %s" % (name, r_value(v))
    if v[0] == "m":
        k = v[3][0][1]
        return "%s<[%s]:%d,%d> := %s" % (name, k, v[1], v[2], "[" + "; ".join(
            " ".join(str(v[3][j * v[1] + i][2]) for j in range(v[2])) for i in range(v[1])) + "]")
    return "%s := %s" % (name, r_value(v))

def r_enum(variants):
    return "<en> := " + " | ".join(":" + t + ("<%s>" % pk if pk else "") for t, pk in variants)

def make_case(tags, defs, main, globs=(), enum=(), fuel=4000):
    """enum: list of (tag, payload kind or None)"""
    parts = []
    if enum:
        parts.append(r_enum(enum))
    for f in defs:
        parts.append(r_fn(f))
    for (n, v) in globs:
        parts.append(r_global(n, v, enum))
    parts.append(r_expr(main))
    src = "\n\n".join(parts)
    case = ["c16",
            ["enum"] + [[t, 1 if pk else 0] for t, pk in enum],
            ["defs"] + [sx_fn(f) for f in defs],
            ["globals"] + [[n, v] for n, v in globs],
            ["main", main],
            ["fuel", fuel]]
    return dict(sx=sx(case), impl=dict(src=src), tags=tags,
                ast=dict(defs=list(defs), main=main, globs=list(globs), enum=list(enum), fuel=fuel))

# ---------------------------------------------------------------- helpers
def ordered_subsets(pool, maxk):
    for k in range(1, maxk + 1):
        for t in itertools.permutations(range(len(pool)), k):
            yield [pool[i] for i in t]

def pick(rng, items, n):
    items = list(items)
    if len(items) <= n:
        return items
    return rng.sample(items, n)

class Kinds:
    def __init__(self):
        self.i = 0
    def next(self):
        k = INT_KINDS[self.i % len(INT_KINDS)]
        self.i += 1
        return k

def kmax(k):
    return ms.kind_range(k)[1]

# ---------------------------------------------------------------- streams
def stream_fn1(tier, rng, kinds):
    """single-argument integer function: literal / variable / wildcard arms in every order"""
    def pool(k):
        return [arm(PL(I(k, 0)), None, num(k, 100)),
                arm(PL(I(k, 1)), None, num(k, 101)),
                arm(PV("n"), None, op("add", var("n"), num(k, 10))),
                arm(WILD, None, num(k, 7)),
                arm(PL(I(k, 2)), None, num(k, 102)),
                arm(PV("m"), None, op("mul", var("m"), num(k, 2)))]
    lists = list(ordered_subsets(list(range(6)), 3)) + [list(p) for p in itertools.permutations([0, 1, 2, 3])]
    if tier == "quick":
        lists = [l for l in lists if len(l) <= 2] + pick(rng, [l for l in lists if len(l) > 2], 20)
    for l in lists:
        k = kinds.next()
        arms = [pool(k)[i] for i in l]
        for a in range(4):
            yield make_case(dict(stream="fn1", kind=k, narms=len(l)), [fn("f", [("x", kint(k))], kint(k), arms)],
                            call("f", num(k, a)))

def stream_fn2(tier, rng, kinds):
    """two-argument function: tuple patterns (literals, repeated variable, wildcard element) and the bare wildcard"""
    def pool(k):
        return [arm(PT(PL(I(k, 0)), PV("y")), None, op("add", var("y"), num(k, 20))),
                arm(PT(PV("x"), PL(I(k, 0))), None, op("add", var("x"), num(k, 30))),
                arm(PT(PV("x"), PV("x")), None, num(k, 40)),
                arm(PT(PV("x"), PV("y")), None, op("add", op("mul", var("x"), num(k, 3)), var("y"))),
                arm(PT(WILD, PL(I(k, 1))), None, num(k, 50)),
                arm(WILD, None, num(k, 60)),
                arm(PT(PL(I(k, 1)), WILD), None, num(k, 70))]
    lists = list(ordered_subsets(list(range(7)), 3))
    if tier == "quick":
        lists = [l for l in lists if len(l) == 1] + pick(rng, [l for l in lists if len(l) == 2], 22) + \
                pick(rng, [l for l in lists if len(l) > 2], 25)
    for l in lists:
        k = kinds.next()
        arms = [pool(k)[i] for i in l]
        pairs = [(a, b) for a in range(3) for b in range(3)]
        if tier == "quick" and len(l) > 2:
            pairs = pick(rng, pairs, 4)
        for (a, b) in pairs:
            yield make_case(dict(stream="fn2", kind=k, narms=len(l)),
                            [fn("g", [("a", kint(k)), ("b", kint(k))], kint(k), arms)],
                            call("g", num(k, a), num(k, b)))

VECS = [[1], [2], [1, 2], [2, 1], [1, 1], [1, 2, 3], [3, 1, 1], [1, 1, 2, 3], [2, 3, 1, 1]]

def arr_pool_scalar(k):
    return [arm(PA([PV("x")], NONE, []), None, op("add", var("x"), num(k, 100))),
            arm(PA([PV("h")], BIND(PV("t")), []), None, var("h")),
            arm(PA([PV("h")], ANY, []), None, op("add", var("h"), num(k, 50))),
            arm(PA([], ANY, [PV("l")]), None, op("add", var("l"), num(k, 60))),
            arm(PA([PV("a")], ANY, [PV("b")]), None, op("add", op("mul", var("a"), num(k, 10)), var("b"))),
            arm(PA([PV("a"), PV("b")], BIND(PV("r")), []), None, op("add", op("add", var("a"), var("b")), num(k, 70))),
            arm(PA([PL(I(k, 1))], ANY, []), None, num(k, 80)),
            arm(WILD, None, num(k, 9)),
            arm(PA([PV("a"), PV("a")], BIND(PV("r")), []), None, num(k, 90)),
            arm(PA([], NONE, []), None, num(k, 11)),
            arm(PA([PV("a"), PV("b")], NONE, []), None, op("add", var("a"), var("b")))]

def arr_pool_vec(k):
    return [arm(PA([PV("h")], BIND(PV("t")), []), None, var("t")),
            arm(PA([WILD], BIND(PV("t")), []), None, var("t")),
            arm(PA([WILD], BIND(PV("m")), [PV("l")]), None, var("m")),
            arm(PA([PV("a"), PV("b")], BIND(PV("r")), []), None, var("r")),
            arm(WILD, None, val(Row(k, [9]))),
            arm(PA([PL(I(k, 1))], BIND(PV("t")), []), None, var("t"))]

def stream_fnarr(tier, rng, kinds):
    for poolf, out, name in ((arr_pool_scalar, kint, "scalar"), (arr_pool_vec, kvec, "vec")):
        n = len(poolf("u8"))
        lists = list(ordered_subsets(list(range(n)), 3))
        if tier == "quick":
            lists = pick(rng, [l for l in lists if len(l) == 1], 11) + pick(rng, [l for l in lists if len(l) == 2], 25) + \
                    pick(rng, [l for l in lists if len(l) == 3], 14)
        for l in lists:
            k = kinds.next()
            arms = [poolf(k)[i] for i in l]
            vecs = VECS if tier != "quick" else pick(rng, VECS, 4)
            for zs in vecs:
                yield make_case(dict(stream="fnarr-" + name, kind=k, narms=len(l)),
                                [fn("f", [("xs", kvec(k))], out(k), arms)], call("f", val(Row(k, zs))))

def enum_decl(k):
    return [("va", None), ("vb", k), ("vc", None)]

def enum_values(k):
    return [En("va"), En("vb", I(k, 0)), En("vb", I(k, 1)), En("vb", I(k, 2)), En("vb", I(k, 3)), En("vc")]

def stream_fnenum(tier, rng, kinds):
    def pool(k):
        return [arm(PE("va"), None, num(k, 1)),
                arm(PE("vb", PV("x")), None, op("add", var("x"), num(k, 10))),
                arm(PE("vb", PL(I(k, 2))), None, num(k, 20)),
                arm(PE("vc"), None, num(k, 3)),
                arm(WILD, None, num(k, 9)),
                arm(PV("w"), None, num(k, 8))]
    lists = list(ordered_subsets(list(range(6)), 4))
    if tier == "quick":
        lists = [l for l in lists if len(l) <= 2] + pick(rng, [l for l in lists if len(l) == 3], 25) + \
                pick(rng, [l for l in lists if len(l) == 4], 25)
    for l in lists:
        k = kinds.next()
        arms = [pool(k)[i] for i in l]
        vals = enum_values(k) if tier != "quick" else pick(rng, enum_values(k), 3)
        for v in vals:
            yield make_case(dict(stream="fnenum", kind=k, narms=len(l)),
                            [fn("f", [("v", "enum")], kint(k), arms)], call("f", val(v)), enum=enum_decl(k))

def with_wild(lists, wild_arm, also_without):
    """insert the wildcard arm at every position of every list (and optionally keep the list without it)"""
    for l in lists:
        for pos in range(len(l) + 1):
            yield l[:pos] + [wild_arm] + l[pos:]
        if also_without(l):
            yield l

def stream_match_int(tier, rng, kinds):
    """match expression on an integer: literal / variable / wildcard arms with guards, every order"""
    def pool(k):
        return [arm(PL(I(k, 1)), None, num(k, 100)),
                arm(PV("n"), op("gt", var("n"), num(k, 1)), op("add", var("n"), num(k, 10))),
                arm(PV("n"), op("lt", var("n"), num(k, 2)), op("add", var("n"), num(k, 20))),
                arm(PV("n"), None, op("add", var("n"), num(k, 30))),
                arm(WILD, op("gt", var("x"), num(k, 2)), num(k, 8)),
                arm(PL(I(k, 0)), None, num(k, 99)),
                arm(PV("m"), None, op("sub", var("m"), num(k, 1))),
                arm(PL(I(k, 2)), op("gt", var("x"), num(k, 5)), num(k, 98))]
    n = 8
    base = list(ordered_subsets(list(range(n)), 3))
    if tier == "quick":
        base = [l for l in base if len(l) == 1] + pick(rng, [l for l in base if len(l) == 2], 12) + \
               pick(rng, [l for l in base if len(l) == 3], 8)
    for l in with_wild(base, -1, lambda l: len(l) == 1):
        k = kinds.next()
        p = pool(k)
        arms = [arm(WILD, None, num(k, 7)) if i == -1 else p[i] for i in l]
        for a in range(4):
            yield make_case(dict(stream="match-int", kind=k, narms=len(l)), [], match(var("x"), arms),
                            globs=[("x", I(k, a))])

def stream_match_tuple(tier, rng, kinds):
    def pool(k):
        ab = PT(PV("a"), PV("b"))
        return [arm(ab, op("gt", var("a"), var("b")), var("a")),
                arm(ab, op("gt", var("b"), var("a")), op("add", var("b"), num(k, 10))),
                arm(PT(PV("a"), PV("a")), None, num(k, 20)),
                arm(PT(PL(I(k, 0)), PV("b")), None, op("add", var("b"), num(k, 30))),
                arm(PT(PV("a"), PV("b"), PV("c")), op("gt", var("a"), num(k, 0)), num(k, 40)),
                arm(PT(PL(I(k, 1)), PV("b")), op("gt", var("b"), num(k, 0)), num(k, 50)),
                arm(PT(PV("a"), PL(I(k, 2))), op("lt", var("a"), num(k, 2)), num(k, 60)),
                arm(ab, None, op("add", op("mul", var("a"), num(k, 3)), var("b")))]
    base = list(ordered_subsets(list(range(8)), 3))
    if tier == "quick":
        base = [l for l in base if len(l) == 1] + pick(rng, [l for l in base if len(l) == 2], 10) + \
               pick(rng, [l for l in base if len(l) == 3], 7)
    for l in with_wild(base, -1, lambda l: len(l) == 1 and l[0] in (0, 7)):
        k = kinds.next()
        p = pool(k)
        arms = [arm(WILD, None, num(k, 7)) if i == -1 else p[i] for i in l]
        pairs = [(a, b) for a in range(3) for b in range(3)]
        if tier == "quick":
            pairs = pick(rng, pairs, 4)
        for (a, b) in pairs:
            yield make_case(dict(stream="match-tuple", kind=k, narms=len(l)), [], match(var("s"), arms),
                            globs=[("s", T(I(k, a), I(k, b)))])
        # a source of another arity: a tuple pattern matches only tuples of exactly its length (a shorter pattern is
        # not a prefix pattern), so the 2-ary arms must all be passed over
        triples = [(1, 0, 2), (0, 2, 1), (2, 2, 2)]
        for (a, b, c) in (pick(rng, triples, 1) if tier == "quick" else triples):
            yield make_case(dict(stream="match-tuple-arity", kind=k, narms=len(l)), [], match(var("s"), arms),
                            globs=[("s", T(I(k, a), I(k, b), I(k, c)))])
    # nested tuples and a scalar source against tuple patterns
    for k in ("u64", "i16"):
        arms = [arm(PT(PV("a"), PT(PV("b"), PV("c"))), op("gt", var("a"), var("b")), var("a")),
                arm(PT(PV("a"), PT(PV("b"), PV("c"))), None, var("c")),
                arm(WILD, None, num(k, 7))]
        for perm in itertools.permutations(arms):
            for (a, b, c) in [(1, 2, 3), (2, 1, 3), (1, 1, 0)]:
                yield make_case(dict(stream="match-tuple-nested", kind=k, narms=3), [], match(var("s"), list(perm)),
                                globs=[("s", T(I(k, a), T(I(k, b), I(k, c))))])
            yield make_case(dict(stream="match-tuple-nested", kind=k, narms=3), [], match(var("s"), list(perm)),
                            globs=[("s", I(k, 5))])

def stream_match_arr(tier, rng, kinds):
    def pool(k):
        return [arm(PA([PV("x")], NONE, []), None, op("add", var("x"), num(k, 100))),
                arm(PA([PV("h")], BIND(PV("t")), []), op("gt", var("h"), num(k, 1)), var("h")),
                arm(PA([PV("h")], ANY, []), None, op("add", var("h"), num(k, 50))),
                arm(PA([], ANY, [PV("l")]), op("gt", var("l"), num(k, 1)), op("add", var("l"), num(k, 60))),
                arm(PA([PV("a")], ANY, [PV("b")]), op("gt", var("a"), var("b")), op("add", op("mul", var("a"), num(k, 10)), var("b"))),
                arm(PA([PV("a"), PV("b")], BIND(PV("r")), []), op("le", var("a"), var("b")), op("add", op("add", var("a"), var("b")), num(k, 70))),
                arm(PA([PL(I(k, 1))], ANY, []), None, num(k, 80)),
                arm(PA([PV("a"), PV("b")], NONE, []), op("ne", var("a"), var("b")), op("add", var("a"), var("b")))]
    base = list(ordered_subsets(list(range(8)), 3))
    if tier == "quick":
        base = [l for l in base if len(l) == 1] + pick(rng, [l for l in base if len(l) == 2], 12) + \
               pick(rng, [l for l in base if len(l) == 3], 8)
    for l in with_wild(base, -1, lambda l: False):
        k = kinds.next()
        p = pool(k)
        arms = [arm(WILD, None, num(k, 7)) if i == -1 else p[i] for i in l]
        vecs = VECS if tier != "quick" else pick(rng, VECS, 3)
        for zs in vecs:
            yield make_case(dict(stream="match-arr", kind=k, narms=len(l)), [], match(var("xs"), arms),
                            globs=[("xs", Row(k, zs))])
    # what head / tail / last / middle are bound to (tuple results; the wildcard arm is not kind-checked)
    for k in INT_KINDS:
        for zs in VECS:
            for pt, body in ((PA([PV("h")], BIND(PV("t")), []), tup(var("h"), var("t"))),
                             (PA([WILD], BIND(PV("t")), []), var("t")),
                             (PA([], ANY, [PV("l")]), var("l")),
                             (PA([WILD], BIND(PV("m")), [PV("l")]), tup(var("m"), var("l"))),
                             (PA([PV("a"), PV("b")], BIND(PV("r")), []), tup(var("a"), var("b"), var("r")))):
                if tier == "quick" and rng.random() < 0.85:
                    continue
                yield make_case(dict(stream="match-arr-parts", kind=k, narms=2), [],
                                match(var("xs"), [arm(pt, None, body), arm(WILD, None, num(k, 7))]),
                                globs=[("xs", Row(k, zs))])
    # a 2-D source: patterns see the column-major element list
    for k in ("u8", "i64"):
        mat = M(2, 3, [I(k, z) for z in (1, 4, 2, 5, 3, 6)])
        for pt, body in ((PA([PV("a"), PV("b")], BIND(PV("r")), []), tup(var("a"), var("b"), var("r"))),
                         (PA([PV("h")], ANY, [PV("l")]), tup(var("h"), var("l")))):
            yield make_case(dict(stream="match-arr-parts", kind=k, narms=2), [],
                            match(var("xs"), [arm(pt, None, body), arm(WILD, None, num(k, 7))]), globs=[("xs", mat)])

def stream_match_enum(tier, rng, kinds):
    def pool(k):
        return [arm(PE("vb", PL(I(k, 2))), None, num(k, 100)),
                arm(PE("vb", PV("x")), op("gt", var("x"), num(k, 1)), op("add", var("x"), num(k, 10))),
                arm(PE("vb", PV("x")), op("lt", var("x"), num(k, 2)), op("add", var("x"), num(k, 20))),
                arm(PE("vb", PV("x")), None, op("add", var("x"), num(k, 30))),
                arm(PE("va"), None, num(k, 1)),
                arm(PE("vc"), None, num(k, 3)),
                arm(PV("w"), None, num(k, 8))]
    base = list(ordered_subsets(list(range(7)), 4))
    if tier == "quick":
        base = [l for l in base if len(l) == 1] + pick(rng, [l for l in base if len(l) == 2], 25) + \
               pick(rng, [l for l in base if len(l) == 3], 25) + pick(rng, [l for l in base if len(l) == 4], 40)
    def gen():
        for l in base:
            yield l                      # no wildcard: accepted only when va, vb, vc are all named
        for l in with_wild([l for l in base if len(l) <= 3], -1, lambda l: False):
            yield l
    ls = list(gen())
    if tier == "quick":
        ls = pick(rng, ls, 100)
    for l in ls:
        k = kinds.next()
        p = pool(k)
        arms = [arm(WILD, None, num(k, 7)) if i == -1 else p[i] for i in l]
        vals = enum_values(k) if tier != "quick" else pick(rng, enum_values(k), 3)
        for v in vals:
            yield make_case(dict(stream="match-enum", kind=k, narms=len(l)), [], match(var("y"), arms),
                            globs=[("y", v)], enum=enum_decl(k))

def stream_match_bool(tier, rng, kinds):
    def pool(k):
        return [arm(PL(B(True)), None, num(k, 1)),
                arm(PL(B(False)), None, num(k, 2)),
                arm(PV("c"), var("c"), num(k, 3)),
                arm(PV("c"), None, num(k, 4))]
    base = list(ordered_subsets(list(range(4)), 3))
    ls = list(with_wild(base, -1, lambda l: False))
    if tier == "quick":
        ls = pick(rng, ls, 80)
    for l in ls:
        k = kinds.next()
        p = pool(k)
        arms = [arm(WILD, None, num(k, 7)) if i == -1 else p[i] for i in l]
        for b in (True, False):
            yield make_case(dict(stream="match-bool", kind=k, narms=len(l)), [], match(var("p"), arms),
                            globs=[("p", B(b))])
    # the same literal patterns in FUNCTION arms (plain equality there)
    for l in ordered_subsets([0, 1, 3], 3):
        k = kinds.next()
        p = pool(k)
        for b in (True, False):
            yield make_case(dict(stream="fn-bool", kind=k, narms=len(l)),
                            [fn("f", [("c", "bool")], kint(k), [arm(p[i][1], None, p[i][3]) for i in l])],
                            call("f", val(B(b))))

# ---- recursion -------------------------------------------------------------------
def d_fact(k):
    return fn("fact", [("x", kint(k))], kint(k),
              [arm(PL(I(k, 0)), None, num(k, 1)),
               arm(PV("n"), None, op("mul", var("n"), call("fact", op("sub", var("n"), num(k, 1)))))])

def d_power(k):
    return fn("power", [("x", kint(k)), ("y", kint(k))], kint(k),
              [arm(PT(WILD, PL(I(k, 0))), None, num(k, 1)),
               arm(PT(PV("x"), PV("y")), None, op("mul", var("x"), call("power", var("x"), op("sub", var("y"), num(k, 1)))))])

def d_fib(k):
    return fn("fib", [("x", kint(k))], kint(k),
              [arm(PL(I(k, 0)), None, num(k, 0)),
               arm(PL(I(k, 1)), None, num(k, 1)),
               arm(PV("n"), None, op("add", call("fib", op("sub", var("n"), num(k, 1))),
                                      call("fib", op("sub", var("n"), num(k, 2)))))])

def d_fibacc(k):
    return [fn("fibt", [("n", kint(k))], kint(k), [arm(PV("n"), None, call("fibacc", var("n"), num(k, 0), num(k, 1)))]),
            fn("fibacc", [("n", kint(k)), ("a", kint(k)), ("b", kint(k))], kint(k),
               [arm(PT(PL(I(k, 0)), PV("a"), WILD), None, var("a")),
                arm(PT(PV("n"), PV("a"), PV("b")), None,
                    call("fibacc", op("sub", var("n"), num(k, 1)), var("b"), op("add", var("a"), var("b"))))])]

def d_gcd(k):
    return fn("gcd", [("a", kint(k)), ("b", kint(k))], kint(k),
              [arm(PT(PV("a"), PL(I(k, 0))), None, var("a")),
               arm(PT(PV("a"), PV("b")), None, call("gcd", var("b"), op("mod", var("a"), var("b"))))])

def d_gcdsub(k):
    return [fn("gs", [("a", kint(k)), ("b", kint(k))], kint(k),
               [arm(PT(PV("a"), PL(I(k, 0))), None, var("a")),
                arm(PT(PL(I(k, 0)), PV("b")), None, var("b")),
                arm(PT(PV("a"), PV("b")), None, call("gh", op("gt", var("a"), var("b")), var("a"), var("b")))]),
            fn("gh", [("c", "bool"), ("a", kint(k)), ("b", kint(k))], kint(k),
               [arm(PT(PL(B(True)), PV("a"), PV("b")), None, call("gs", op("sub", var("a"), var("b")), var("b"))),
                arm(PT(PL(B(False)), PV("a"), PV("b")), None, call("gs", var("a"), op("sub", var("b"), var("a"))))])]

def d_countdown(k):
    return [fn("countdown", [("n", kint(k))], kint(k), [arm(PV("n"), None, call("cdacc", var("n"), num(k, 0)))]),
            fn("cdacc", [("n", kint(k)), ("acc", kint(k))], kint(k),
               [arm(PT(PL(I(k, 0)), PV("acc")), None, var("acc")),
                arm(PT(PV("n"), PV("acc")), None, call("cdacc", op("sub", var("n"), num(k, 1)), op("add", var("acc"), num(k, 1))))])]

def d_sum(k):
    return fn("sumto", [("x", kint(k))], kint(k),
              [arm(PL(I(k, 0)), None, num(k, 0)),
               arm(PV("n"), None, op("add", var("n"), call("sumto", op("sub", var("n"), num(k, 1)))))])

def lit_ok(z):
    return abs(z) < 2 ** 53

def stream_recursion(tier, rng, kinds):
    import math
    for ki, k in enumerate(INT_KINDS):
        hi = kmax(k)
        # quick tier: factorial and countdown for every kind, the rest for alternating halves of the kinds
        half_a = tier != "quick" or ki % 2 == 0
        half_b = tier != "quick" or ki % 2 == 1
        # factorial: every n up to one past the largest that fits
        n = 0
        while True:
            yield make_case(dict(stream="rec-fact", kind=k), [d_fact(k)], call("fact", num(k, n)), fuel=40 * n + 400)
            if math.factorial(n) > hi:
                break
            n += 1
        # power
        for x in () if not half_a else ((0, 1, 2, 3, 10) if tier != "quick" else (0, 1, 2, 3)):
            if x > hi:
                continue
            es = {0, 1, 2, 5}
            if x >= 2:
                e = 0
                while x ** (e + 1) <= hi:
                    e += 1
                es |= {e, e + 1, e - 1}
            else:
                es |= {20, 60}
            for e in sorted(es):
                if 0 <= e <= hi:
                    yield make_case(dict(stream="rec-power", kind=k), [d_power(k)], call("power", num(k, x), num(k, e)),
                                    fuel=40 * e + 400)
        # naive fibonacci
        a, b, n = 0, 1, 0
        while n <= 17 and half_b:
            yield make_case(dict(stream="rec-fib", kind=k), [d_fib(k)], call("fib", num(k, n)), fuel=40 * n + 400)
            if a > hi:
                break
            a, b, n = b, a + b, n + 1
        # accumulator fibonacci (tail recursion): up to the first n whose successor no longer fits
        a, b, n = 0, 1, 0
        ns = []
        while a <= hi and n <= hi:
            ns.append(n)
            a, b, n = b, a + b, n + 1
        sel = sorted(set(ns[:6] + ns[-4:] + [ns[-1] + 1] + ns[::11])) if tier == "quick" else ns + [ns[-1] + 1]
        for n in sel:
            if n <= hi and half_a:
                yield make_case(dict(stream="rec-fibacc", kind=k), d_fibacc(k), call("fibt", num(k, n)), fuel=n + 400)
        # gcd by remainder (tail recursion)
        top = min(hi, 2 ** 53 - 1)
        pairs = [(0, 0), (0, 5), (5, 0), (1, 1), (12, 18), (18, 12), (17, 5), (100, 75), (top, top - 1), (top, 1), (top, top),
                 (89, 55), (55, 89), (top, top // 2)]
        f1, f2 = 1, 1
        while f2 <= top:
            f1, f2 = f2, f1 + f2
        pairs.append((f1, f2 - f1))
        for _ in range(2 if tier == "quick" else 60):
            pairs.append((rng.randint(0, top), rng.randint(0, top)))
            pairs.append((rng.randint(0, min(top, 200)), rng.randint(0, min(top, 200))))
        for (a, b) in pairs:
            if a <= hi and b <= hi and half_b:
                yield make_case(dict(stream="rec-gcd", kind=k), [d_gcd(k)], call("gcd", num(k, a), num(k, b)), fuel=2000)
        # gcd by subtraction through a helper (mutual, not a self tail call: the depth grows)
        for (a, b) in [(0, 0), (4, 6), (6, 4), (9, 3), (7, 7), (12, 18), (1, 20), (25, 10), (1, 70), (90, 1)]:
            if a <= hi and b <= hi and half_a:
                yield make_case(dict(stream="rec-gcdsub", kind=k), d_gcdsub(k), call("gs", num(k, a), num(k, b)), fuel=4000)
        # countdown (tail recursion of any depth)
        ns = {0, 1, 2, 10, 100, 255, 1000, min(hi, 50000)}
        if tier != "quick":
            ns |= {min(hi, 200000), min(hi, 1000000)}
        elif k not in ("u64", "i32", "u16"):
            ns -= {50000}
        for n in sorted(ns):
            if n <= hi:
                yield make_case(dict(stream="rec-countdown", kind=k, depth=n), d_countdown(k), call("countdown", num(k, n)),
                                fuel=n + 400)
        # non-tail sum: the depth of the native stack
        for n in (0, 1, 10, 40, 60, 100, 120, 200, 1000):
            if n * (n + 1) // 2 <= hi or n == 10:
                if n <= hi and half_b:
                    yield make_case(dict(stream="rec-sum", kind=k, depth=n), [d_sum(k)], call("sumto", num(k, n)),
                                    fuel=10 * n + 400)

def stream_broadcast(tier, rng, kinds):
    shapes = [(1, 1), (1, 3), (3, 1), (2, 2), (2, 3), (3, 2)]
    for k in (INT_KINDS if tier != "quick" else INT_KINDS[1::2]):
        inc = fn("inc", [("x", kint(k))], kint(k),
                 [arm(PL(I(k, 1)), None, num(k, 10)), arm(PV("n"), None, op("add", var("n"), num(k, 1)))])
        part = fn("part", [("x", kint(k))], kint(k),
                  [arm(PL(I(k, 1)), None, num(k, 10)), arm(PL(I(k, 2)), None, num(k, 20))])
        isz = fn("isz", [("x", kint(k))], "bool",
                 [arm(PL(I(k, 0)), None, val(B(True))), arm(WILD, None, val(B(False)))])
        two = fn("two", [("a", kint(k)), ("b", kint(k))], kint(k), [arm(PT(PV("a"), PV("b")), None, op("add", var("a"), var("b")))])
        hd = fn("hd", [("xs", kvec(k))], kint(k), [arm(PA([PV("h")], ANY, []), None, var("h")), arm(WILD, None, num(k, 0))])
        for (r, c) in shapes:
            els = [I(k, rng.randint(0, 5)) for _ in range(r * c)]
            m = M(r, c, els)
            yield make_case(dict(stream="bcast", kind=k, shape="%dx%d" % (r, c)), [inc], call("inc", var("mm")), globs=[("mm", m)])
            yield make_case(dict(stream="bcast-partial", kind=k, shape="%dx%d" % (r, c)), [part], call("part", var("mm")), globs=[("mm", m)])
            yield make_case(dict(stream="bcast-kindchange", kind=k, shape="%dx%d" % (r, c)), [isz], call("isz", var("mm")), globs=[("mm", m)])
            yield make_case(dict(stream="bcast-not", kind=k, shape="%dx%d" % (r, c)), [hd], call("hd", var("mm")), globs=[("mm", m)])
        m = M(1, 2, [I(k, 1), I(k, 2)])
        yield make_case(dict(stream="bcast-not", kind=k), [two], call("two", var("mm"), num(k, 1)), globs=[("mm", m)])
        # a recursive function mapped over a matrix
        els = [I(k, z) for z in (0, 1, 2, 3, 4, 5)]
        yield make_case(dict(stream="bcast-rec", kind=k), [d_fact(k)], call("fact", var("mm")), globs=[("mm", M(2, 3, els))], fuel=2000)
    yield make_case(dict(stream="bcast-bool", kind="bool"),
                    [fn("nt", [("c", "bool")], "bool", [arm(PL(B(True)), None, val(B(False))), arm(PL(B(False)), None, val(B(True)))])],
                    call("nt", val(M(1, 3, [B(True), B(False), B(True)]))))

def stream_arity(tier, rng, kinds):
    for k in (INT_KINDS if tier != "quick" else INT_KINDS[::2]):
        for np_ in (1, 2, 3):
            names = ["a", "b", "c"][:np_]
            pat = PV("a") if np_ == 1 else PT(*[PV(n) for n in names])
            body = var("a")
            for n in names[1:]:
                body = op("add", body, var(n))
            f = fn("h", [(n, kint(k)) for n in names], kint(k), [arm(pat, None, body)])
            for na in range(0, 5):
                yield make_case(dict(stream="arity", kind=k, params=np_, args=na), [f],
                                call("h", *[num(k, i + 1) for i in range(na)]))
    # arity errors inside a recursion / inside an arm body
    k = "u64"
    f = fn("h", [("a", kint(k))], kint(k), [arm(PL(I(k, 0)), None, num(k, 1)), arm(PV("n"), None, call("h", var("n"), var("n")))])
    for a in (0, 1):
        yield make_case(dict(stream="arity", kind=k, params=1, args=2), [f], call("h", num(k, a)))
    yield make_case(dict(stream="missing-fn", kind=k), [f], call("nosuch", num(k, 1)))


# ---------------------------------------------------------------- declared parameter NAMES
# Arm bodies that read a declared parameter by its name while the pattern position is `*`, binds a
# variable of another name, binds the SAME name (shadowing), or the arm is the shorthand arm.  The
# implementation binds parameter names separately from pattern variables, once per iteration of
# the tail-call loop (bind_function_inputs in execute_user_function); the model: syms in tail_loop.
def pn_defs(k):
    n1 = lambda z: num(k, z)
    d = {}
    step = lambda f, a, b: call(f, a, b)
    zero_arm = arm(PT(PL(I(k, 0)), WILD), None, var("acc"))
    d["sumacc"] = [fn("sumacc", [("n", kint(k)), ("acc", kint(k))], kint(k),
                      [zero_arm, arm(PT(PV("k"), WILD), None, call("sumacc", op("sub", var("k"), n1(1)), op("add", var("acc"), var("k"))))])]
    by_name = lambda f: call(f, op("sub", var("n"), n1(1)), op("add", var("acc"), var("n")))
    d["sumname"] = [fn("sumname", [("n", kint(k)), ("acc", kint(k))], kint(k), [zero_arm, arm(PT(WILD, WILD), None, by_name("sumname"))])]
    d["sumwild"] = [fn("sumwild", [("n", kint(k)), ("acc", kint(k))], kint(k), [zero_arm, arm(WILD, None, by_name("sumwild"))])]
    d["sumshort"] = [fn("sumshort", [("n", kint(k)), ("acc", kint(k))], kint(k), [zero_arm, arm(SHORT, None, by_name("sumshort"))])]
    # the pattern variable has the name of the OTHER parameter: it shadows it
    d["sumshadow"] = [fn("sumshadow", [("n", kint(k)), ("acc", kint(k))], kint(k),
                         [arm(PT(PL(I(k, 0)), PV("n")), None, var("n")),
                          arm(PT(PV("acc"), PV("n")), None, call("sumshadow", op("sub", var("acc"), n1(1)), op("add", var("n"), var("acc"))))])]
    d["gcdmix"] = [fn("gcdmix", [("a", kint(k)), ("b", kint(k))], kint(k),
                      [arm(PT(WILD, PL(I(k, 0))), None, var("a")),
                       arm(PT(PV("x"), PV("y")), None, call("gcdmix", var("b"), op("mod", var("x"), var("y"))))])]
    d["gcdname"] = [fn("gcdname", [("a", kint(k)), ("b", kint(k))], kint(k),
                       [arm(PT(WILD, PL(I(k, 0))), None, var("a")),
                        arm(PT(WILD, WILD), None, call("gcdname", var("b"), op("mod", var("a"), var("b"))))])]
    d["fibn"] = [fn("fibn", [("n", kint(k)), ("a", kint(k)), ("b", kint(k))], kint(k),
                    [arm(PT(PL(I(k, 0)), WILD, WILD), None, var("a")),
                     arm(PT(PV("j"), WILD, WILD), None, call("fibn", op("sub", var("j"), n1(1)), var("b"), op("add", var("a"), var("b"))))])]
    d["fibname"] = [fn("fibname", [("n", kint(k)), ("a", kint(k)), ("b", kint(k))], kint(k),
                       [arm(PT(PL(I(k, 0)), WILD, WILD), None, var("a")),
                        arm(SHORT, None, call("fibname", op("sub", var("n"), n1(1)), var("b"), op("add", var("a"), var("b"))))])]
    # simultaneous rebinding: the new arguments are all computed from the OLD parameter values
    d["swap"] = [fn("swap", [("n", kint(k)), ("a", kint(k)), ("b", kint(k))], kint(k),
                    [arm(PT(PL(I(k, 0)), WILD, WILD), None, op("add", op("mul", var("a"), n1(10)), var("b"))),
                     arm(PT(PV("j"), WILD, WILD), None, call("swap", op("sub", var("j"), n1(1)), var("b"), var("a")))])]
    d["powacc"] = [fn("powacc", [("x", kint(k)), ("e", kint(k)), ("acc", kint(k))], kint(k),
                      [arm(PT(WILD, PL(I(k, 0)), WILD), None, var("acc")),
                       arm(PT(WILD, PV("j"), WILD), None, call("powacc", var("x"), op("sub", var("j"), n1(1)), op("mul", var("acc"), var("x"))))])]
    # non-tail recursion: after the nested activation returns, the name denotes the OUTER argument again
    d["factname"] = [fn("factname", [("n", kint(k))], kint(k),
                        [arm(PL(I(k, 0)), None, n1(1)), arm(WILD, None, op("mul", var("n"), call("factname", op("sub", var("n"), n1(1)))))])]
    d["factmix"] = [fn("factmix", [("n", kint(k))], kint(k),
                       [arm(PL(I(k, 0)), None, n1(1)), arm(PV("m"), None, op("mul", call("factmix", op("sub", var("n"), n1(1))), var("m")))])]
    d["factshort"] = [fn("factshort", [("n", kint(k))], kint(k),
                         [arm(PL(I(k, 0)), None, n1(1)), arm(SHORT, None, op("mul", call("factshort", op("sub", var("n"), n1(1))), var("n")))])]
    d["sumafter"] = [fn("sumafter", [("n", kint(k))], kint(k),
                        [arm(PL(I(k, 0)), None, n1(0)), arm(WILD, None, op("add", call("sumafter", op("sub", var("n"), n1(1))), var("n")))])]
    # a helper whose parameters carry the caller's names in the other order, called inside the tail call
    d["nested"] = [fn("mixg", [("n", kint(k)), ("acc", kint(k))], kint(k), [arm(PT(WILD, WILD), None, op("add", op("mul", var("n"), n1(2)), var("acc")))]),
                   fn("nested", [("n", kint(k)), ("acc", kint(k))], kint(k),
                      [zero_arm, arm(PT(PV("j"), WILD), None, call("nested", op("sub", var("j"), n1(1)), call("mixg", var("acc"), var("n"))))])]
    # mutual recursion through names
    d["evenodd"] = [fn("evenodd", [("n", kint(k))], kint(k), [arm(PL(I(k, 0)), None, n1(1)), arm(WILD, None, call("oddeven", op("sub", var("n"), n1(1))))]),
                    fn("oddeven", [("n", kint(k))], kint(k), [arm(PL(I(k, 0)), None, n1(0)), arm(WILD, None, call("evenodd", op("sub", var("n"), n1(1))))])]
    return d

def stream_pnames(tier, rng, kinds):
    quick = tier == "quick"
    # ---- non-recursive, one parameter
    def pool1(k):
        n1 = lambda z: num(k, z)
        return [arm(PL(I(k, 0)), None, op("add", var("n"), n1(10))),
                arm(PV("m"), None, op("add", op("add", op("mul", var("n"), n1(2)), var("m")), n1(20))),
                arm(WILD, None, op("add", var("n"), n1(30))),
                arm(SHORT, None, op("add", var("n"), n1(40))),
                arm(PV("n"), None, op("add", var("n"), n1(50))),
                arm(PL(I(k, 1)), None, op("add", var("n"), n1(60)))]
    lists = list(ordered_subsets(list(range(6)), 3))
    if quick:
        lists = [l for l in lists if len(l) == 1] + pick(rng, [l for l in lists if len(l) == 2], 10) + \
                pick(rng, [l for l in lists if len(l) == 3], 10)
    for l in lists:
        k = kinds.next()
        pl = pool1(k)
        f = fn("pf", [("n", kint(k))], kint(k), [pl[i] for i in l])
        for a in range(4):
            yield make_case(dict(stream="pname-fn1", kind=k, narms=len(l)), [f], call("pf", num(k, a)))
    # ---- non-recursive, two parameters
    def pool2(k):
        n1 = lambda z: num(k, z)
        ab = op("add", op("mul", var("a"), n1(3)), var("b"))
        return [arm(PT(PL(I(k, 0)), WILD), None, op("add", var("b"), n1(10))),
                arm(PT(PV("x"), WILD), None, op("add", op("mul", var("x"), n1(3)), var("b"))),
                arm(PT(WILD, PV("y")), None, op("add", op("add", op("mul", var("a"), n1(3)), var("y")), n1(20))),
                arm(PT(WILD, WILD), None, op("add", ab, n1(30))),
                arm(WILD, None, op("add", ab, n1(40))),
                arm(SHORT, None, op("add", ab, n1(50))),
                arm(PT(PV("b"), PV("a")), None, op("add", op("add", op("mul", var("b"), n1(3)), var("a")), n1(60))),
                arm(PT(WILD, PL(I(k, 1))), None, op("add", var("a"), n1(70))),
                arm(PT(PV("a"), WILD), None, op("add", ab, n1(80))),
                arm(PT(PV("x"), PV("y")), None, op("add", op("add", ab, op("add", op("mul", var("y"), n1(3)), var("x"))), n1(90)))]
    lists = list(ordered_subsets(list(range(10)), 3))
    args = [(a, b) for a in range(3) for b in range(3)]
    if quick:
        lists = [l for l in lists if len(l) == 1] + pick(rng, [l for l in lists if len(l) == 2], 14) + \
                pick(rng, [l for l in lists if len(l) == 3], 14)
        args = [(0, 0), (0, 1), (1, 0), (1, 2), (2, 1)]
    for l in lists:
        k = kinds.next()
        pl = pool2(k)
        f = fn("pg", [("a", kint(k)), ("b", kint(k))], kint(k), [pl[i] for i in l])
        for (a, b) in args:
            yield make_case(dict(stream="pname-fn2", kind=k, narms=len(l)), [f], call("pg", num(k, a), num(k, b)))
    # ---- recursive
    for ki, k in enumerate(INT_KINDS):
        if quick and ki % 3 != 0:
            continue
        hi = kmax(k)
        d = pn_defs(k)
        top = min(hi, 2 ** 53 - 1)      # see ASSUMPTIONS
        def rc(fam, main, fuel=600, **tags):
            return make_case(dict(stream="pname-rec", fam=fam, kind=k, **tags), d[fam], main, fuel=fuel)
        # largest n whose triangular number fits, capped
        nmax = 0
        while (nmax + 1) * (nmax + 2) // 2 <= hi and nmax < 2000:
            nmax += 1
        ns = sorted(set([0, 1, 2, 3, 5, 10, nmax] + ([nmax + 1] if nmax < 2000 and nmax + 1 <= hi else [])))
        for fam in ("sumacc", "sumname", "sumwild", "sumshort", "sumshadow"):
            for n in ns:
                for acc in ((0, 1) if n <= (2 if quick else 5) else (0,)):
                    if n <= hi:
                        yield rc(fam, call(fam, num(k, n), num(k, acc)), fuel=n + 100, depth=n)
        pairs = [(0, 0), (0, 3), (3, 0), (1, 1), (12, 18), (18, 12), (17, 5), (100, 75), (89, 55), (top, 1), (top, top - 1), (top, 2)]
        for fam in ("gcdmix", "gcdname"):
            for (a, b) in (pairs if not quick else pairs[::2] + [pairs[-1]]):
                if a <= hi and b <= hi:
                    yield rc(fam, call(fam, num(k, a), num(k, b)))
        # fibonacci with accumulators: up to the first overflow of a + b
        fibs = [0, 1]
        while fibs[-1] + fibs[-2] <= hi and len(fibs) < 400:
            fibs.append(fibs[-1] + fibs[-2])
        nfit = len(fibs) - 2          # fibn(n) computes b' = F(n+1) in its last iteration
        for fam in ("fibn", "fibname"):
            for n in sorted(set([0, 1, 2, 3, 7, nfit, nfit + 1] if quick else list(range(0, 13)) + [nfit, nfit + 1])):
                if 0 <= n <= hi:
                    yield rc(fam, call(fam, num(k, n), num(k, 0), num(k, 1)), fuel=n + 100)
        for n in range(0, 4):
            yield rc("swap", call("swap", num(k, n), num(k, 1), num(k, 2)))
        for x in (2, 3):
            for e in ((0, 1, 4) if quick else range(0, 6)):
                if x ** e <= hi:
                    yield rc("powacc", call("powacc", num(k, x), num(k, e), num(k, 1)))
        for fam in ("factname", "factmix", "factshort"):
            for n in ((0, 1, 3, 5) if quick else range(0, 7)):
                yield rc(fam, call(fam, num(k, n)))
        for n in ((0, 1, 4, 10) if quick else range(0, 12)):
            yield rc("sumafter", call("sumafter", num(k, n)))
        for n in range(0, 4):
            yield rc("nested", call("nested", num(k, n), num(k, 1)))
        for n in ((0, 1, 2, 7) if quick else range(0, 9)):
            yield rc("evenodd", call("evenodd", num(k, n)))

STREAMS = [stream_fn1, stream_fn2, stream_fnarr, stream_fnenum, stream_match_int, stream_match_tuple, stream_match_arr,
           stream_match_enum, stream_match_bool, stream_recursion, stream_broadcast, stream_arity, stream_pnames]

def generate(tier, rng):
    kinds = Kinds()
    for s in STREAMS:
        for c in s(tier, rng, kinds):
            yield c

def shrink(case):
    """smaller variants of a failing case: one arm removed from the main match or from a function"""
    a = case.get("ast")
    if not a:
        return
    tags = dict(case.get("tags") or {}, shrunk=1)
    main = a["main"]
    if main[0] == "match" and len(main) > 3:
        for i in range(2, len(main)):
            yield make_case(tags, a["defs"], main[:i] + main[i + 1:], a["globs"], a["enum"], a["fuel"])
    for di, f in enumerate(a["defs"]):
        if len(f) > 5:
            for i in range(4, len(f)):
                defs = list(a["defs"])
                defs[di] = f[:i] + f[i + 1:]
                yield make_case(tags, defs, main, a["globs"], a["enum"], a["fuel"])


def check(tier, seed, replay=None):
    """The standard flow, with one precaution: an observation that says the harness process died or
    stalled ((abort ..), (hang), (missing)) must REPRODUCE when the case is run again before it is
    judged - a process killed by the machine (global OOM killer, overload) is not the interpreter's
    behaviour.  Genuine aborts (native stack overflow on deep recursion) reproduce and are judged.
    Only a handful of cases is run again: many stalls at once are systematic (e.g. a tail-call loop
    that never ends), not the machine, and each costs a full stall period."""
    import types
    from vlib import core, flow
    me = types.SimpleNamespace(**{k: v for k, v in globals().items() if k != "check"})
    # the slowest quick-tier case (countdown(50000)) takes about a second; thorough has countdown(1000000)
    me.STALL = 45.0 if tier == "quick" else STALL
    orig = core.run_impl

    def run_impl(mode, cases, exe=None, stall=30.0, workers=None):
        res = orig(mode, cases, exe=exe, stall=stall, workers=workers)
        redo = [c for c in cases if res.get(c["id"], "(missing)").startswith(("(abort", "(hang", "(missing"))]
        hangs = [c for c in redo if not res.get(c["id"], "(missing)").startswith("(abort")]
        if len(hangs) > 8:
            redo = [c for c in redo if c not in hangs] + hangs[:8]
        if redo:
            res.update(orig(mode, redo, exe=exe, stall=stall, workers=8))
        return res

    core.run_impl = run_impl
    try:
        return flow.standard_check(me, tier, seed, replay)
    finally:
        core.run_impl = orig
