"""C13 — numeric literals denote the number they spell: generator of literal spellings.

Every case is ONE literal: a structured description (the Coq model renders it and insists that the
rendering equals the source text given to the implementation) and the program text."""
import struct
from fractions import Fraction
from vlib.core import sx, q

PROP = "C13"
MODE = "prog"
RULE = ("literal spellings generated from the documented grammar (specification.mec 3.1.2/4.2, number.mec 2): decimal digit "
        "strings of length 1-40 (and 300+ for the range ends) with underscores; floats w.f and leading-dot .f; scientific "
        "literals with integer or fractional mantissa, e/E, sign '', +, -, +-, exponents -345..310; 0d/0x/0o/0b literals "
        "(both hex cases, i64 boundary, beyond i64); every integer kind as suffix, inline annotation <k> and x<k> := lit with "
        "min/max/+-1, 0, 2^53+-1, random in/out of range, negative forms; f32/f64 annotations; rationals (reduced, "
        "non-reduced, negative, zero denominator, beyond i64); complex a+bi, a-bj, bi; hard rounding cases (exact midpoints "
        "of adjacent doubles/floats and midpoint +- 1e-k, 17-20 significant digits, subnormal boundary, overflow threshold, "
        "1e23, 8.41e21, 4.35e2, 9007199254740993, 0.1+tiny, f32 double-rounding traps). "
        "non-trivial = distinct literal judged binding with a value (not an error)")
ASSUMPTIONS = [
    "one literal per program; the value observed is the value of the program's last statement in a fresh interpreter",
    "binding region: spellings of the documented grammar; integer kinds and f32/f64 as suffix/annotation on integer, float, "
    "scientific and based literals; cross-family annotations (r64/c64/string/bool, any annotation on a rational, integer kind "
    "on a fractional literal), fractional exponents (irrational value), complex literals whose parts are scientific literals, "
    "and based literals with underscores (not in the documented grammar) are advisory; complex literals with a based real part "
    "(or a 0d imaginary part) or a dyadic rational real part are binding: they are submitted with the model case of the decimal "
    "spelling of the same value",
    "either sign of zero is accepted for a literal denoting 0; overflow to infinity is accepted exactly from the IEEE "
    "round-to-nearest threshold (2^1024 - 2^970 for f64) on",
    "rejection = an error value from interpret() or a parse error; error kinds are not compared",
    "the known-finding class sci-double-round predicts powf(10, n) only up to faithful rounding (either neighbour of 10^n)",
]
TRIVIAL_TAGS = ["rejected", "zero-denominator-error"]

INT_KINDS = ["u8", "u16", "u32", "u64", "u128", "i8", "i16", "i32", "i64", "i128"]


def krange(k):
    w = int(k[1:])
    return (0, (1 << w) - 1) if k[0] == "u" else (-(1 << (w - 1)), (1 << (w - 1)) - 1)


# ---------------------------------------------------------------- bodies
def b_int(w): return (["int", q(w)], w)
def b_float(w, f): return (["float", q(w), q(f)], w + "." + f)
def ostr(x): return [] if x is None else q(x)
def ofrac(x): return "" if x is None else "." + x
def b_sci(w, f, e, sg, ew, ef=None):
    return (["sci", q(w), ostr(f), q(e), q(sg), q(ew), ostr(ef)], w + ofrac(f) + e + sg + ew + ofrac(ef))
def b_based(p, w): return (["based", q(p), q(w)], p + w)
def b_rat(n, d): return (["rat", q(n), q(d)], n + "/" + d)

NONE = ("none",)


def real(neg, body, ann=NONE, **tags):
    bs, bt = body
    d = "-" if neg else ""
    if ann[0] == "none":
        a, src = ["none"], d + bt
    elif ann[0] == "suffix":
        a, src = ["suffix", q(ann[1])], d + bt + ann[1]
    elif ann[0] == "inline":
        a, src = ["inline", q(ann[1])], d + bt + "<" + ann[1] + ">"
    else:
        a, src = ["define", q(ann[1])], "x<" + ann[1] + "> := " + d + bt
    return mk(["real", 1 if neg else 0, bs, a], src, bt, tags)


def imag(neg, body, u, **tags):
    bs, bt = body
    return mk(["imag", 1 if neg else 0, bs, q(u)], ("-" if neg else "") + bt + u, bt, tags)


def cplx(rneg, re, isg, im, u, **tags):
    return mk(["cplx", 1 if rneg else 0, re[0], q(isg), im[0], q(u)], ("-" if rneg else "") + re[1] + isg + im[1] + u,
              re[1] + im[1], tags)


def bucket(n):
    for hi, name in ((8, "1-8"), (16, "9-16"), (20, "17-20"), (40, "21-40")):
        if n <= hi:
            return name
    return "41+"


def mk(lit, src, digits_text, tags):
    nd = sum(1 for c in digits_text if c.isalnum())
    t = dict(tags)
    if "cls" in t:
        t["class"] = t.pop("cls")
    t.setdefault("digits", bucket(nd))
    return dict(sx=sx(["c13", q(src), lit]), impl=dict(src=src), tags=t)


# ---------------------------------------------------------------- digit strings
def digits(rng, n, first_nonzero=False, alphabet="0123456789"):
    s = "".join(rng.choice(alphabet) for _ in range(n))
    if first_nonzero and s and s[0] == "0":
        s = rng.choice(alphabet[1:]) + s[1:]
    return s


def underscored(rng, s, p=0.25):
    """insert single underscores between digits (never leading/trailing/doubled)"""
    out = s[0]
    for c in s[1:]:
        if rng.random() < p:
            out += "_"
        out += c
    return out


def maybe_us(rng, s, p_any=0.3):
    return underscored(rng, s) if (len(s) > 1 and rng.random() < p_any) else s


def dec_expansion(fr):
    """exact decimal spelling (w, f) of a non-negative dyadic Fraction"""
    n, d = fr.numerator, fr.denominator
    k = 0
    while d % 2 == 0:
        d //= 2; k += 1
    assert d == 1
    whole = n >> k
    frac = n - (whole << k)
    fs = str(frac * 5 ** k).rjust(k, "0") if k else ""
    return str(whole), fs


def f64_parts(x):
    b = struct.unpack("<Q", struct.pack("<d", x))[0]
    eb = (b >> 52) & 0x7FF
    m = b & ((1 << 52) - 1)
    return (m, -1074) if eb == 0 else (m + (1 << 52), eb - 1075)


def f32_parts(x):
    b = struct.unpack("<I", struct.pack("<f", x))[0]
    eb = (b >> 23) & 0xFF
    m = b & ((1 << 23) - 1)
    return (m, -149) if eb == 0 else (m + (1 << 23), eb - 150)


def pow2(e):
    return Fraction(1 << e) if e >= 0 else Fraction(1, 1 << -e)


def float_body(w, f):
    """(w, f) strings -> a float body; if f is empty make it an integer body"""
    return b_float(w, f) if f != "" else b_int(w)


# ---------------------------------------------------------------- streams
def gen_ints(tier, rng):
    n = 25 if tier == "quick" else 150
    for length in list(range(1, 41)):
        for i in range(max(1, n // 10)):
            s = digits(rng, length, first_nonzero=rng.random() < 0.8)
            s = maybe_us(rng, s)
            yield real(rng.random() < 0.3, b_int(s), form="integer", cls="random")
    for s in ["0", "00", "007", "0_0", "1_000_000", "9007199254740992", "9007199254740993", "9007199254740995",
              "18014398509481985", "18014398509481987", "36028797018963967", "123456789012345678901234567890",
              "9999999999999999999999", "1" + "0" * 22, "1" + "0" * 23, "89255" + "0" * 18, "1" + "0" * 40]:
        yield real(False, b_int(s), form="integer", cls="special")
        yield real(True, b_int(s), form="integer", cls="special")
    # range ends as integers: largest finite double, overflow threshold and neighbours
    maxd = (2 ** 53 - 1) * 2 ** 971
    thr = 2 ** 1024 - 2 ** 970
    for v in [maxd, maxd + 1, thr - 1, thr, thr + 1, 2 ** 1024, 10 ** 308, 10 ** 309 - 1, 10 ** 400]:
        yield real(False, b_int(str(v)), form="integer", cls="overflow-boundary")
    yield real(True, b_int(str(thr)), form="integer", cls="overflow-boundary")
    yield real(True, b_int(str(thr - 1)), form="integer", cls="overflow-boundary")


def gen_floats(tier, rng):
    n = 700 if tier == "quick" else 6000
    for i in range(n):
        lw = rng.choice([0, 1, 1, 2, 3, 5, 8, 12, 17, 20, 30, 40])
        lf = rng.choice([1, 1, 2, 3, 5, 8, 12, 17, 20, 30, 40])
        w = digits(rng, lw, first_nonzero=rng.random() < 0.7) if lw else ""
        f = digits(rng, lf)
        if w:
            w = maybe_us(rng, w)
        f = maybe_us(rng, f)
        yield real(rng.random() < 0.25, b_float(w, f), form="leading-dot" if not w else "float", cls="random")
    for w, f in [("0", "0"), ("", "0"), ("0", "1"), ("0", "2"), ("0", "3"), ("1", "1"), ("3", "14"), ("0", "001"), ("", "123"),
                 ("2", "5"), ("0", "30000000000000004"), ("0", "1000000000000000055511151231257827"),
                 ("0", "10000000000000000555111512312578270211815834045410156250000001"),
                 ("0", "1000000000000000124900090270330610"),
                 ("9007199254740993", "0"), ("9007199254740993", "000000000000000001"), ("9007199254740992", "999999999999999999"),
                 ("435", "0"), ("434", "99999999999999997"), ("8410000000000000000000", "0"), ("100000000000000000000000", "0"),
                 ("1", "00000000000000011102230246251565404236316680908203125"),
                 ("1", "000000000000000111022302462515654042363166809082031250000000000000001"),
                 ("1", "00000000000000011102230246251565404236316680908203124999999999999999")]:
        yield real(False, b_float(w, f), form="leading-dot" if not w else "float", cls="special")
        yield real(True, b_float(w, f), form="leading-dot" if not w else "float", cls="special")


def gen_hard64(tier, rng):
    """exact midpoints between adjacent doubles and midpoint +- tiny; 17-20 significant digits"""
    n = 500 if tier == "quick" else 5000
    for i in range(n):
        kind = rng.random()
        if kind < 0.2:
            E = rng.choice([-1074] * 3 + [-1073, -1070, -1060])          # subnormals / lowest binades (very long spellings)
            M = rng.randrange(1, 1 << 53) if rng.random() < 0.5 else rng.choice([1, 2, 3, (1 << 52) - 1, 1 << 52, (1 << 52) + 1, (1 << 53) - 1])
            if tier == "quick" and rng.random() < 0.7:
                E = rng.randrange(-80, 20)
        else:
            E = rng.randrange(-90, 30)
            M = rng.randrange(1 << 52, 1 << 53)
            if rng.random() < 0.25:
                M = rng.choice([1 << 52, (1 << 52) + 1, (1 << 53) - 1, (1 << 53) - 2])     # power-of-two boundaries
        mid = Fraction(2 * M + 1) * pow2(E - 1)
        w, f = dec_expansion(mid)
        which = rng.random()
        if which < 0.4:
            cls = "midpoint"
        elif which < 0.7:
            cls = "midpoint-plus"
            f = f + "0" * rng.randrange(0, 12) + "1"
        else:
            cls = "midpoint-minus"
            # subtract one unit in the last place and append nines
            if f == "":
                w, f = str(int(w) - 1), ""
                f = "9" * rng.randrange(1, 14)
            else:
                t = str(int(w + f) - 1).rjust(len(w + f), "0")
                w, f = t[:len(w)], t[len(w):] + "9" * rng.randrange(1, 14)
        if w == "":
            w = "0"
        yield real(rng.random() < 0.2, float_body(w, f), form="float" if f else "integer", cls=cls)
    m = 300 if tier == "quick" else 3000
    for i in range(m):
        nd = rng.choice([15, 16, 17, 17, 18, 19, 20, 21])
        s = digits(rng, nd, first_nonzero=True)
        p = rng.randrange(0, nd + 1)
        w, f = s[:p], s[p:]
        if rng.random() < 0.3:
            f = "0" * rng.randrange(1, 25) + f
            w = "0" if rng.random() < 0.5 else ""
        if f == "":
            yield real(False, b_int(w), form="integer", cls="sig17-20")
        else:
            yield real(rng.random() < 0.2, b_float(w, f), form="leading-dot" if not w else "float", cls="sig17-20")
    # subnormal boundary and smallest values, as plain decimals
    for M, E in [(1, -1074), (2, -1074), ((1 << 52) - 1, -1074), (1 << 52, -1074), ((1 << 52) + 1, -1074)]:
        for delta in (0, 1):
            val = Fraction(2 * M + delta) * pow2(E - 1)
            w, f = dec_expansion(val)
            yield real(False, b_float(w, f), form="float", cls="subnormal-boundary")
            yield real(False, b_float(w, f + "1"), form="float", cls="subnormal-boundary")
    w, f = dec_expansion(pow2(-1075))
    yield real(False, b_float(w, f), form="float", cls="subnormal-boundary")                # exactly half the smallest subnormal -> 0
    yield real(False, b_float(w, f + "000001"), form="float", cls="subnormal-boundary")    # just above -> smallest subnormal
    yield real(True, b_float(w, f + "000001"), form="float", cls="subnormal-boundary")
    yield real(False, b_float("0", "0" * 400 + "1"), form="float", cls="subnormal-boundary")


def exps(rng):
    r = rng.random()
    if r < 0.5:
        return rng.randrange(0, 23)
    if r < 0.8:
        return rng.randrange(23, 310)
    return rng.randrange(310, 346)


def gen_sci(tier, rng):
    n = 900 if tier == "quick" else 8000
    for i in range(n):
        lw = rng.choice([1, 1, 1, 2, 3, 6, 12, 17, 25])
        w = maybe_us(rng, digits(rng, lw, first_nonzero=rng.random() < 0.8), 0.15)
        frac_m = rng.random() < 0.75
        f = maybe_us(rng, digits(rng, rng.choice([1, 1, 2, 3, 6, 12, 17, 25])), 0.15) if frac_m else None
        if frac_m and rng.random() < 0.1:
            w = ""
        e = rng.choice(["e", "e", "E"])
        sg = rng.choice(["", "", "+", "-", "-", "+-"])
        x = exps(rng)
        if "-" not in sg and x > 310:
            x = rng.randrange(0, 310)
        ew = str(x)
        if rng.random() < 0.1:
            ew = "0" * rng.randrange(1, 3) + ew
        if len(ew) > 1 and rng.random() < 0.05:
            ew = underscored(rng, ew, 0.5)
        ef = None
        form = "sci-frac-mantissa" if frac_m else "sci-int-mantissa"
        if rng.random() < 0.04:
            ef = digits(rng, rng.choice([1, 2])); form = "sci-frac-exponent"
        ann = NONE
        r = rng.random()
        if r < 0.06:
            ann = (rng.choice(["inline", "define"]), rng.choice(["f32", "f64"]))
        yield real(rng.random() < 0.2, b_sci(w, f, e, sg, ew, ef), ann, form=form, cls="random")
    specials = [("4", "35", "2"), ("8", "41", "21"), ("1", "0", "23"), ("1", None, "23"), ("1", None, "3"), ("2", "5", "10"),
                ("1", "2", "2"), ("1", "0", "22"), ("9", "5", "22"), ("1", "0", "308"), ("1", "7976931348623157", "308"),
                ("1", "7976931348623158", "308"), ("1", "7976931348623159", "308"), ("2", "2250738585072014", "308"),
                ("2", "2250738585072011", "308"), ("4", "9", "324"), ("5", "0", "324"), ("2", "4703282292062328", "324"),
                ("2", "4703282292062327", "324"), ("0", "0", "400"), ("1", "0", "400"), ("6", "02214076", "23"), ("0", "000001", "6"),
                ("123456", "0", "328"), ("1", "0", "210"), ("5", None, "1"), ("12", None, "0"), ("", "5", "1"), ("", "25", "3")]
    for w, f, x in specials:
        for e in ("e", "E"):
            for sg in ("", "+", "-", "+-"):
                form = "sci-frac-mantissa" if f is not None else "sci-int-mantissa"
                yield real(False, b_sci(w, f, e, sg, x), form=form, cls="special")
        yield real(True, b_sci(w, f, "e", "", x), form="sci-frac-mantissa" if f is not None else "sci-int-mantissa", cls="special")
        yield real(True, b_sci(w, f, "e", "-", x), form="sci-frac-mantissa" if f is not None else "sci-int-mantissa", cls="special")


def gen_based(tier, rng):
    n = 120 if tier == "quick" else 1200
    spec = [("0d", "0123456789", 10, 19), ("0x", "0123456789abcdef", 16, 16), ("0x", "0123456789ABCDEF", 16, 16),
            ("0x", "0123456789abcdefABCDEF", 16, 16), ("0o", "01234567", 8, 21), ("0b", "01", 2, 63)]
    for p, alpha, base, maxlen in spec:
        for i in range(n):
            ln = rng.randrange(1, maxlen + 3)
            s = digits(rng, ln, alphabet=alpha)
            yield real(rng.random() < 0.25, b_based(p, s), form="based-" + p, cls="random")
        # boundaries of i64
        for v in [0, 1, 2 ** 63 - 2, 2 ** 63 - 1, 2 ** 63, 2 ** 63 + 1, 2 ** 64 - 1, 2 ** 64, 2 ** 53 + 1]:
            s = {10: "%d", 16: "%x", 8: "%o", 2: None}[base]
            s = (s % v) if s else bin(v)[2:]
            if alpha == "0123456789ABCDEF":
                s = s.upper()
            yield real(False, b_based(p, s), form="based-" + p, cls="i64-boundary")
            yield real(True, b_based(p, s), form="based-" + p, cls="i64-boundary")
            yield real(False, b_based(p, "00" + s), form="based-" + p, cls="i64-boundary")
        # underscores (not in the documented grammar: advisory) and wrong digits
        for i in range(10 if tier == "quick" else 60):
            s = underscored(rng, digits(rng, rng.randrange(2, 12), alphabet=alpha), 0.4)
            yield real(False, b_based(p, s), form="based-" + p, cls="underscore")
    for p, s in [("0b", "12"), ("0o", "9"), ("0o", "78"), ("0x", "1g"), ("0d", "1a"), ("0x", "12_34"), ("0b", "1010_1010"), ("0o", "7_7"), ("0d", "1_0")]:
        yield real(False, b_based(p, s), form="based-" + p, cls="malformed-or-underscore")
    # annotated based literals
    for p, alpha, base, maxlen in spec:
        for k in INT_KINDS + ["f32", "f64"]:
            for style in ("inline", "define"):
                for j in range(2 if tier == "quick" else 12):
                    if k in INT_KINDS:
                        lo, hi = krange(k)
                        v = rng.choice([0, 1, hi, hi - 1, hi + 1, hi + 2, rng.randrange(0, hi + 1), rng.randrange(0, 2 ** 63), 255, 256, 300, 65536])
                    else:
                        v = rng.choice([0, 1, 2 ** 24 + 1, 2 ** 53 + 1, rng.randrange(0, 2 ** 63), 2 ** 63 - 1, 16777217, 16777219])
                    v = min(v, 2 ** 63 - 1) if rng.random() < 0.9 else v
                    s = {10: "%d", 16: "%x", 8: "%o", 2: None}[base]
                    s = (s % v) if s else bin(v)[2:]
                    neg = style == "define" and rng.random() < 0.3
                    yield real(neg, b_based(p, s), (style, k), form="based-annotated", cls=k)


def gen_kinds(tier, rng):
    reps = 1 if tier == "quick" else 6
    for k in INT_KINDS:
        lo, hi = krange(k)
        vals = [0, 1, 2, hi - 1, hi, hi + 1, hi + 2, 2 * hi, lo, lo + 1, lo - 1, lo - 2, -1, -2,
                2 ** 53 - 1, 2 ** 53, 2 ** 53 + 1, -(2 ** 53) - 1, 9007199254740993, 10 ** 40, -(10 ** 40)]
        for _ in range(4 * reps):
            vals.append(rng.randrange(lo, hi + 1))
            vals.append(rng.randrange(lo * 3 - 5, hi * 3 + 5))
            if hi > 2 ** 53:
                vals.append(rng.randrange(2 ** 53, hi + 1))
                vals.append(hi - rng.randrange(0, 5000))
                if lo < 0:
                    vals.append(lo + rng.randrange(0, 5000))
                    vals.append(-rng.randrange(2 ** 53, hi + 1))
        for v in vals:
            for style in ("suffix", "inline", "define"):
                s = str(abs(v))
                if rng.random() < 0.1 and len(s) > 1:
                    s = underscored(rng, s)
                if v == 0 and k[0] == "u" and style != "define":
                    yield real(False, b_int(s), (style, k), form="int-" + style, cls=k)
                    continue
                yield real(v < 0, b_int(s), (style, k), form="int-" + style, cls=k)
    # float kinds on integers and floats
    f32mid = []
    for _ in range(40 * reps):
        E = rng.randrange(-60, 40)
        M = rng.randrange(1 << 23, 1 << 24)
        if rng.random() < 0.2:
            M = rng.choice([1 << 23, (1 << 24) - 1])
        f32mid.append((M, E))
    for (M, E) in f32mid:
        mid = Fraction(2 * M + 1) * pow2(E - 1)
        w, f = dec_expansion(mid)
        style = rng.choice(["inline", "define"])
        yield real(False, float_body(w, f), (style, "f32"), form="float-f32", cls="f32-midpoint")
        if f != "":
            # double-rounding traps: closer than half an f64 ulp to the f32 midpoint
            yield real(False, b_float(w, f + "0" * 12 + "1"), (style, "f32"), form="float-f32", cls="f32-midpoint-plus")
            t = str(int((w + f)) - 1).rjust(len(w + f), "0")
            yield real(rng.random() < 0.3, b_float(t[:len(w)], t[len(w):] + "9" * 14), (style, "f32"), form="float-f32", cls="f32-midpoint-minus")
    for _ in range(60 * reps):
        lw, lf = rng.choice([1, 2, 5, 9, 20]), rng.choice([1, 2, 5, 9, 20])
        w, f = digits(rng, lw, first_nonzero=True), digits(rng, lf)
        k = rng.choice(["f32", "f32", "f64"])
        style = rng.choice(["inline", "define"])
        yield real(rng.random() < 0.3, b_float(w, f), (style, k), form="float-" + k, cls="random")
        yield real(rng.random() < 0.3, b_int(w), (rng.choice(["inline", "define", "suffix"]), k), form="int-" + k, cls="random")
    for w in ["16777216", "16777217", "16777218", "16777219", "9007199254740993", "340282346638528859811704183484516925440",
              "340282356779733661637539395458142568447", "340282356779733661637539395458142568448", "1" + "0" * 39]:
        for style in ("inline", "define", "suffix"):
            yield real(False, b_int(w), (style, "f32"), form="int-f32", cls="special")
            yield real(True, b_int(w), (style, "f64"), form="int-f64", cls="special")
    for w, f in [("0", "1"), ("3", "14"), ("0", "000000000000000000000000000000000000000000001401298464324817070923729583289916131280"),
                 ("0", "0000000000000000000000000000000000000000000007006492321624085354618647916449580656401"),
                 ("1", "00000005960464477539062500000000001"), ("1", "000000178813934326171874999999999")]:
        for style in ("inline", "define"):
            yield real(False, b_float(w, f), (style, "f32"), form="float-f32", cls="special")
    # the witnesses of the known findings, spelled exactly as in known-findings.json
    yield real(False, b_int("7"), ("suffix", "i8"), form="int-suffix", cls="witness")
    yield real(True, b_int("15"), ("suffix", "i16"), form="int-suffix", cls="witness")
    yield real(False, b_based("0d", "300"), ("inline", "u8"), form="based-annotated", cls="witness")
    yield real(True, b_int("128"), ("inline", "i8"), form="int-inline", cls="witness")
    yield real(False, b_int("9007199254740993"), ("suffix", "u64"), form="int-suffix", cls="witness")
    yield real(False, b_int("1234"), ("inline", "u8"), form="int-inline", cls="witness")     # the specification's clamping example
    # advisory corners: cross-family annotations, integer kind on fractional literal
    for k in ["r64", "c64", "string", "bool"]:
        yield real(False, b_int("5"), ("inline", k), form="cross-family", cls=k)
        yield real(False, b_float("0", "5"), ("define", k), form="cross-family", cls=k)
    for k in INT_KINDS:
        yield real(False, b_float("3", "7"), ("inline", k), form="cross-family", cls=k)


def gen_rationals(tier, rng):
    n = 350 if tier == "quick" else 3000
    for i in range(n):
        r = rng.random()
        if r < 0.5:
            a, b = rng.randrange(0, 200), rng.randrange(1, 200)
        elif r < 0.8:
            g = rng.randrange(1, 10 ** rng.randrange(1, 9))
            a, b = g * rng.randrange(0, 10 ** rng.randrange(1, 9)), g * rng.randrange(1, 10 ** rng.randrange(1, 9))
        else:
            a, b = rng.randrange(0, 2 ** 63), rng.randrange(1, 2 ** 63)
        if rng.random() < 0.06:
            b = 0
        sa, sb = str(a), str(b)
        if rng.random() < 0.1:
            sa = "0" * rng.randrange(1, 3) + sa
        if rng.random() < 0.1 and len(sa) > 1:
            sa = underscored(rng, sa)
        if rng.random() < 0.1 and len(sb) > 1:
            sb = underscored(rng, sb)
        cls = "zero-denominator" if b == 0 else "random"
        yield real(rng.random() < 0.3, b_rat(sa, sb), form="rational", cls=cls)
    for a, b in [(3, 4), (6, 8), (22, 7), (7, 7), (0, 5), (5, 0), (0, 0), (1, 2), (2, 4), (2 ** 63 - 1, 1), (2 ** 63 - 1, 2 ** 63 - 1),
                 (2 ** 63, 1), (1, 2 ** 63), (2 ** 64, 2), (9223372036854775806, 2), (10 ** 30, 10 ** 29)]:
        yield real(False, b_rat(str(a), str(b)), form="rational", cls="special")
        yield real(True, b_rat(str(a), str(b)), form="rational", cls="special")
    yield real(False, b_rat("3", "4"), ("inline", "r64"), form="rational", cls="annotated")
    yield real(False, b_rat("3", "4"), ("inline", "f64"), form="rational", cls="annotated")


def gen_complex(tier, rng):
    n = 300 if tier == "quick" else 2500

    def part():
        if rng.random() < 0.5:
            return b_int(maybe_us(rng, digits(rng, rng.choice([1, 1, 2, 5, 17, 25]), first_nonzero=True)))
        w = digits(rng, rng.choice([0, 1, 2, 5, 17]), first_nonzero=True) if rng.random() < 0.85 else ""
        return b_float(w, digits(rng, rng.choice([1, 2, 5, 17, 25])))
    for i in range(n):
        u = rng.choice(["i", "j"])
        if rng.random() < 0.3:
            yield imag(rng.random() < 0.3, part(), u, form="imaginary", cls="random")
        else:
            yield cplx(rng.random() < 0.3, part(), rng.choice(["+", "-"]), part(), u, form="complex", cls="random")
    for re, sg, im, u in [("3", "+", "4", "i"), ("2", "-", "3", "j"), ("2", "+", "0", "i"), ("0", "+", "1", "j"), ("1", "-", "2", "i")]:
        yield cplx(False, b_int(re), sg, b_int(im), u, form="complex", cls="special")
        yield cplx(True, b_int(re), sg, b_int(im), u, form="complex", cls="special")
    yield imag(False, b_int("5"), "i", form="imaginary", cls="special")
    yield cplx(False, b_float("0", "1"), "+", b_float("0", "2"), "i", form="complex", cls="special")
    yield cplx(False, b_rat("1", "2"), "+", b_int("1"), "i", form="complex", cls="rational-part")
    yield cplx(False, b_sci("1", "5", "e", "", "1"), "+", b_int("1"), "i", form="complex", cls="sci-part")
    yield cplx(False, b_based("0x", "10"), "+", b_int("1"), "i", form="complex", cls="based-part")
    # complex literals whose real part is a based literal (and whose imaginary part may be a `0d` literal): submitted with
    # the model case of the DECIMAL spelling of the same value (what a based literal denotes is settled by the based-literal
    # theorems; the expectation for complex literals is stated for plain parts), so that the value is binding
    for _ in range(40 if tier == "quick" else 400):
        pfx, base, alphabet = rng.choice([("0x", 16, "0123456789abcdefABCDEF"), ("0o", 8, "01234567"), ("0b", 2, "01"), ("0d", 10, "0123456789")])
        w = digits(rng, rng.choice([1, 2, 3, 6, 12 if base > 2 else 40]), first_nonzero=True, alphabet=alphabet)
        if int(w, base) >= 2 ** 53:
            continue
        imw = digits(rng, rng.choice([1, 2, 5]), first_nonzero=True)
        im_based = rng.random() < 0.3
        isg, u = rng.choice(["+", "-"]), rng.choice(["i", "j"])
        c = cplx(False, b_int(str(int(w, base))), isg, b_int(imw), u, form="complex", cls="based-part-as-decimal")
        c["impl"] = dict(src=pfx + w + isg + ("0d" if im_based else "") + imw + u)
        yield c
    # a rational real part with a power-of-two denominator, submitted as its (exact) decimal expansion
    from fractions import Fraction
    from decimal import Decimal
    for _ in range(12 if tier == "quick" else 120):
        d = 2 ** rng.randint(1, 6); n = rng.randint(1, 200)
        fr = Fraction(n, d)
        if fr.denominator == 1:
            continue
        dec = format(Decimal(fr.numerator) / Decimal(fr.denominator), "f")
        w, f = dec.split(".")
        imw = digits(rng, rng.choice([1, 2]), first_nonzero=True); isg, u = rng.choice(["+", "-"]), rng.choice(["i", "j"])
        c = cplx(False, b_float(w, f), isg, b_int(imw), u, form="complex", cls="rational-part-as-decimal")
        c["impl"] = dict(src="%d/%d%s%s%s" % (n, d, isg, imw, u))
        yield c
    for _ in range(10 if tier == "quick" else 100):
        imw = digits(rng, rng.choice([1, 2, 5]), first_nonzero=True); u = rng.choice(["i", "j"])
        c = imag(False, b_int(imw), u, form="imaginary", cls="based-part-as-decimal")
        c["impl"] = dict(src="0d" + imw + u)
        yield c


def gen_malformed(tier, rng):
    for s in ["1__0", "1_", "_1"]:
        yield real(False, b_int(s), form="integer", cls="malformed")
    yield real(False, b_float("1", "5_"), form="float", cls="malformed")
    yield real(False, b_float("1_", "5"), form="float", cls="malformed")
    yield real(False, b_sci("1", "0", "e", "--", "3"), form="sci-frac-mantissa", cls="malformed")
    yield real(False, b_float("1", "5"), ("suffix", "u8"), form="float", cls="suffix-on-float")


def generate(tier, rng):
    for g in (gen_ints, gen_floats, gen_hard64, gen_sci, gen_based, gen_kinds, gen_rationals, gen_complex, gen_malformed):
        for c in g(tier, rng):
            yield c


def shrink(case):
    return []
