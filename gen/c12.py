"""C12 — kind annotations: conversions between all kinds, reshape, matrix -> set.

Every case is one interpreter session of two steps: the statements that build the source value `x`
(its value is observed, so that the judge works from the value the implementation really holds),
then the annotated definition under test."""
import math
from fractions import Fraction
from vlib import mechsrc as ms
from vlib.core import sx, q

PROP = "C12"
MODE = "session"
RULE = ("all 256 ordered pairs of the 14 numeric kinds + bool + string x boundary values (min, max, -1, 0, 1, the limits of "
        "the other kind +-1, 2^24/2^53 +-1, fractional / negative / huge / tiny floats, NaN, +-inf, -0.0, rationals, complex) "
        "as scalar definition `y<K> := x`, annotated reference `y := x<K>`, option `y<K?> := x`, and as row vector, column "
        "vector and matrix `y<[K]> := x` / `y<[K]:r,c> := x`; all (r,c)->(r',c') reshapes with <= 16 elements of equal count "
        "(every kind) and unequal count (sample in quick, all in thorough); matrix -> set `y<{K}> := x` with duplicates for "
        "all pairs. non-trivial = distinct case whose verdict is a value check (not an expected error)")
ASSUMPTIONS = [
    "the source value is the one observed as the value of the defining statement of x in the same interpreter session",
    "error kinds/messages are not compared (one Err token); a caught panic inside interpret() counts as an error",
    "the text produced by number -> string conversions and inexact conversions (wrapping narrowing, rounding to a float, "
    "NaN -> integer) are outside what the property fixes and are reported as advisory",
]
TRIVIAL_TAGS = ["error", "count-error"]

INTS = ms.INT_KINDS
KINDS = INTS + ["f32", "f64", "r64", "c64", "bool", "string"]
NAN = float("nan")
INF = float("inf")
T52 = 4503599627370496


# ---------------------------------------------------------------- source text
def pregen():
    """regenerate coq/theories/Gen/AllocArms.v from the current Rust source (translators/alloc_arms.py): the allocation obligations
    of Props/C12.v are stated over that table"""
    import os, sys
    from vlib import core as _core
    sys.path.insert(0, os.path.join(_core.ROOT, "translators"))
    import armlib
    return armlib.pregen(PROP, [("alloc_arms", "theories/Proofs/AllocArmsP.vo")])


def int_expr(k, v):
    """expression of kind k with value v (arithmetic on typed chunks above 2^53: literals go through f64)"""
    if abs(v) < 2 ** 53:
        return "%d<%s>" % (v, k) if v >= 0 else "(0<%s> - %d<%s>)" % (k, -v, k)
    digits = []
    a = abs(v)
    while a:
        digits.append(a & 0xFFFFFFFF)
        a >>= 32
    digits.reverse()
    B = "4294967296<%s>" % k
    if v > 0:
        e = "%d<%s>" % (digits[0], k)
        for d in digits[1:]:
            e = "(%s * %s + %d<%s>)" % (e, B, d, k)
    else:
        e = "(0<%s> - %d<%s>)" % (k, digits[0], k)
        for d in digits[1:]:
            e = "(%s * %s - %d<%s>)" % (e, B, d, k)
    return e


def f64_expr(v):
    if v != v:
        return "0 / 0"
    if v == INF:
        return "1 / 0"
    if v == -INF:
        return "-1 / 0"
    if v == 0:
        return "-0.0" if math.copysign(1, v) < 0 else "0.0"
    if v == int(v) and abs(v) < 2 ** 53:
        return "%d.0" % int(v) if abs(v) < 1e15 else "%d" % int(v)
    n, d = v.as_integer_ratio()              # exact; d is a power of two
    if d == 1:
        e = 0
        while n % 2 == 0:
            n //= 2; e += 1
        s = "%d" % n
        while e > 0:
            s += " * %d" % (2 ** min(e, 52)); e -= min(e, 52)
        return s
    r = repr(v)
    if "e" not in r and len(r) <= 12 and d <= 2 ** 20:
        return r                              # short dyadic decimal
    e = d.bit_length() - 1
    s = "%d" % n
    while e > 0:
        s += " / %d" % (2 ** min(e, 52)); e -= min(e, 52)
    return s


def scalar_def(name, k, v):
    if k in INTS:
        if abs(v) < 2 ** 53:
            return "%s<%s> := %d" % (name, k, v)
        return "%s := %s" % (name, int_expr(k, v))
    if k == "f64":
        return "%s := %s" % (name, f64_expr(v))
    if k == "f32":
        return "%s<f32> := %s" % (name, f64_expr(v))
    if k == "r64":
        v = Fraction(v)
        return "%s := %d/%d" % (name, v.numerator, v.denominator)
    if k == "c64":
        re, im = v
        neg = math.copysign(1, im) < 0
        return "%s := %s%s%si" % (name, cfmt(re), "-" if neg else "+", cfmt(abs(im)))
    if k == "bool":
        return "%s := %s" % (name, "true" if v else "false")
    if k == "string":
        return '%s := "%s"' % (name, v)
    raise ValueError(k)


def cfmt(x):
    return str(int(x)) if x == int(x) else repr(x)


def source_stmts(k, shape, data):
    """statements defining x : k with the given shape (None = scalar) and column-major data"""
    if shape is None:
        return [scalar_def("x", k, data[0])]
    r, c = shape
    st = [scalar_def("e%d" % i, k, v) for i, v in enumerate(data)]
    rows = [" ".join("e%d" % (j * r + i) for j in range(c)) for i in range(r)]
    st.append("x := [" + "; ".join(rows) + "]")
    return st


def conv_stmt(form, k2, dims):
    if form == "scalar":
        return "y<%s> := x" % k2
    if form == "ref":
        return "y := x<%s>" % k2
    if form == "opt":
        return "y<%s?> := x" % k2
    if form == "set":
        return "y<{%s}> := x" % k2
    if dims is None:
        return "y<[%s]> := x" % k2
    return "y<[%s]:%d,%d> := x" % (k2, dims[0], dims[1])


def make_case(form, k1, k2, shape, data, dims=None, **tags):
    st = source_stmts(k1, shape, data)
    a = "\n".join(st)
    t = dict(pair="%s/%s" % (k1, k2), **{"class": form})
    t.update(tags)
    stmt = conv_stmt(form, k2, dims)
    pre = a
    import zlib
    if form == "ref" and zlib.crc32((a + k2).encode()) % 3 == 0:
        # the annotated reference is evaluated inside a match arm (a local environment that does NOT bind x): the
        # annotation on a reference to a program variable must convert there as it does at top level
        pre = "g := 1\n" + a          # (the judge reads the source value from the LAST statement of the first step)
        stmt = "y := g? | 1 => x<%s> | * => x<%s>." % (k2, k2)
        t["context"] = "match-arm"
    return dict(sx=sx(["conv", form, k2, list(dims) if dims else [], q(a)]), impl=dict(stmts=[pre, stmt]), tags=t)


# ---------------------------------------------------------------- value pools
def f32_exact(v):
    if v != v or v in (INF, -INF):
        return True
    try:
        return ms.bits_f32(ms.f32_bits(v)) == v
    except OverflowError:
        return False


def uniq(vals, key=lambda v: v):
    seen, out = set(), []
    for v in vals:
        if key(v) not in seen:
            seen.add(key(v)); out.append(v)
    return out


def int_pool(k1, k2):
    """(essential, extra) values of integer kind k1 for target k2"""
    lo, hi = ms.kind_range(k1)
    ess = [lo, hi, 0, -1]
    if k2 in INTS:
        l2, h2 = ms.kind_range(k2)
        ess += [h2, h2 + 1, l2, l2 - 1]
    elif k2 == "f32":
        ess += [2 ** 24, 2 ** 24 + 1, -(2 ** 24) - 1]
    elif k2 in ("f64", "c64"):
        ess += [2 ** 53, 2 ** 53 + 1, -(2 ** 53) - 1]
    elif k2 == "r64":
        ess += [2 ** 63 - 1, 2 ** 63, -(2 ** 63)]
    extra = [1, 2, 100, -100, 127, 128, 255, 256, 2 ** 24, 2 ** 24 + 1, 2 ** 53, 2 ** 53 + 1, -(2 ** 24) - 1,
             -(2 ** 53) - 1, 2 ** 63, 2 ** 64 - 1, hi - 1, lo + 1, 65535, 65536, -32769, 2 ** 31, 2 ** 32]
    ok = lambda v: lo <= v <= hi
    ess = uniq([v for v in ess if ok(v)])
    return ess, [v for v in uniq(extra) if ok(v) and v not in ess]


def float_pool(k1, k2):
    ess = [1.5, -2.75, -0.0, NAN, INF, -INF]
    if k2 in INTS:
        l2, h2 = ms.kind_range(k2)
        ess += [float(h2), float(h2) + 1, float(h2) + 0.5, float(l2), float(l2) - 1, float(l2) - 0.5, float(h2 // 2) + 0.75]
    elif k2 == "f32":
        ess += [0.1, 16777217.0, 2.0 ** 128, 2.0 ** -150, 3.4028234663852886e38, 2.0 ** -149]
    elif k2 == "r64":
        ess += [0.1, 3 * 2.0 ** -40, 2.0 ** 63, -2.0 ** 63, 2.0 ** -62, 9007199254740993.0 * 512]
    else:
        ess += [0.1, 2.0 ** 200, 2.0 ** -1074, 1.7976931348623157e308]
    extra = [0.0, 1.0, -1.0, 0.5, -0.5, -1.5, 2.75, 0.999755859375, 255.0, 255.5, 256.0, -128.0, -128.5,
             -129.0, 1 / 3, 16777216.0, 2.0 ** 53, 2.0 ** 63, -2.0 ** 63, 2.0 ** 64, 2.0 ** 127, 2.0 ** 128,
             2.0 ** 200, -2.0 ** 200, 2.0 ** 1000, 2.0 ** -30, 3 * 2.0 ** -40, 2.0 ** -149, 2.0 ** -150,
             2.0 ** -1074, 1e15 + 0.5, 123456.789, 65535.75, -32768.99, 4294967295.5]
    if k1 == "f32":
        ess = [v for v in ess if f32_exact(v)]
        extra = [v for v in extra if f32_exact(v)]
    ess = uniq(ess, ms.f64_bits)
    keys = set(ms.f64_bits(v) for v in ess)
    return ess, [v for v in uniq(extra, ms.f64_bits) if ms.f64_bits(v) not in keys]


def rat_pool(k2):
    ess = [Fraction(1, 2), Fraction(-3, 4), Fraction(5), Fraction(-129), Fraction(1, 3), Fraction(0)]
    if k2 in INTS:
        l2, h2 = ms.kind_range(k2)
        ess += [Fraction(v) for v in (h2, h2 + 1, l2, l2 - 1) if abs(v) < 2 ** 63]
    extra = [Fraction(1), Fraction(-1), Fraction(255), Fraction(256), Fraction(-128), Fraction(22, 7), Fraction(2 ** 63 - 1),
             Fraction(2 ** 53 + 1), Fraction(1, 1024), Fraction(3, 2 ** 40), Fraction(-7, 8), Fraction(16777217), Fraction(1, 2 ** 62)]
    ess = uniq(ess)
    return ess, [v for v in uniq(extra) if v not in ess]


def cx_pool(k2):
    return [(5.0, 0.0), (0.5, 0.0), (-2.0, 0.0), (1.0, 2.0), (300.0, 0.0), (2.5, -0.0)], [(0.0, 0.0), (-1.5, -3.0), (65536.0, 0.0)]


def pool2(k1, k2):
    if k1 in INTS:
        return int_pool(k1, k2)
    if k1 in ("f32", "f64"):
        return float_pool(k1, k2)
    if k1 == "r64":
        return rat_pool(k2)
    if k1 == "c64":
        return cx_pool(k2)
    if k1 == "bool":
        return [True, False], []
    return ["a", "12", ""], ["x y"]


def pool(k1, k2):
    a, b = pool2(k1, k2)
    return a + b


def representable(k1, v, k2):
    """python-side estimate used only to compose matrices whose elements are all in the binding region"""
    if k1 == k2:
        return True
    if k1 in ("bool", "string") or k2 in ("bool", "string"):
        return False
    if k1 in INTS:
        q = Fraction(v)
    elif k1 in ("f32", "f64"):
        if v != v or v in (INF, -INF):
            return False
        q = Fraction(v)
    elif k1 == "r64":
        q = Fraction(v)
    else:
        if v[1] != 0:
            return False
        q = Fraction(v[0])
    if k2 in INTS:
        lo, hi = ms.kind_range(k2)
        if k1 in ("f32", "f64"):
            return True                      # truncation + clamp is fixed by the property
        return q.denominator == 1 and lo <= q <= hi
    if k2 in ("f64", "c64", "f32"):
        d = q.denominator
        if d & (d - 1):
            return False
        try:
            f = q.numerator / q.denominator
        except OverflowError:
            return False
        if Fraction(f) != q:
            return False
        return f32_exact(f) if k2 == "f32" else True
    if k2 == "r64":
        return abs(q.numerator) < 2 ** 63 and q.denominator < 2 ** 63
    return False


# ---------------------------------------------------------------- generator
def shapes_upto(n):
    return [(r, c) for r in range(1, n + 1) for c in range(1, n + 1) if r * c <= n]


def distinct_values(k, n, rng):
    if k in INTS:
        lo, hi = ms.kind_range(k)
        return [min(hi, i + 1) for i in range(n)]
    if k in ("f32", "f64"):
        return [i + 1 + (0.5 if i % 2 else 0.0) for i in range(n)]
    if k == "r64":
        return [Fraction(2 * i + 1, 2) for i in range(n)]
    if k == "c64":
        return [(float(i + 1), float(-i)) for i in range(n)]
    if k == "bool":
        return [(i * 7 % 3) == 0 for i in range(n)]
    return ["s%d" % i for i in range(n)]


def generate(tier, rng):
    quick = tier == "quick"
    # A. scalars: every ordered pair x its boundary pool
    for k1 in KINDS:
        for k2 in KINDS:
            ess, extra = pool2(k1, k2)
            vals = ess + (rng.sample(extra, min(len(extra), 2)) if quick else extra)
            for i, v in enumerate(vals):
                yield make_case("scalar", k1, k2, None, [v], stream="scalar")
            extra = rng.sample(vals, min(len(vals), 1 if quick else 6))
            for v in extra:
                yield make_case("ref", k1, k2, None, [v], stream="ref")
            for v in extra:
                yield make_case("opt", k1, k2, None, [v], stream="opt")
    # B. matrices: row, column, matrix for every pair; all-binding and mixed element sets
    for k1 in KINDS:
        for k2 in KINDS:
            vals = pool(k1, k2)
            good = [v for v in vals if representable(k1, v, k2)]
            shape_of = dict(row=(1, 4), col=(4, 1), mat=(2, 3))
            for which, vs in (("binding", good), ("mixed", vals)):
                if not vs:
                    continue
                kinds_of_shape = ["row", "col", "mat"]
                if quick and which == "mixed":
                    kinds_of_shape = [rng.choice(kinds_of_shape)]
                for shape_kind in kinds_of_shape:
                    shape = shape_of[shape_kind]
                    data = [rng.choice(vs) for _ in range(shape[0] * shape[1])]
                    yield make_case("mat", k1, k2, shape, data, None, stream="mat-" + which, shp=shape_kind)
                if which == "binding":
                    for shape_kind in ([rng.choice(["row", "col", "mat"])] if quick else ["row", "col", "mat"]):
                        shape = shape_of[shape_kind]
                        data = [rng.choice(vs) for _ in range(shape[0] * shape[1])]
                        yield make_case("mat", k1, k2, shape, data, shape, stream="mat-dims", shp=shape_kind)
    # C. reshapes
    shapes = shapes_upto(16)
    ki = 0
    pairs_same = [(k, k) for k in KINDS]
    pairs_conv = [("f64", "u8"), ("u8", "f64"), ("i16", "i64"), ("f32", "f64"), ("u64", "i128"), ("f64", "i32"),
                  ("u8", "string"), ("bool", "string"), ("i8", "f32")]
    allp = pairs_same + pairs_conv
    for (r, c) in shapes:
        for (r2, c2) in shapes:
            if (r, c) == (r2, c2):
                continue
            equal = r * c == r2 * c2
            if not equal and quick and rng.random() > 0.1:
                continue
            reps = allp if (equal and r * c in ((6,) if quick else (4, 6, 12))) else [allp[ki % len(allp)]]
            ki += 1
            for (k1, k2) in reps:
                data = distinct_values(k1, r * c, rng)
                yield make_case("mat", k1, k2, (r, c), data, (r2, c2),
                                stream="reshape-equal" if equal else "reshape-unequal", shp="%dx%d" % (r, c))
    # D. matrix -> set
    for k1 in KINDS:
        for k2 in KINDS:
            vals = [v for v in pool(k1, k2) if representable(k1, v, k2)] or pool(k1, k2)
            base = [rng.choice(vals) for _ in range(3)]
            data = base + [rng.choice(base) for _ in range(3)]
            rng.shuffle(data)
            shape = rng.choice([(1, 6), (6, 1), (2, 3), (3, 2)])
            yield make_case("set", k1, k2, shape, data, None, stream="set")
    if not quick:
        for _ in range(3000):
            k1, k2 = rng.choice(KINDS), rng.choice(KINDS)
            v = rng.choice(pool(k1, k2))
            if k1 in INTS:
                lo, hi = ms.kind_range(k1)
                v = rng.randint(lo, hi) if rng.random() < 0.5 else v
            elif k1 in ("f32", "f64") and rng.random() < 0.7:
                v = rng.choice([-1, 1]) * rng.randint(0, 2 ** 24) * 2.0 ** rng.randint(-40, 100)
            yield make_case("scalar", k1, k2, None, [v], stream="scalar-random")


def shrink(case):
    return []
