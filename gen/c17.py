"""C17 — state machines: generator of small transition systems x all small inputs.

Case S-expression (decoded by coq/theories/Model/Fsm.v):
  case   ::= (case <decl> (args <arg>*) <max_steps>)
  decl   ::= (fsm "M" (inputs (in "n" <kind>|(none))*) <kind>|(none) <spec> (start "A" (<expr>*)) (arms <arm>*))
  spec   ::= (nospec) | (spec (st "A" (<kind>*))*)
  kind   ::= (ks "u64") | (kv "u64") | (kvn "u64" r c)
  arg    ::= (as "u64" 5) | (am "u64" r c (5 3 8))            payloads as canon.rs prints them
  expr   ::= <atom> | (add e e) | (sub e e) | (mul e e) | (arr <atom>*)      atom ::= (var "x") | (lit 5)
  guard  ::= (wild) | (cmp gt|lt|ge|le|eq|ne e e) | (and g g) | (or g g) | (not g)
  pat    ::= (pv "x") | (pl 5) | (pw) | (pa (<ipat>*) <spread> (<ipat>*))    ipat ::= (pv "x") | (pl 5)
  spread ::= (snone) | (sanon) | (srest "t")
  target ::= (next "B" (<expr>*)) | (out <expr>)
  arm    ::= (arm "A" (<pat>*) (t <target>)) | (arm "A" (<pat>*) (g (<guard> <target>)*))
The Python side only renders this AST to Mech source; what the machine must do is decided by the Coq model.
"""
import itertools
from vlib.core import sx, q

PROP = "C17"
MODE = "fsm"
RULE = ("machines with 1-4 states (5 for the bubble sort of the test suite) and 1-3 payload fields (u64 scalars, [u64] vectors): "
        "the documented machines (counter, fibonacci, traffic light, clamp, turnstile) and vector machines (sum, reverse, max, "
        "ends, bubble sort, literal heads), machines whose guards overlap in every order, literal-pattern arms in every order, "
        "guard arms that fall through to later arms, and randomly generated transition systems (scalar and array-pattern "
        "states: [], [x], [x | t], [a, b | t], [x ...], [a ... b], literal elements); each run on all inputs of a small domain "
        "(scalars 0,1,2,3,5; vectors of length 1-4) with transition limits 0..64, so that the same machine is seen terminating, "
        "hitting the limit exactly, and cut off; non-terminating machines; ill-formed declarations (transition/start to a state "
        "without arm, declared or not; declared state without arm; arm'd state missing from the specification; no "
        "specification); wrong argument kinds (u8, u32, i64, f64, bool, string, vectors for scalars and vice versa, f64/u8/bool "
        "vectors, wrong fixed shape) and counts; inputs without kind annotation; ill-scoped and ill-kinded machines (advisory). "
        "non-trivial = distinct case whose run reached an output arm or the transition limit and whose result AND traced state "
        "sequence (state names, scalar payloads, vector lengths, arm and guard index per iteration) equal the model's")
ASSUMPTIONS = [
    "the visited states are observed through the interpreter's own trace facility (cargo feature `trace` of mech-interpreter, "
    "Interpreter::trace_events): per iteration the state tuple (name, scalar payload values; vectors only as kind+shape) and the "
    "index of the arm / guard that fired; vector contents are compared only in the final result",
    "payload and output kinds are u64 / [u64]; arithmetic is u64 of the dev profile (overflow = error); runs in which an "
    "expression fails to evaluate are advisory, as are runs that halt because no arm applies (the interpreter returns the state)",
    "binding verdicts are given for well-scoped declarations only (every arm uses its own pattern's variables and inputs no "
    "pattern rebinds; C17_lexical_scoping); the interpreter's environment leak between arms is modelled but advisory",
    "Interpreter.max_steps is set per case (0..64, thorough: ..200) instead of the default 1000000; an invocation that gives no "
    "answer within 120 s is reported as a hang (= violation)",
    "error kinds are compared by name (FsmUndefinedState, FsmArgumentKindMismatch, IncorrectNumberOfArguments, "
    "FsmExceededTransitionLimit); a rejection must come with an empty trace",
]
TRIVIAL_TAGS = ["rejected-state", "rejected-argkind", "rejected-argcount"]
STALL = 120.0

U64 = ("ks", "u64")
VEC = ("kv", "u64")


# ------------------------------------------------------------------ AST helpers
def var(x): return ("var", x)
def lit(n): return ("lit", n)
def add(a, b): return ("add", a, b)
def sub(a, b): return ("sub", a, b)
def mul(a, b): return ("mul", a, b)
def arr(*items): return ("arr", list(items))
def cmp_(op, a, b): return ("cmp", op, a, b)
def nxt(s, *es): return ("next", s, list(es))
def out(e): return ("out", e)
def pv(x): return ("pv", x)
def pl(n): return ("pl", n)
def pa(pre, spread=("snone",), suf=()): return ("pa", list(pre), spread, list(suf))
def arm_t(s, pats, target): return ("arm", s, list(pats), ("t", target))
def arm_g(s, pats, gts): return ("arm", s, list(pats), ("g", list(gts)))
WILD = ("wild",)


def machine(inputs, outk, spec, start, arms, name="M"):
    return dict(name=name, inputs=list(inputs), out=outk, spec=spec, start=start, arms=list(arms))


# ------------------------------------------------------------------ rendering: S-expression
def kind_sx(k):
    if k is None:
        return ["none"]
    if k[0] == "kvn":
        return ["kvn", q(k[1]), k[2], k[3]]
    return [k[0], q(k[1])]


def expr_sx(e):
    t = e[0]
    if t == "var": return ["var", q(e[1])]
    if t == "lit": return ["lit", e[1]]
    if t == "arr": return ["arr"] + [expr_sx(a) for a in e[1]]
    return [t, expr_sx(e[1]), expr_sx(e[2])]


def guard_sx(g):
    t = g[0]
    if t == "wild": return ["wild"]
    if t == "cmp": return ["cmp", g[1], expr_sx(g[2]), expr_sx(g[3])]
    if t == "not": return ["not", guard_sx(g[1])]
    return [t, guard_sx(g[1]), guard_sx(g[2])]


def ipat_sx(p):
    return ["pv", q(p[1])] if p[0] == "pv" else ["pl", p[1]]


def pat_sx(p):
    t = p[0]
    if t == "pv": return ["pv", q(p[1])]
    if t == "pl": return ["pl", p[1]]
    if t == "pw": return ["pw"]
    sp = p[2]
    return ["pa", [ipat_sx(i) for i in p[1]], (["srest", q(sp[1])] if sp[0] == "srest" else [sp[0]]), [ipat_sx(i) for i in p[3]]]


def target_sx(t):
    if t[0] == "out": return ["out", expr_sx(t[1])]
    return ["next", q(t[1]), [expr_sx(e) for e in t[2]]]


def arm_sx(a):
    _, s, pats, body = a
    if body[0] == "t":
        b = ["t", target_sx(body[1])]
    else:
        b = ["g"] + [[guard_sx(g), target_sx(t)] for g, t in body[1]]
    return ["arm", q(s), [pat_sx(p) for p in pats], b]


def decl_sx(d):
    spec = ["nospec"] if d["spec"] is None else ["spec"] + [["st", q(n), [kind_sx(k) for k in ks]] for n, ks in d["spec"]]
    return ["fsm", q(d["name"]), ["inputs"] + [["in", q(n), kind_sx(k)] for n, k in d["inputs"]], kind_sx(d["out"]), spec,
            ["start", q(d["start"][0]), [expr_sx(e) for e in d["start"][1]]], ["arms"] + [arm_sx(a) for a in d["arms"]]]


def arg_sx(a):
    if a[0] == "as": return ["as", q(a[1]), a[2]]
    return ["am", q(a[1]), a[2], a[3], list(a[4])]


# ------------------------------------------------------------------ rendering: Mech source
def kind_src(k):
    if k[0] == "ks": return "<%s>" % k[1]
    if k[0] == "kv": return "<[%s]>" % k[1]
    return "<[%s]:%d,%d>" % (k[1], k[2], k[3])


def atom_src(e):
    if e[0] == "var": return e[1]
    assert e[0] == "lit", e
    return "%du64" % e[1]


OPS = {"add": "+", "sub": "-", "mul": "*"}


def expr_src(e, nested=False):
    t = e[0]
    if t in ("var", "lit"):
        return atom_src(e)
    if t == "arr":
        return "[" + " ".join(atom_src(a) for a in e[1]) + "]"
    # the left operand must not start with "(" (a leading parenthesis is parsed as a tuple pattern)
    assert e[1][0] in ("var", "lit"), e
    s = "%s %s %s" % (atom_src(e[1]), OPS[t], expr_src(e[2], True))
    return "(" + s + ")" if nested else s


CMPS = {"gt": ">", "lt": "<", "ge": ">=", "le": "<=", "eq": "==", "ne": "!="}


def cmp_src(g):
    assert g[0] == "cmp", g
    return "%s %s %s" % (expr_src(g[2]), CMPS[g[1]], expr_src(g[3]))


def guard_src(g):
    t = g[0]
    if t == "wild": return "*"
    if t == "cmp": return cmp_src(g)
    if t == "not": return "!(" + cmp_src(g[1]) + ")"
    return "%s %s %s" % (cmp_src(g[1]), "&&" if t == "and" else "||", cmp_src(g[2]))


def ipat_src(p):
    return p[1] if p[0] == "pv" else "%du64" % p[1]


def pat_src(p):
    t = p[0]
    if t == "pv": return p[1]
    if t == "pl": return "%du64" % p[1]
    if t == "pw": return "*"
    pre, sp, suf = p[1], p[2], p[3]
    if sp[0] == "srest":
        assert not suf
        return "[" + ", ".join(ipat_src(i) for i in pre) + " | " + sp[1] + "]"
    items = [ipat_src(i) for i in pre]
    if sp[0] == "sanon":
        items.append("...")
    items += [ipat_src(i) for i in suf]
    return "[" + " ".join(items) + "]"


def state_src(name, parts):
    return ":%s(%s)" % (name, ", ".join(parts))


def target_src(t):
    if t[0] == "out":
        return "=> " + expr_src(t[1])
    return "-> " + state_src(t[1], [expr_src(e) for e in t[2]])


def decl_src(d):
    lines = []
    def inputs():
        return ", ".join(n + (kind_src(k) if k is not None else "") for n, k in d["inputs"])
    if d["spec"] is not None:
        lines.append("#%s(%s) => %s" % (d["name"], inputs(), kind_src(d["out"])))
        n = len(d["spec"])
        for i, (s, ks) in enumerate(d["spec"]):
            lines.append("  %s %s%s" % ("└" if i == n - 1 else "├", state_src(s, ["p%d%s" % (j, kind_src(k)) for j, k in enumerate(ks)]),
                                       "." if i == n - 1 else ""))
        lines.append("")
    lines.append("#%s(%s) -> %s" % (d["name"], inputs(), state_src(d["start"][0], [expr_src(e) for e in d["start"][1]])))
    for (_, s, pats, body) in d["arms"]:
        head = "  " + state_src(s, [pat_src(p) for p in pats])
        if body[0] == "t":
            lines.append(head + " " + target_src(body[1]))
        else:
            lines.append(head)
            gts = body[1]
            for i, (g, t) in enumerate(gts):
                lines.append("    %s %s %s" % ("└" if i == len(gts) - 1 else "├", guard_src(g), target_src(t)))
    lines[-1] += "."
    return "\n".join(lines)


def arg_src(a):
    if a[0] == "as":
        k, z = a[1], a[2]
        if k == "u64": return "%du64" % z
        if k in ("u8", "u16", "u32", "u128"): return "%d%s" % (z, k)
        if k in ("i8", "i16", "i32", "i64", "i128"): return "%d<%s>" % (z, k)
        if k == "f64": return a[3] if len(a) > 3 else str(z)
        if k == "bool": return "true" if z else "false"
        if k == "string": return '"s"'
        raise ValueError(a)
    k, r, c, data = a[1], a[2], a[3], a[4]
    src = a[5] if len(a) > 5 else None
    if src is not None:
        return src
    assert k == "u64"
    rows = [" ".join("%du64" % data[i * c + j] for j in range(c)) for i in range(r)]
    return "[" + "; ".join(rows) + "]"


def make_case(d, args, max_steps, tags):
    src = decl_src(d) + "\n\n#%s(%s)" % (d["name"], ", ".join(arg_src(a) for a in args))
    import zlib
    scalar_ok = (d.get("spec") is not None and d["inputs"] and len(args) == len(d["inputs"]) and
                 all(k == U64 for _, k in d["inputs"]) and all(a[0] == "as" and a[1] == "u64" for a in args) and d["out"] in (U64, VEC))
    if scalar_ok and tags.get("stream") in ("documented", "random-scalar") and zlib.crc32(src.encode()) % 6 == 0:
        # the machine is started from a function arm with the arm's PATTERN variables as arguments (a local environment),
        # while globals of the same names hold other values: the arguments of a machine call must be evaluated in the
        # caller's environment.  Only the machine emits trace events, so result and trace are those of the direct call.
        n = len(args)
        xs = ["qx%d" % i for i in range(n)]
        decoys = "\n".join("%s := %du64" % (x, a[2] + 1 + i) for i, (x, a) in enumerate(zip(xs, args)))
        params = ", ".join("qp%d<u64>" % i for i in range(n))
        pat = xs[0] if n == 1 else "(" + ", ".join(xs) + ")"
        call = "#%s(%s)" % (d["name"], ", ".join(xs))
        fn = "startvia(%s) => %s\n  ├ %s => %s\n  └ * => %s." % (params, kind_src(d["out"]), pat, call, call)
        src = decl_src(d) + "\n\n" + decoys + "\n" + fn + "\nstartvia(%s)" % ", ".join(arg_src(a) for a in args)
        tags = dict(tags, started="from-function-arm")
    return dict(sx=sx(["case", decl_sx(d), ["args"] + [arg_sx(a) for a in args], max_steps]),
                impl=dict(src=src, max_steps=max_steps), tags=tags, _ast=(d, list(args), max_steps))


def A(z): return ("as", "u64", z)
def V(*zs): return ("am", "u64", 1, len(zs), list(zs))


# ------------------------------------------------------------------ the documented machines
def m_counter(order=0):
    gts = [(cmp_("gt", var("n"), lit(0)), nxt("Count", sub(var("n"), lit(1)))),
           (cmp_("eq", var("n"), lit(0)), nxt("Done", lit(0)))]
    if order:
        gts.reverse()
    return machine([("n", U64)], U64, [("Count", [U64]), ("Done", [U64])], ("Count", [var("n")]),
                   [arm_g("Count", [pv("n")], gts), arm_t("Done", [pv("n")], out(var("n")))])


def m_fib():
    return machine([("n", U64)], U64, [("Compute", [U64, U64, U64]), ("Done", [U64])],
                   ("Compute", [var("n"), lit(0), lit(1)]),
                   [arm_g("Compute", [pv("n"), pv("a"), pv("b")],
                          [(cmp_("gt", var("n"), lit(0)), nxt("Compute", sub(var("n"), lit(1)), var("b"), add(var("a"), var("b")))),
                           (cmp_("eq", var("n"), lit(0)), nxt("Done", var("a")))]),
                    arm_t("Done", [pv("n")], out(var("n")))])


def m_traffic():
    def st(a, b):
        return arm_g(a, [pv("steps")], [(cmp_("gt", var("steps"), lit(0)), nxt(b, sub(var("steps"), lit(1)))),
                                        (cmp_("eq", var("steps"), lit(0)), nxt("Done", lit(0)))])
    return machine([("steps", U64)], U64, [("Red", [U64]), ("Green", [U64]), ("Yellow", [U64]), ("Done", [U64])],
                   ("Red", [var("steps")]),
                   [st("Red", "Green"), st("Green", "Yellow"), st("Yellow", "Red"), arm_t("Done", [pv("o")], out(var("o")))])


def m_clamp(perm=(0, 1, 2)):
    gts = [(cmp_("lt", var("n"), var("lo")), nxt("Done", var("lo"))),
           (cmp_("gt", var("n"), var("hi")), nxt("Done", var("hi"))),
           (("and", cmp_("ge", var("n"), var("lo")), cmp_("le", var("n"), var("hi"))), nxt("Done", var("n")))]
    gts = [gts[i] for i in perm]
    return machine([("n", U64), ("lo", U64), ("hi", U64)], U64, [("Check", [U64, U64, U64]), ("Done", [U64])],
                   ("Check", [var("n"), var("lo"), var("hi")]),
                   [arm_g("Check", [pv("n"), pv("lo"), pv("hi")], gts), arm_t("Done", [pv("o")], out(var("o")))])


def m_turnstile():
    return machine([("coins", U64)], U64, [("Locked", [U64]), ("Unlocked", [U64]), ("Spinning", [U64]), ("Done", [U64])],
                   ("Locked", [var("coins")]),
                   [arm_g("Locked", [pv("coins")], [(cmp_("gt", var("coins"), lit(0)), nxt("Unlocked", sub(var("coins"), lit(1)))),
                                                   (cmp_("eq", var("coins"), lit(0)), nxt("Done", lit(0)))]),
                    arm_t("Unlocked", [pv("coins")], nxt("Spinning", var("coins"))),
                    arm_t("Spinning", [pv("coins")], nxt("Locked", var("coins"))),
                    arm_t("Done", [pv("o")], out(var("o")))])


def m_overlap(variant):
    """two guards true at once: which one wins is visible in the result"""
    g1 = (cmp_("ge", var("n"), lit(1)), nxt("Done", add(var("n"), lit(100))))
    g2 = (cmp_("ge", var("n"), lit(2)), nxt("Done", add(var("n"), lit(200))))
    g3 = (WILD, nxt("Done", lit(7)))
    gts = [[g1, g2, g3], [g2, g1, g3], [g3, g1, g2], [g1, g3, g2]][variant]
    return machine([("n", U64)], U64, [("A", [U64]), ("Done", [U64])], ("A", [var("n")]),
                   [arm_g("A", [pv("n")], gts), arm_t("Done", [pv("o")], out(var("o")))])


def m_literal_arms(variant):
    """literal-pattern arms for one state; the general arm first hides the literal one"""
    a0 = arm_t("A", [pl(0), pv("m")], nxt("Done", var("m")))
    a1 = arm_t("A", [pv("n"), pv("m")], nxt("A", sub(var("n"), lit(1)), add(var("m"), lit(2))))
    a2 = arm_g("A", [pv("n"), pl(3)], [(cmp_("gt", var("n"), lit(1)), out(add(var("n"), lit(50))))])
    arms = [[a0, a1], [a2, a0, a1], [a1, a0], [a0, a2, a1]][variant]
    return machine([("n", U64), ("m", U64)], U64, [("A", [U64, U64]), ("Done", [U64])], ("A", [var("n"), var("m")]),
                   arms + [arm_t("Done", [pv("o")], out(var("o")))])


def m_fallthrough():
    """a guard arm none of whose guards holds falls through to the next arm of the same state"""
    return machine([("n", U64), ("m", U64)], U64, [("A", [U64, U64]), ("B", [U64]), ("Done", [U64])],
                   ("A", [var("n"), var("m")]),
                   [arm_g("A", [pv("n"), pv("m")], [(cmp_("gt", var("n"), var("m")), nxt("B", var("n"))),
                                                    (("and", cmp_("eq", var("n"), var("m")), cmp_("gt", var("n"), lit(1))), out(lit(99)))]),
                    arm_g("A", [pv("x"), pv("y")], [(cmp_("lt", var("x"), lit(2)), nxt("A", add(var("x"), lit(2)), var("y"))),
                                                    (("not", cmp_("ge", var("y"), lit(3))), nxt("B", mul(var("y"), lit(2))))]),
                    arm_t("B", [pv("k")], nxt("Done", add(var("k"), lit(10)))),
                    arm_t("Done", [pv("o")], out(var("o")))])


def m_input_capture():
    """an arm that uses a machine input which no pattern of that arm binds"""
    return machine([("n", U64), ("m", U64)], U64, [("B", [U64]), ("Done", [U64])], ("B", [var("n")]),
                   [arm_g("B", [pv("k")], [(cmp_("lt", var("k"), var("m")), nxt("B", add(var("k"), lit(1)))),
                                           (WILD, nxt("Done", add(var("k"), var("m"))))]),
                    arm_t("Done", [pv("o")], out(var("o")))])


def m_leak(variant):
    """ill-scoped on purpose: an arm uses a variable that only ANOTHER arm's pattern binds / rebinds"""
    if variant == 0:
        return machine([("n", U64), ("m", U64)], U64, [("A", [U64]), ("B", [U64]), ("Done", [U64])], ("A", [var("n")]),
                       [arm_t("A", [pv("m")], nxt("B", add(var("m"), lit(1)))),
                        arm_t("B", [pv("k")], nxt("Done", add(var("k"), var("m")))),
                        arm_t("Done", [pv("o")], out(var("o")))])
    return machine([("n", U64), ("m", U64)], U64, [("A", [U64]), ("B", [U64]), ("Done", [U64])], ("A", [var("n")]),
                   [arm_t("A", [pv("x")], nxt("B", add(var("x"), var("m")))),
                    arm_t("B", [pv("k")], nxt("Done", add(var("k"), var("x")))),
                    arm_t("Done", [pv("o")], out(var("o")))])


def m_vsum():
    return machine([("xs", VEC)], U64, [("S", [VEC, U64]), ("Done", [U64])], ("S", [var("xs"), lit(0)]),
                   [arm_t("S", [pa([]), pv("acc")], nxt("Done", var("acc"))),
                    arm_t("S", [pa([pv("x")], ("srest", "t")), pv("acc")], nxt("S", var("t"), add(var("acc"), var("x")))),
                    arm_t("Done", [pv("o")], out(var("o")))])


def m_vreverse():
    return machine([("xs", VEC)], VEC, [("S", [VEC, VEC]), ("Done", [VEC])], ("S", [var("xs"), arr()]),
                   [arm_t("S", [pa([]), pv("acc")], nxt("Done", var("acc"))),
                    arm_t("S", [pa([pv("x")], ("srest", "t")), pv("acc")], nxt("S", var("t"), arr(var("x"), var("acc")))),
                    arm_t("Done", [pv("o")], out(var("o")))])


def m_vmax():
    return machine([("xs", VEC)], U64, [("S", [VEC]), ("Done", [U64])], ("S", [var("xs")]),
                   [arm_g("S", [pa([pv("a"), pv("b")], ("srest", "t"))],
                          [(cmp_("ge", var("a"), var("b")), nxt("S", arr(var("a"), var("t")))),
                           (WILD, nxt("S", arr(var("b"), var("t"))))]),
                    arm_t("S", [pa([pv("x")])], nxt("Done", var("x"))),
                    arm_t("Done", [pv("o")], out(var("o")))])


def m_vends():
    return machine([("xs", VEC)], VEC, [("S", [VEC, VEC]), ("Done", [VEC])], ("S", [var("xs"), arr()]),
                   [arm_t("S", [pa([pv("x")]), pv("acc")], nxt("Done", arr(var("acc"), var("x"), var("x")))),
                    arm_t("S", [pa([pv("a")], ("sanon",), [pv("b")]), pv("acc")], nxt("S", arr(var("b")), arr(var("a"), var("acc"), lit(7)))),
                    arm_t("Done", [pv("o")], out(var("o")))])


def m_vbubble():
    """one bubble pass + reverse, until no swap (the test-suite machine)"""
    return machine([("arr", VEC)], VEC,
                   [("Start", [VEC]), ("Pass", [VEC, VEC, U64]), ("Next", [VEC, U64]), ("Reverse", [VEC, VEC, U64]), ("Done", [VEC])],
                   ("Start", [var("arr")]),
                   [arm_t("Start", [pv("arr")], nxt("Pass", var("arr"), arr(), lit(0))),
                    arm_g("Pass", [pa([pv("a"), pv("b")], ("srest", "tail")), pv("acc"), pv("swaps")],
                          [(cmp_("gt", var("a"), var("b")), nxt("Pass", arr(var("a"), var("tail")), arr(var("b"), var("acc")), add(var("swaps"), lit(1)))),
                           (WILD, nxt("Pass", arr(var("b"), var("tail")), arr(var("a"), var("acc")), var("swaps")))]),
                    arm_t("Pass", [pa([pv("x")]), pv("acc"), pv("swaps")], nxt("Next", arr(var("x"), var("acc")), var("swaps"))),
                    arm_t("Pass", [pa([]), pv("acc"), pv("swaps")], nxt("Next", var("acc"), var("swaps"))),
                    arm_t("Next", [pv("arr"), pv("swaps")], nxt("Reverse", var("arr"), arr(), var("swaps"))),
                    arm_t("Reverse", [pa([pv("x")], ("srest", "tail")), pv("acc"), pv("swaps")], nxt("Reverse", var("tail"), arr(var("x"), var("acc")), var("swaps"))),
                    arm_t("Reverse", [pa([]), pv("acc"), pl(0)], nxt("Done", var("acc"))),
                    arm_t("Reverse", [pa([]), pv("acc"), pv("swaps")], nxt("Pass", var("acc"), arr(), lit(0))),
                    arm_t("Done", [pv("arr")], out(var("arr")))])


def m_vliteral_head():
    """literal element patterns and anonymous spread"""
    return machine([("xs", VEC), ("n", U64)], U64, [("S", [VEC, U64]), ("Done", [U64])], ("S", [var("xs"), var("n")]),
                   [arm_t("S", [pa([pl(0)], ("srest", "t")), pv("k")], nxt("S", var("t"), add(var("k"), lit(10)))),
                    arm_g("S", [pa([pv("x")], ("sanon",)), pv("k")],
                          [(cmp_("gt", var("x"), var("k")), out(mul(var("x"), lit(3)))),
                           (cmp_("eq", var("x"), var("k")), nxt("S", arr(lit(0), var("x")), lit(1)))]),
                    arm_t("S", [pa([pv("a")], ("sanon",), [pv("b")]), pv("k")], nxt("Done", add(var("a"), var("b")))),
                    arm_t("S", [pv("rest"), pv("k")], out(var("k"))),
                    arm_t("Done", [pv("o")], out(var("o")))])


def m_vsuffix():
    """a state visited repeatedly whose array pattern binds a variable AFTER the spread; the trailing element differs on
    every visit (pattern variables must be rebound per visit, not compared with the previous visit's binding)"""
    return machine([("xs", VEC), ("n", U64)], U64, [("S", [VEC, U64]), ("Done", [U64])], ("S", [var("xs"), var("n")]),
                   [arm_g("S", [pa([pv("a")], ("sanon",), [pv("b")]), pv("k")],
                          [(cmp_("gt", var("k"), lit(5)), nxt("Done", add(var("b"), mul(var("a"), lit(100))))),
                           (WILD, nxt("S", arr(var("b"), var("a"), var("k")), add(var("k"), lit(1))))]),
                    arm_t("S", [pv("rest"), pv("k")], out(var("k"))),
                    arm_t("Done", [pv("o")], out(var("o")))])


def m_nonterm(variant):
    if variant == 0:      # two-state ping-pong with a growing payload
        return machine([("n", U64)], U64, [("A", [U64]), ("B", [U64]), ("Done", [U64])], ("A", [var("n")]),
                       [arm_t("A", [pv("n")], nxt("B", add(var("n"), lit(1)))), arm_t("B", [pv("n")], nxt("A", var("n"))),
                        arm_t("Done", [pv("n")], out(var("n")))])
    if variant == 1:      # self loop, constant state
        return machine([("n", U64)], U64, [("A", [U64])], ("A", [var("n")]),
                       [arm_g("A", [pv("n")], [(cmp_("gt", var("n"), lit(100)), out(var("n"))), (WILD, nxt("A", var("n")))])])
    if variant == 2:      # terminates only for even inputs
        return machine([("n", U64)], U64, [("A", [U64]), ("Done", [U64])], ("A", [var("n")]),
                       [arm_t("A", [pl(0)], nxt("Done", lit(1))), arm_t("A", [pl(1)], nxt("A", lit(1))),
                        arm_t("A", [pv("n")], nxt("A", sub(var("n"), lit(2)))), arm_t("Done", [pv("n")], out(var("n")))])
    # vector rotation forever
    return machine([("xs", VEC)], VEC, [("R", [VEC])], ("R", [var("xs")]),
                   [arm_t("R", [pa([pv("x")], ("srest", "t"))], nxt("R", arr(var("t"), var("x")))),
                    arm_t("R", [pa([])], out(arr()))])


# ------------------------------------------------------------------ random transition systems
STATE_NAMES = ["A", "B", "C", "D"]


def rand_num_expr(rng, nums, depth=1, safe=False):
    """a u64 expression over the scalar variables `nums`; left operands are atoms (rendering restriction)"""
    def atom():
        if nums and rng.random() < 0.7:
            return var(rng.choice(nums))
        return lit(rng.choice([0, 1, 1, 2, 3, 5]))
    r = rng.random()
    if depth == 0 or r < 0.35:
        return atom()
    op = rng.choice(["add", "add", "add", "mul", "mul", "sub"] if not safe else ["add", "add", "mul"])
    rhs = rand_num_expr(rng, nums, depth - 1, safe) if rng.random() < 0.3 else atom()
    return (op, atom(), rhs)


def rand_vec_expr(rng, nums, vecs):
    """at most two vector variables per array: the longest vector at most doubles per transition"""
    if vecs and rng.random() < 0.3:
        return var(rng.choice(vecs))
    items = []
    nv = 0
    for _ in range(rng.randint(0, 3)):
        r = rng.random()
        if vecs and r < 0.45 and nv < 2:
            items.append(var(rng.choice(vecs))); nv += 1
        elif nums and r < 0.85:
            items.append(var(rng.choice(nums)))
        else:
            items.append(lit(rng.choice([0, 1, 2, 9])))
    return arr(*items)


def rand_cmp(rng, nums):
    a = var(rng.choice(nums)) if nums else lit(rng.choice([0, 1, 2]))
    r = rng.random()
    if r < 0.5 or len(nums) < 2:
        b = lit(rng.choice([0, 1, 2, 3]))
    elif r < 0.8:
        b = var(rng.choice(nums))
    else:
        b = add(var(rng.choice(nums)), lit(1))
    return cmp_(rng.choice(["gt", "lt", "ge", "le", "eq", "ne"]), a, b)


def rand_guard(rng, nums):
    r = rng.random()
    if r < 0.6 or not nums:
        return rand_cmp(rng, nums)
    if r < 0.75:
        return ("and", rand_cmp(rng, nums), rand_cmp(rng, nums))
    if r < 0.9:
        return ("or", rand_cmp(rng, nums), rand_cmp(rng, nums))
    return ("not", rand_cmp(rng, nums))


def rand_machine(rng, with_vec):
    ns = rng.randint(1, 4)
    names = STATE_NAMES[:ns]
    tys = {}
    for s in names:
        k = rng.randint(1, 3)
        tys[s] = [("v" if (with_vec and rng.random() < 0.45) else "n") for _ in range(k)]
    if with_vec and not any("v" in t for t in tys.values()):
        tys[names[0]][0] = "v"
    out_ty = "v" if (with_vec and rng.random() < 0.4) else "n"
    n_in = rng.randint(1, 2)
    in_tys = [("v" if (with_vec and rng.random() < 0.5) else "n") for _ in range(n_in)]
    if with_vec and "v" not in in_tys:
        in_tys[0] = "v"
    in_names = ["i%d" % j for j in range(n_in)]
    in_nums = [n for n, t in zip(in_names, in_tys) if t == "n"]
    in_vecs = [n for n, t in zip(in_names, in_tys) if t == "v"]

    def payload(target_state, nums, vecs, safe=False):
        es = []
        for t in tys[target_state]:
            if t == "n":
                es.append(rand_num_expr(rng, nums, 1, safe))
            else:
                es.append(rand_vec_expr(rng, nums, vecs))
        return es

    def rand_target(nums, vecs, allow_out=True):
        if allow_out and rng.random() < 0.3:
            if out_ty == "n":
                return out(rand_num_expr(rng, nums))
            return out(rand_vec_expr(rng, nums, vecs))
        s = rng.choice(names)
        return nxt(s, *payload(s, nums, vecs))

    arms = []
    counter = [0]
    def fresh(prefix):
        counter[0] += 1
        return "%s%d" % (prefix, counter[0])
    for s in names:
        n_arms = rng.choice([1, 1, 2, 2, 3])
        for ai in range(n_arms):
            pats, nums, vecs = [], [], []
            last_arm = ai == n_arms - 1
            for t in tys[s]:
                r = rng.random()
                if t == "n":
                    if not last_arm and r < 0.4:
                        pats.append(pl(rng.choice([0, 1, 2])))
                    elif r < 0.93:
                        x = fresh("x"); pats.append(pv(x)); nums.append(x)
                    else:
                        pats.append(("pw",))
                else:
                    if last_arm and r < 0.75:
                        x = fresh("w"); pats.append(pv(x)); vecs.append(x)
                    else:
                        form = rng.choice(["empty", "one", "cons", "cons", "cons2", "head", "ends", "lit"])
                        if form == "empty":
                            pats.append(pa([]))
                        elif form == "one":
                            x = fresh("h"); nums.append(x); pats.append(pa([pv(x)]))
                        elif form == "cons":
                            x, t_ = fresh("h"), fresh("t"); nums.append(x); vecs.append(t_)
                            pats.append(pa([pv(x)], ("srest", t_)))
                        elif form == "cons2":
                            x, y, t_ = fresh("h"), fresh("h"), fresh("t"); nums += [x, y]; vecs.append(t_)
                            pats.append(pa([pv(x), pv(y)], ("srest", t_)))
                        elif form == "head":
                            x = fresh("h"); nums.append(x); pats.append(pa([pv(x)], ("sanon",)))
                        elif form == "ends":
                            x, y = fresh("h"), fresh("h"); nums += [x, y]; pats.append(pa([pv(x)], ("sanon",), [pv(y)]))
                        else:
                            t_ = fresh("t"); vecs.append(t_); pats.append(pa([pl(rng.choice([0, 1]))], ("srest", t_)))
            if rng.random() < 0.45 or not nums:
                arms.append(arm_t(s, pats, rand_target(nums, vecs)))
            else:
                gts = []
                ng = rng.randint(1, 3)
                for gi in range(ng):
                    r = rng.random()
                    if r < 0.3:
                        # decrementing loop branch: x > c -> same state with x - 1 in x's slot where possible
                        x = rng.choice(nums)
                        g = cmp_("gt", var(x), lit(rng.choice([0, 0, 1])))
                        s2 = rng.choice(names)
                        es = payload(s2, nums, vecs)
                        for j, t in enumerate(tys[s2]):
                            if t == "n":
                                es[j] = sub(var(x), lit(1)); break
                        gts.append((g, nxt(s2, *es)))
                    elif gi == ng - 1 and (r < 0.42 or (last_arm and r < 0.8)):
                        gts.append((WILD, rand_target(nums, vecs)))
                    elif r < 0.55 and gts:
                        # duplicate the previous guard (or weaken it): both true at once, different targets
                        gts.append((gts[-1][0], rand_target(nums, vecs)))
                    else:
                        gts.append((rand_guard(rng, nums), rand_target(nums, vecs)))
                arms.append(arm_g(s, pats, gts))
    # make sure an output exists somewhere
    has_out = any((b[0] == "t" and b[1][0] == "out") or (b[0] == "g" and any(t[0] == "out" for _, t in b[1])) for (_, _, _, b) in arms)
    if not has_out:
        s = names[-1]
        pats, nums, vecs = [], [], []
        for t in tys[s]:
            x = fresh("o"); pats.append(pv(x)); (nums if t == "n" else vecs).append(x)
        o = out(rand_num_expr(rng, nums, 0)) if out_ty == "n" else out(rand_vec_expr(rng, nums, vecs))
        arms.insert(rng.randrange(len(arms) + 1) if rng.random() < 0.3 else 0, arm_t(s, pats, o))
    K = {"n": U64, "v": VEC}
    spec = [(s, [K[t] for t in tys[s]]) for s in names]
    start_state = names[0]
    d = machine([(n, K[t]) for n, t in zip(in_names, in_tys)], K[out_ty], spec,
                (start_state, payload(start_state, in_nums, in_vecs, True)), arms)
    return d, in_tys


NUM_DOMAIN = [0, 1, 2, 3, 5]
VEC_DOMAIN = [V(1), V(0), V(2, 1), V(1, 2), V(0, 3), V(3, 1, 2), V(2, 2, 0), V(1, 0, 1), V(4, 3, 2, 1)]


def input_domain(in_tys, rng, cap):
    doms = [[A(z) for z in NUM_DOMAIN] if t == "n" else VEC_DOMAIN for t in in_tys]
    allc = list(itertools.product(*doms))
    if len(allc) > cap:
        allc = rng.sample(allc, cap)
    return allc


# ------------------------------------------------------------------ ill-formed variants
def clone(d):
    import copy
    return copy.deepcopy(d)


def retarget(d, rng, new_name):
    """redirect one transition to `new_name`; returns None when the machine has no transition"""
    d = clone(d)
    slots = []
    for ai, (_, s, pats, body) in enumerate(d["arms"]):
        if body[0] == "t" and body[1][0] == "next":
            slots.append((ai, None))
        elif body[0] == "g":
            for gi, (g, t) in enumerate(body[1]):
                if t[0] == "next":
                    slots.append((ai, gi))
    if not slots:
        return None
    ai, gi = rng.choice(slots)
    _, s, pats, body = d["arms"][ai]
    if gi is None:
        t = body[1]
        d["arms"][ai] = ("arm", s, pats, ("t", ("next", new_name, t[2])))
    else:
        gts = list(body[1])
        g, t = gts[gi]
        gts[gi] = (g, ("next", new_name, t[2]))
        d["arms"][ai] = ("arm", s, pats, ("g", gts))
    return d


def targets_of(d):
    ts = {d["start"][0]}
    for (_, s, pats, body) in d["arms"]:
        for t in ([body[1]] if body[0] == "t" else [t for _, t in body[1]]):
            if t[0] == "next":
                ts.add(t[1])
    return ts


def ill_formed_variants(d, rng):
    """(label, declaration) pairs"""
    res = []
    # transition to a state that is neither declared nor implemented
    v = retarget(d, rng, "Z")
    if v: res.append(("undeclared-target", v))
    # ... to a state that is declared but has no arm
    v = retarget(d, rng, "Z")
    if v:
        v["spec"] = v["spec"] + [("Z", [U64])]
        res.append(("declared-armless-target", v))
    # remove all arms of a state that is the target of some transition (declared state without an arm, referenced)
    tg = [s for s in targets_of(d) if s != d["start"][0]]
    if tg:
        s = rng.choice(sorted(tg))
        v = clone(d); v["arms"] = [a for a in v["arms"] if a[1] != s]
        if v["arms"]:
            res.append(("armless-referenced", v))
    # start state without arm
    v = clone(d); v["start"] = ("Z", v["start"][1])
    res.append(("undeclared-start", v))
    v = clone(d); v["start"] = ("Z", v["start"][1]); v["spec"] = v["spec"] + [("Z", [U64] * len(v["start"][1]))]
    res.append(("declared-armless-start", v))
    # declared state without an arm that nothing refers to  (accepted by the code: known finding)
    v = clone(d); v["spec"] = v["spec"] + [("Unused", [U64])]
    res.append(("declared-armless-unreferenced", v))
    # a state with arms that is used but missing from the specification (accepted by the code: known finding)
    used = [s for s in targets_of(d)]
    s = rng.choice(sorted(used))
    v = clone(d); v["spec"] = [st for st in v["spec"] if st[0] != s]
    if v["spec"]:
        res.append(("undeclared-with-arm", v))
    # no specification at all: the arms are the declaration
    v = retarget(d, rng, "Z")
    if v:
        v["spec"] = None
        res.append(("nospec-undeclared-target", v))
    v = clone(d); v["spec"] = None
    res.append(("nospec-wellformed", v))
    return res


WRONG_SCALARS = [("as", "u8", 3), ("as", "u32", 2), ("as", "i64", 3), ("as", "f64", 3, "3"), ("as", "f64", 2, "2.5"),
                 ("as", "bool", 1), ("as", "string", 0), ("am", "u64", 1, 2, [1, 2]), ("am", "f64", 1, 2, [0, 0], "[1 2]")]
WRONG_VECTORS = [("as", "u64", 3), ("as", "f64", 3, "3"), ("am", "f64", 1, 3, [0, 0, 0], "[1 2 3]"),
                 ("am", "u8", 1, 2, [1, 2], "[1u8 2u8]"), ("as", "bool", 0), ("am", "bool", 1, 2, [1, 0], "[true false]")]


def wrong_arg_cases(d, in_tys, good, rng, label):
    for pos in range(len(in_tys)):
        pool = WRONG_SCALARS if in_tys[pos] == "n" else WRONG_VECTORS
        for w in pool:
            args = list(good); args[pos] = w
            yield make_case(d, args, 40, dict(stream="wrong-arg-kind", machine=label))
    yield make_case(d, list(good) + [A(1)], 40, dict(stream="wrong-arg-count", machine=label))
    yield make_case(d, list(good)[:-1], 40, dict(stream="wrong-arg-count", machine=label))


def sized(d, r, c):
    """declare the first vector input with an explicit shape"""
    d = clone(d)
    d["inputs"] = [(n, ("kvn", "u64", r, c) if (k == VEC and i == 0) else k) for i, (n, k) in enumerate(d["inputs"])]
    return d


# ------------------------------------------------------------------ generate
def generate(tier, rng):
    quick = tier == "quick"
    LIMITS = [1, 2, 3, 4, 6, 9, 14, 40, 64]

    documented = [
        ("counter", m_counter(0), ["n"]), ("counter-swapped", m_counter(1), ["n"]), ("fibonacci", m_fib(), ["n"]),
        ("traffic", m_traffic(), ["n"]), ("turnstile", m_turnstile(), ["n"]),
        ("clamp", m_clamp(), ["n", "n", "n"]), ("clamp-231", m_clamp((1, 2, 0)), ["n", "n", "n"]), ("clamp-321", m_clamp((2, 1, 0)), ["n", "n", "n"]),
    ] + [("overlap%d" % v, m_overlap(v), ["n"]) for v in range(4)] \
      + [("literal-arms%d" % v, m_literal_arms(v), ["n", "n"]) for v in range(4)] \
      + [("fallthrough", m_fallthrough(), ["n", "n"]), ("input-capture", m_input_capture(), ["n", "n"]),
         ("leak0", m_leak(0), ["n", "n"]), ("leak1", m_leak(1), ["n", "n"]),
         ("vsum", m_vsum(), ["v"]), ("vreverse", m_vreverse(), ["v"]), ("vmax", m_vmax(), ["v"]), ("vends", m_vends(), ["v"]),
         ("vbubble", m_vbubble(), ["v"]), ("vliteral", m_vliteral_head(), ["v", "n"]),
         ("vsuffix", m_vsuffix(), ["v", "n"])] \
      + [("nonterm%d" % v, m_nonterm(v), ["n"] if v < 3 else ["v"]) for v in range(4)]

    # 1. documented machines x all small inputs x several limits
    for label, d, in_tys in documented:
        ins = input_domain(in_tys, rng, 12 if quick else 200)
        for args in ins:
            lims = [64] + rng.sample(LIMITS[:-1], 1 if quick else 5)
            if label == "vbubble":
                lims = [64, rng.choice([5, 12, 30])]
            for m in lims:
                yield make_case(d, list(args), m, dict(stream="documented", machine=label, limit=m))

    # 2. random scalar machines and random vector machines
    n_rand = (90, 75) if quick else (1500, 1200)
    randoms = []
    for with_vec, n in ((False, n_rand[0]), (True, n_rand[1])):
        for k in range(n):
            d, in_tys = rand_machine(rng, with_vec)
            randoms.append((d, in_tys))
            ins = input_domain(in_tys, rng, 6 if quick else 12)
            for args in ins:
                m = rng.choice([2, 4, 6, 8, 10, 12, 12]) if with_vec else rng.choice([3, 6, 10, 16, 24, 24, 40])
                yield make_case(d, list(args), m, dict(stream="random-vec" if with_vec else "random-scalar", limit=m,
                                                       states=len(d["spec"])))

    # 3. non-terminating machines with many limits (incl. 0)
    for v in range(4):
        d = m_nonterm(v)
        for args in ([[A(0)], [A(1)], [A(4)], [A(7)]] if v < 3 else [[V(1, 2, 3)], [V(5)]]):
            for m in [0, 1, 2, 5, 17, 33, 64] + ([200] if not quick else []):
                yield make_case(d, args, m, dict(stream="nonterminating", machine="nonterm%d" % v, limit=m))

    # 4. ill-formed declarations
    base = [(l, d, t) for (l, d, t) in documented if l in ("counter", "traffic", "turnstile", "fallthrough", "vsum", "vbubble", "literal-arms1", "clamp")]
    pool = [(l, d, t) for (l, d, t) in base] + [("random", d, t) for d, t in rng.sample(randoms, 20 if quick else 300)]
    for label, d, in_tys in pool:
        good = [A(2) if t == "n" else V(2, 1, 3) for t in in_tys]
        for vl, v in ill_formed_variants(d, rng):
            yield make_case(v, good, 12, dict(stream="ill-formed", variant=vl, machine=label))
            if rng.random() < 0.3:
                other = [A(rng.choice(NUM_DOMAIN)) if t == "n" else rng.choice(VEC_DOMAIN) for t in in_tys]
                yield make_case(v, other, 12, dict(stream="ill-formed", variant=vl, machine=label))

    # 5. wrong argument kinds / counts; sized vector kinds; inputs without a kind annotation
    for label, d, in_tys in base + [("random", d, t) for d, t in rng.sample(randoms, 6 if quick else 100)]:
        good = [A(2) if t == "n" else V(2, 1, 3) for t in in_tys]
        for c in wrong_arg_cases(d, in_tys, good, rng, label):
            yield c
    for label, d, in_tys in documented:
        if in_tys[0] != "v":
            continue
        for c in (1, 2, 3, 4):
            ds = sized(d, 1, c)
            for v in [V(1), V(2, 1), V(3, 1, 2), V(4, 3, 2, 1)]:
                args = [v] + [A(2)] * (len(in_tys) - 1)
                yield make_case(ds, args, 64, dict(stream="sized-vector-kind", machine=label))
    # declared output kind that the output arm does not produce (the code never checks it: advisory)
    for label, d, in_tys in documented:
        if label in ("vreverse", "vsum", "counter", "vmax"):
            v = clone(d)
            v["out"] = U64 if d["out"] == VEC else VEC
            for args in input_domain(in_tys, rng, 3):
                yield make_case(v, list(args), 64, dict(stream="ill-kinded-output", machine=label))
    for label, d, in_tys in documented[:6]:
        v = clone(d)
        v["inputs"] = [(n, None) for n, k in v["inputs"]]
        for args in input_domain(in_tys, rng, 4):
            yield make_case(v, list(args), 64, dict(stream="unannotated-input", machine=label))
        yield make_case(v, [("as", "f64", 3, "3")] * len(in_tys), 64, dict(stream="unannotated-input", machine=label))


def shrink(case):
    """smaller variants of a failing case: fewer arms / guards, smaller arguments, lower limit"""
    ast = case.get("_ast")
    if not ast:
        return []
    d, args, m = ast
    tags = dict(case.get("tags") or {}, shrunk=1)
    res = []
    for i in range(len(d["arms"])):
        if len(d["arms"]) > 1:
            v = clone(d); del v["arms"][i]
            res.append(make_case(v, args, m, tags))
    for i, (_, s, pats, body) in enumerate(d["arms"]):
        if body[0] == "g" and len(body[1]) > 1:
            for j in range(len(body[1])):
                v = clone(d); gts = list(body[1]); del gts[j]
                v["arms"][i] = ("arm", s, pats, ("g", gts))
                res.append(make_case(v, args, m, tags))
    for i, a in enumerate(args):
        if a[0] == "as" and a[1] == "u64" and a[2] > 0:
            for z in {0, a[2] - 1, a[2] // 2}:
                if z != a[2]:
                    b = list(args); b[i] = A(z); res.append(make_case(d, b, m, tags))
        if a[0] == "am" and a[1] == "u64" and len(a) == 5 and a[3] > 1:
            b = list(args); b[i] = V(*a[4][1:]); res.append(make_case(d, b, m, tags))
            b = list(args); b[i] = V(*a[4][:-1]); res.append(make_case(d, b, m, tags))
    for m2 in {m // 2, m - 1}:
        if 0 <= m2 < m:
            res.append(make_case(d, args, m2, tags))
    return res


def check(tier, seed, replay=None):
    """standard flow, except that an invocation reported as (hang)/(abort)/(missing) is run once more in a fresh
    harness process before it is believed: under heavy machine load the driver's stall timer fires for whole
    batches at once although every case answers in milliseconds.  A real hang is deterministic and hangs again
    (and is then judged `bad hang`)."""
    import types
    from vlib import core, flow
    plugin = types.SimpleNamespace(**{k: v for k, v in globals().items() if not k.startswith("__") and k != "check"})
    orig = core.run_impl

    def run_impl_retry(mode, cases, exe=None, stall=30.0, workers=None):
        res = orig(mode, cases, exe=exe, stall=stall, workers=workers)
        again = [c for c in cases if not res.get(c["id"], "(missing)").startswith("(fsm")]
        if again:
            core.log("[C17] re-running %d invocation(s) that gave no answer" % len(again))
            res.update(orig(mode, again, exe=exe, stall=stall, workers=workers))
        return res

    core.run_impl = run_impl_retry
    try:
        return flow.standard_check(plugin, tier, seed, replay)
    finally:
        core.run_impl = orig
