"""C14 — sets hold distinct elements of one kind and obey set algebra: generator.

Every case is a Mech program that builds one or two sets (by literal, through a variable, by converting a
matrix, or by a comprehension), applies one operator / relation / membership test / comprehension and returns
the result.  The case S-expression carries the elements *as written* (insertion order, duplicates included);
the Coq judge (Model/SetM.v) computes the mathematical result and checks the observation.

Programs run in mode `multi` (each src in a fresh interpreter): inputs on which Value's Hash and PartialEq are
known to disagree are run 4 times because every IndexSet has a randomly keyed hasher (see judge_case)."""
import itertools, struct
from fractions import Fraction
from vlib.core import sx, q

PROP = "C14"
MODE = "multi"
RULE = ("for each of 20 element universes of 2-5 values (f64, f64 with +0/-0, f32, u8, u64, i8, i64, r64 incl. an unreduced spelling, string, bool, "
        "(f64,f64), (f64,string), (u8,bool), tuples with +0/-0, sets of f64 / u8 / string / tuples, sets of f64 in permuted orders, "
        "sets with +0/-0): pairs of subsets of a 4-value universe (thorough: all 16x16 pairs under all 8 operators, twice for f64/string/u8/i64/bool; quick: all 256 pairs of the "
        "f64 universe and a sample of 40 / 20 / 12 / 6 pairs for scalar / nested / hash-mismatching / depth-3 universes, 2 rotating operators each), "
        "each operand written as a sequence of <= 6 elements (<= 5 / 3 for nested kinds in quick: the parser is exponential in nesting depth) in a "
        "random insertion order with random repetitions, under union, intersection, difference, symmetric difference, subset, proper subset, "
        "superset, proper superset (both spellings); membership / non-membership of universe values in every subset; every subset built by "
        "literal, through a variable, by typed matrix conversion and by identity comprehension over a set / a matrix; all 24 (quick: 8) orders of 4 elements for "
        "5 kinds; sets whose literal lists variables; comprehensions of 22 shapes (1-2 generators over sets / inline sets / matrices; "
        "variable, tuple, wildcard and repeated-variable patterns; 0-2 filters with == != < > <= >= against constants and between variables, "
        "also between the generators; outputs x, y, (x,y), (y,x), (x,x), constants) and of 20 shapes with a DEPENDENT generator (a later "
        "generator ranging over a set literal {x, c} / {x} / {c, x} of earlier variables or over a variable bound earlier to a set: y <- x over a "
        "set of sets, (k, s) <- P followed by y <- s, filters before / after the dependent generator and on k, a third generator over {y, c}; "
        "collections that are no set / unbound / of two kinds); operands of different kinds; mixed-kind literals. "
        "non-trivial = distinct case whose verdict is not kind-error")
ASSUMPTIONS = [
    "the case carries element values (f64 bit patterns, reduced rationals); that the spelling in the source denotes that value is C13's subject "
    "(only short dyadic floats, small integers and small fractions are used)",
    "filters of comprehensions are restricted to comparisons on scalar kinds that the `==`/`<` machines define (numbers; strings and bools for ==/!=); "
    "comprehensions are only generated over inputs on which Hash and == agree",
    "error kinds/messages are not compared (one Err token); NaN elements are not generated; a set literal mixes variables and literals never "
    "(`a := 1; {a, 2}` is rejected with SetKindMismatch: reported, not judged)",
    "programs on which Value's Hash and == disagree are run 4 (thorough: 6) times in fresh interpreters: IndexSet's hasher is randomly keyed, "
    "so the defective result is the predicted one only with p ~ 0.95-0.99 per run; the judge answers (kf id) iff the case is in the class and at "
    "least one run equals the faithful model's prediction exactly (elements, order, kind text, size), (ok) iff every run satisfies the property",
]
TRIVIAL_TAGS = ["kind-error"]
STALL = 60.0
# Runs of a program on which Hash and == are known to disagree.  Every IndexSet is keyed randomly and two
# different hashes still share hashbrown's 7-bit tag with p = 1/128 (measured: 22 of 3000 runs of `{0.0, -0.0}`
# return one element), so a single run shows the predicted defective result only with p ~ 0.95-0.99.
RUNS = 4

# ---------------------------------------------------------------- values
def F(x): return ("flt", "f64", float(x))
def F32(x): return ("flt", "f32", float(x))
def I(k, n): return ("int", k, n)
def R(n, d, spell=None): return ("rat", Fraction(n, d), spell or "%d/%d" % (n, d))
def S(s): return ("str", s)
def B(b): return ("bool", b)
def T(*vs): return ("tup", list(vs))
def SET(*vs): return ("set", list(vs))


def f64_bits(x): return struct.unpack("<Q", struct.pack("<d", x))[0]
def f32_bits(x): return struct.unpack("<I", struct.pack("<f", x))[0]


def vsx(v):
    t = v[0]
    if t == "flt":
        return ["s", v[1], f64_bits(v[2]) if v[1] == "f64" else f32_bits(v[2])]
    if t == "int":
        return ["s", v[1], v[2]]
    if t == "rat":
        return ["s", "r64", [v[1].numerator, v[1].denominator]]
    if t == "str":
        return ["s", "string", q(v[1])]
    if t == "bool":
        return ["s", "bool", 1 if v[1] else 0]
    if t == "tup":
        return ["tuple"] + [vsx(x) for x in v[1]]
    if t == "set":
        return ["set", q(""), 0, [vsx(x) for x in v[1]]]
    raise ValueError(v)


def fsrc(x):
    if x == 0:
        return "-0.0" if str(x).startswith("-") else "0"
    if x == int(x):
        return str(int(x))
    s = repr(x)
    assert "e" not in s
    return s


def vsrc(v, in_matrix=False):
    t = v[0]
    if t == "flt":
        return fsrc(v[2]) + ("<f32>" if v[1] == "f32" and not in_matrix else "")
    if t == "int":
        return str(v[2]) + ("" if in_matrix else "<%s>" % v[1])
    if t == "rat":
        return v[2]
    if t == "str":
        return '"%s"' % v[1]
    if t == "bool":
        return "true" if v[1] else "false"
    if t == "tup":
        return "(" + ",".join(vsrc(x) for x in v[1]) + ")"
    if t == "set":
        return "{" + ",".join(vsrc(x) for x in v[1]) + "}"
    raise ValueError(v)


def kind_of(v):
    t = v[0]
    if t in ("flt", "int"):
        return v[1]
    return {"rat": "r64", "str": "string", "bool": "bool"}.get(t)


def set_src(elems):
    return "{" + ", ".join(vsrc(e) for e in elems) + "}"


def matrix_src(name, elems):
    """typed conversion of a row vector into a set; None when not expressible"""
    if not elems:
        return None
    k = kind_of(elems[0])
    if k is None:
        return None
    return "%s<{%s}> := [%s]" % (name, k, ", ".join(vsrc(e, in_matrix=True) for e in elems))


# ---------------------------------------------------------------- universes
# name -> (values, alternative spellings of the same value, hash/eq mismatch present?)
UNIVERSES = {
    "f64": ([F(1), F(2), F(3), F(0.5), F(-2.5)], False),
    "f64-zero": ([F(0.0), F(-0.0), F(1), F(2)], True),
    "f32": ([F32(1), F32(2), F32(0.5), F32(-3)], False),
    "u8": ([I("u8", 0), I("u8", 1), I("u8", 2), I("u8", 255)], False),
    "u64": ([I("u64", 0), I("u64", 1), I("u64", 1099511627776), I("u64", 7)], False),
    "i8": ([I("i8", -127), I("i8", -1), I("i8", 0), I("i8", 127)], False),
    "i64": ([I("i64", -1), I("i64", 0), I("i64", 1), I("i64", 7)], False),
    "r64": ([R(1, 2), R(3, 4), R(-1, 2), R(2, 1), R(1, 2, "2/4")], False),
    "string": ([S("a"), S("b"), S("ab"), S("")], False),
    "bool": ([B(True), B(False)], False),
    "tuple-f64": ([T(F(1), F(2)), T(F(2), F(1)), T(F(1), F(1)), T(F(2), F(2))], False),
    "tuple-f64-string": ([T(F(1), S("a")), T(F(1), S("b")), T(F(2), S("a")), T(F(2), S("b"))], False),
    "tuple-u8-bool": ([T(I("u8", 1), B(True)), T(I("u8", 1), B(False)), T(I("u8", 2), B(True))], False),
    "tuple-zero": ([T(F(0.0), F(1)), T(F(-0.0), F(1)), T(F(1), F(1)), T(F(1), F(-0.0))], True),
    "set-f64": ([SET(F(1), F(2)), SET(F(1), F(3)), SET(F(2), F(3)), SET(F(3), F(4))], False),
    "set-u8": ([SET(I("u8", 1)), SET(I("u8", 2)), SET(I("u8", 3)), SET(I("u8", 255))], False),
    "set-string": ([SET(S("a"), S("b"), S("c")), SET(S("a"), S("b"), S("d")), SET(S("x"), S("y"), S("z"))], False),
    "set-tuple": ([SET(T(F(1), F(2))), SET(T(F(2), F(1))), SET(T(F(1), F(1)))], False),
    "set-permuted": ([SET(F(1), F(2)), SET(F(2), F(1)), SET(F(1), F(3)), SET(F(3), F(1))], True),
    "set-zero": ([SET(F(0.0), F(1)), SET(F(-0.0), F(1)), SET(F(1), F(2)), SET(F(1), F(-0.0))], True),
}
NUMERIC = ["f64", "f32", "u8", "u64", "i8", "i64", "r64"]
SCALAR = NUMERIC + ["string", "bool"]

SETOPS = [("union", "∪"), ("inter", "∩"), ("diff", "∖"), ("symdiff", "Δ")]
RELOPS = [("subset", "⊆"), ("psubset", "⊊"), ("superset", "⊇"), ("psuperset", "⊋")]
ALT_REL = {"psubset": "⊂", "psuperset": "⊃"}
CMP = [("eq", "=="), ("ne", "!="), ("lt", "<"), ("gt", ">"), ("le", "<="), ("ge", ">=")]


def written(subset, rng, maxlen=6):
    """a sequence over exactly the values of `subset`: random order, random repetitions, <= maxlen long"""
    seq = list(subset)
    extra = rng.randint(0, max(0, maxlen - len(seq))) if seq else 0
    if rng.random() < 0.4:
        extra = 0
    seq += [rng.choice(subset) for _ in range(extra)]
    rng.shuffle(seq)
    return seq


def subsets(vals):
    for r in range(len(vals) + 1):
        for c in itertools.combinations(vals, r):
            yield list(c)


def define(name, elems, how, rng):
    """source lines that bind `name` to the set written as `elems`; returns (lines, how-used)"""
    if how == "variables" and elems:
        # elements bound to variables first: `A0 := 1; A1 := 2; A := {A1, A0, A1}`
        distinct = []
        for e in elems:
            if e not in distinct:
                distinct.append(e)
        lines = ["%s%d := %s" % (name.lower(), i, vsrc(e)) for i, e in enumerate(distinct)]
        lines.append("%s := {%s}" % (name, ", ".join("%s%d" % (name.lower(), distinct.index(e)) for e in elems)))
        return lines, "variables"
    if how == "matrix":
        m = matrix_src(name, elems)
        if m is not None:
            return [m], "matrix"
        how = "literal"
    if how == "comprehension" and elems:
        if kind_of(elems[0]) in ("f64", "r64", "string", "bool") and rng.random() < 0.5:
            return ["%sm := [%s]" % (name, ", ".join(vsrc(e, True) for e in elems)),
                    "%s := { q | q <- %sm }" % (name, name)], "comprehension"
        return ["%s := { q | q <- %s }" % (name, set_src(elems))], "comprehension"
    return ["%s := %s" % (name, set_src(elems))], "literal"


def mk(case_sx, lines, tags, runs=1):
    src = "\n".join(lines)
    return dict(sx=sx(case_sx), impl=dict(srcs=[src] * runs), tags=tags, src=src)


def pick_how(rng):
    r = rng.random()
    return "literal" if r < 0.55 else ("matrix" if r < 0.8 else "comprehension")


def flag(h):
    return 1 if h == "variables" else 0


def bin_case(uname, A, B, opname, rng, mism, hows=None):
    runs = RUNS if mism else 1
    la, ha = define("A", A, hows[0] if hows else pick_how(rng), rng)
    lb, hb = define("B", B, hows[1] if hows else pick_how(rng), rng)
    kind = "bin" if opname in dict(SETOPS) else "rel"
    sym = dict(SETOPS + RELOPS)[opname]
    if opname in ALT_REL and rng.random() < 0.3:
        sym = ALT_REL[opname]
    # how each operand is written in the final expression: the variable, the literal inline (only for
    # literal-built operands), or an operator temporary `(A ∪ A)` (same set): the operator kernels take
    # different arms for variable references and for plain values
    def operand(name, lines, how):
        r = rng.random()
        if r < 0.5:
            return name, lines, "var"
        if r < 0.8 and how == "literal" and len(lines) == 1 and lines[0].startswith(name + " := "):
            return lines[0][len(name) + 4:], [], "inline"
        if r >= 0.8:
            return "(%s ∪ %s)" % (name, name), lines, "temp"
        return name, lines, "var"
    ea, la, sa = operand("A", la, ha)
    eb, lb, sb = operand("B", lb, hb)
    lines = la + lb + ["%s %s %s" % (ea, sym, eb)]
    if sa == "var" and sb == "var" and rng.random() < 0.12:
        # one operand is a name bound by a match arm (a local environment) that shadows a global `w` holding the OTHER
        # operand: the operator must resolve its operand names through the local bindings first
        if rng.random() < 0.5:
            lines = la + lb + ["w := B", "A? | w => w %s B | * => A %s B." % (sym, sym)]; sa = "arm"
        else:
            lines = la + lb + ["w := A", "B? | w => A %s w | * => A %s B." % (sym, sym)]; sb = "arm"
    c = mk([kind, opname, flag(ha), flag(hb), [vsx(v) for v in A], [vsx(v) for v in B]], lines,
           dict(stream="operator", elemkind=uname, op=opname, built=ha + "/" + hb, written=sa + "/" + sb), runs)
    c["meta"] = ("bin", uname, list(A), list(B), opname, mism, (ha, hb))
    return c


def lit_case(uname, A, rng, mism, how=None):
    runs = RUNS if mism else 1
    how = how or rng.choice(["direct", "literal", "matrix", "comprehension"])
    if how == "direct":
        lines, h = [set_src(A)], "direct"
    else:
        l, h = define("A", A, how, rng)
        lines = l + ["A"]
    c = mk(["lit", flag(h), [vsx(v) for v in A]], lines, dict(stream="build", elemkind=uname, op="build", built=h), runs)
    c["meta"] = ("lit", uname, list(A), mism, h)
    return c


def mem_case(uname, x, A, neg, rng, mism, how=None):
    runs = RUNS if mism else 1
    la, ha = define("A", A, how or pick_how(rng), rng)
    lines = la + ["%s %s A" % (vsrc(x), "∉" if neg else "∈")]
    c = mk(["mem", 1 if neg else 0, flag(ha), vsx(x), [vsx(v) for v in A]], lines,
           dict(stream="membership", elemkind=uname, op="notin" if neg else "in", built=ha), runs)
    c["meta"] = ("mem", uname, x, list(A), neg, mism, ha)
    return c


# ---------------------------------------------------------------- comprehensions
def term_src(t):
    if t[0] == "v":
        return t[1]
    if t[0] == "c":
        return t[2]
    return "(" + term_src(t[1]) + "," + term_src(t[2]) + ")"


def term_sx(t):
    if t[0] == "v":
        return ["v", t[1]]
    if t[0] == "c":
        return ["c", t[1]]
    return ["pair", term_sx(t[1]), term_sx(t[2])]


def V(n): return ("v", n)
def C(v): return ("c", vsx(v), vsrc(v))
def P(a, b): return ("pair", a, b)


def pat_src(p):
    if p[0] == "v":
        return p[1]
    if p[0] == "w":
        return "*"
    return "(" + pat_src(p[1]) + "," + pat_src(p[2]) + ")"


def pat_sx(p):
    if p[0] == "v":
        return ["v", p[1]]
    if p[0] == "w":
        return ["w"]
    return ["pair", pat_sx(p[1]), pat_sx(p[2])]


def comp_case(uname, shape, out, quals, rng, srcmode=None):
    """quals: list of ("gen", pat, name, elems) | ("flt", opname, term, term)
              | ("gend", pat, ("lit", [terms]))   dependent generator over a set literal of terms  `p <- {t1, t2}`
              | ("gend", pat, ("var", name))      dependent generator over an earlier variable     `p <- x`"""
    lines = []
    defined = {}
    qsx, qsrc = [], []
    for qu in quals:
        if qu[0] == "gen":
            _, p, name, elems = qu
            mode = srcmode or rng.choice(["var", "inline", "matrix"])
            if name not in defined:
                if mode == "matrix" and matrix_src(name, elems) is not None and kind_of(elems[0]) in ("f64", "r64", "string", "bool"):
                    lines.append("%s := [%s]" % (name, ", ".join(vsrc(e, True) for e in elems)))
                    defined[name] = name
                elif mode == "inline":
                    defined[name] = set_src(elems)
                else:
                    lines.append("%s := %s" % (name, set_src(elems)))
                    defined[name] = name
            qsx.append(["gen", pat_sx(p), [vsx(v) for v in elems]])
            qsrc.append("%s <- %s" % (pat_src(p), defined[name]))
        elif qu[0] == "gend":
            _, p, coll = qu
            if coll[0] == "lit":
                qsx.append(["gend", pat_sx(p), ["lit"] + [term_sx(t) for t in coll[1]]])
                qsrc.append("%s <- {%s}" % (pat_src(p), ", ".join(term_src(t) for t in coll[1])))
            else:
                qsx.append(["gend", pat_sx(p), ["var", coll[1]]])
                qsrc.append("%s <- %s" % (pat_src(p), coll[1]))
        else:
            _, opname, a, b = qu
            qsx.append(["flt", opname, term_sx(a), term_sx(b)])
            qsrc.append("%s %s %s" % (term_src(a), dict(CMP)[opname], term_src(b)))
    lines.append("{ %s | %s }" % (term_src(out), ", ".join(qsrc)))
    return mk(["comp", term_sx(out), qsx], lines, dict(stream="comprehension", elemkind=uname, op="comp:" + shape, built="comprehension"))


def dep_cases(uname, vals, rng, A, maxlen):
    """comprehensions with a DEPENDENT generator: the collection of a later generator mentions a variable bound by an
    earlier one, so it has to be evaluated once per binding.  Expected values: the Coq model only."""
    scalar = uname in SCALAR
    numeric = uname in NUMERIC
    ops = ["eq", "ne"] + (["lt", "gt", "le", "ge"] if numeric else [])
    x, y, z = V("x"), V("y"), V("z")
    px, py, pz = ("v", "x"), ("v", "y"), ("v", "z")
    c1, c2 = C(rng.choice(vals)), C(rng.choice(vals))
    gA = ("gen", px, "A", A)
    lit_xc = ("gend", py, ("lit", [x, c1]))
    # --- y <- {x, c}, y <- {x}: every universe (nested sets / tuples included: all values of a universe have one kind)
    yield comp_case(uname, "dep-literal", y, [gA, lit_xc], rng)
    yield comp_case(uname, "dep-literal-pair", P(x, y), [gA, ("gend", py, ("lit", [c1, x]))], rng)
    yield comp_case(uname, "dep-singleton-diagonal", P(x, y), [gA, ("gend", py, ("lit", [x]))], rng)
    yield comp_case(uname, "dep-literal-rebind", x, [gA, ("gend", px, ("lit", [x, c1]))], rng)
    yield comp_case(uname, "dep-literal-constants", P(x, y), [gA, ("gend", py, ("lit", [c1, c2]))], rng)
    if uname.startswith("set-"):
        # --- y <- x over a set of sets (the universe's values are sets)
        elems = []
        for v in vals:
            for e in v[1]:
                if e not in elems:
                    elems.append(e)
        ek = kind_of(elems[0])
        eops = ["eq", "ne"] + (["lt", "gt", "le", "ge"] if ek in NUMERIC else [])
        dep = ("gend", py, ("var", "x"))
        yield comp_case(uname, "flatten", y, [gA, dep], rng)
        yield comp_case(uname, "flatten-pair", P(x, y), [gA, dep], rng)
        if ek is not None:
            ce = C(rng.choice(elems))
            yield comp_case(uname, "flatten-filter", y, [gA, dep, ("flt", rng.choice(eops), y, ce)], rng)
            yield comp_case(uname, "flatten-relit", z, [gA, dep, ("gend", pz, ("lit", [y, ce]))], rng)
    if not scalar:
        return
    o1, o2 = rng.choice(ops), rng.choice(ops)
    # --- a dependent generator and filters, before and after it
    yield comp_case(uname, "dep-literal-filter", y, [gA, lit_xc, ("flt", o1, y, c2)], rng)
    yield comp_case(uname, "dep-literal-filter-vars", P(x, y), [gA, lit_xc, ("flt", o1, x, y)], rng)
    yield comp_case(uname, "dep-filter-then-literal", y, [gA, ("flt", o1, x, c2), lit_xc], rng)
    # --- y <- x over a set of sets built from the universe (members of one size k: a set's kind includes its size;
    #     every member written in universe order: Hash and == disagree on permuted nested sets, see kf nested-set-order)
    k = rng.choice([1, 2]) if len(vals) > 2 else 1
    members = [SET(*c) for c in itertools.combinations(vals, k)]
    SS = written(rng.sample(members, rng.randint(0 if rng.random() < 0.15 else min(2, len(members)), min(3, len(members)))), rng, 4)
    gS = ("gen", px, "S", SS)
    dep = ("gend", py, ("var", "x"))
    yield comp_case(uname, "flatten", y, [gS, dep], rng)
    yield comp_case(uname, "flatten-pair", P(x, y), [gS, dep], rng)
    yield comp_case(uname, "flatten-filter", y, [gS, dep, ("flt", o2, y, c1)], rng)
    yield comp_case(uname, "flatten-relit", z, [gS, dep, ("gend", pz, ("lit", [y, c1]))], rng)
    # --- (k, s) <- P, y <- s, filter on k
    keys = rng.sample(vals, min(len(vals), rng.randint(1, 3)))
    Pw = [T(kk, rng.choice(members)) for kk in keys]
    if Pw and rng.random() < 0.5:
        Pw.append(T(rng.choice(keys), rng.choice(members)))
    rng.shuffle(Pw)
    gP = ("gen", ("pair", ("v", "k"), ("v", "s")), "P", Pw)
    deps = ("gend", py, ("var", "s"))
    yield comp_case(uname, "pattern-set-filter", y, [gP, deps, ("flt", o1, V("k"), c2)], rng)
    yield comp_case(uname, "pattern-set-filter-first", y, [gP, ("flt", o1, V("k"), c2), deps], rng)
    yield comp_case(uname, "pattern-set-pair", P(V("k"), y), [gP, deps], rng)
    yield comp_case(uname, "pattern-set-filter-elem", P(V("k"), y), [gP, deps, ("flt", o2, y, V("k"))], rng)
    # --- where the collection is no set / unbound / of two kinds: an error if (and only if) an environment reaches the
    #     generator (advisory when the model predicts the error; the empty set otherwise, which is binding)
    other = C(S("zz")) if uname != "string" else C(F(1))
    yield comp_case(uname, "dep-over-scalar", y, [gA, ("flt", o1, x, c1), ("gend", py, ("var", "x"))], rng)
    yield comp_case(uname, "dep-unbound", y, [gA, ("flt", o1, x, c1), ("gend", py, ("var", "q"))], rng)
    yield comp_case(uname, "dep-mixed-kinds", y, [gA, ("flt", o1, x, c1), ("gend", py, ("lit", [x, other]))], rng)


def comp_cases(uname, vals, rng, n_each, maxlen=6):
    scalar = uname in SCALAR
    numeric = uname in NUMERIC
    ops_eq = ["eq", "ne"]
    ops = ops_eq + (["lt", "gt", "le", "ge"] if numeric else [])
    subs = list(subsets(vals))
    x, y, z = V("x"), V("y"), V("z")
    for _ in range(n_each):
        A = written(rng.choice(subs), rng, maxlen)
        Bs = written(rng.choice(subs), rng, maxlen)
        c1, c2 = C(rng.choice(vals)), C(rng.choice(vals))
        gA = ("gen", ("v", "x"), "A", A)
        gB = ("gen", ("v", "y"), "B", Bs)
        yield comp_case(uname, "identity", x, [gA], rng)
        yield comp_case(uname, "product", P(x, y), [gA, gB], rng)
        yield comp_case(uname, "product-swapped", P(y, x), [gA, gB], rng)
        yield comp_case(uname, "first-of-two", x, [gA, gB], rng)
        yield comp_case(uname, "second-of-two", y, [gA, gB], rng)
        yield comp_case(uname, "join-repeated-var", x, [gA, ("gen", ("v", "x"), "B", Bs)], rng)
        yield comp_case(uname, "diagonal", P(x, x), [gA], rng)
        yield comp_case(uname, "constant", c1, [gA], rng)
        for c in dep_cases(uname, vals, rng, A, maxlen):
            yield c
        if scalar:
            o1, o2 = rng.choice(ops), rng.choice(ops)
            yield comp_case(uname, "filter-const", x, [gA, ("flt", o1, x, c1)], rng)
            yield comp_case(uname, "filter-const-flipped", x, [gA, ("flt", o1, c1, x)], rng)
            yield comp_case(uname, "two-filters", x, [gA, ("flt", o1, x, c1), ("flt", o2, x, c2)], rng)
            yield comp_case(uname, "product-filter-vars", P(x, y), [gA, gB, ("flt", o1, x, y)], rng)
            yield comp_case(uname, "select-equal", x, [gA, gB, ("flt", "eq", x, y)], rng)
            yield comp_case(uname, "filter-between-generators", P(y, x), [gA, ("flt", o1, x, c1), gB, ("flt", o2, y, c2)], rng)
            yield comp_case(uname, "two-filters-two-generators", y, [gA, gB, ("flt", o1, x, c1), ("flt", o2, x, y)], rng)
        if not scalar:
            continue
        # generators over a set of pairs
        pairs = [T(a, b) for a in vals[:3] for b in vals[:3]]
        Pw = written(rng.sample(pairs, rng.randint(0, min(5, len(pairs)))), rng)
        gP = ("gen", ("pair", ("v", "x"), ("v", "y")), "P", Pw)
        yield comp_case(uname, "project-first", x, [("gen", ("pair", ("v", "x"), ("w",)), "P", Pw)], rng, "var")
        yield comp_case(uname, "project-second", y, [("gen", ("pair", ("w",), ("v", "y")), "P", Pw)], rng, "var")
        yield comp_case(uname, "swap-pairs", P(y, x), [gP], rng, "var")
        yield comp_case(uname, "pattern-diagonal", x, [("gen", ("pair", ("v", "x"), ("v", "x")), "P", Pw)], rng, "var")
        yield comp_case(uname, "join-compose", z, [gP, ("gen", ("pair", ("v", "y"), ("v", "z")), "P", Pw)], rng, "var")
        yield comp_case(uname, "join-compose-pairs", P(x, z), [gP, ("gen", ("pair", ("v", "y"), ("v", "z")), "P", Pw)], rng, "var")
        if scalar:
            yield comp_case(uname, "pairs-filter", x, [gP, ("flt", rng.choice(ops), x, y)], rng, "var")


# ---------------------------------------------------------------- the streams
# the nom parser is exponential in literal nesting depth: written length and sample sizes follow the depth
DEPTH = {"tuple-f64": 2, "tuple-f64-string": 2, "tuple-u8-bool": 2, "tuple-zero": 2, "set-f64": 2, "set-u8": 2,
         "set-string": 2, "set-permuted": 2, "set-zero": 2, "set-tuple": 3}


def generate(tier, rng):
    global RUNS
    quick = tier == "quick"
    RUNS = 4 if quick else 6
    allops = [o for o, _ in SETOPS + RELOPS]
    rot = 0
    for uname, (vals, mism) in UNIVERSES.items():
        depth = DEPTH.get(uname, 1)
        maxlen = {1: 6, 2: 5, 3: 3}[depth] if quick else {1: 6, 2: 6, 3: 4}[depth]
        subs = list(subsets(vals[:4]))
        # --- building sets: every subset, several insertion orders ---
        for s in subs:
            for _ in range((2 if depth == 1 else 1) if quick else 6):
                yield lit_case(uname, written(s, rng, maxlen), rng, mism)
        # alternative spellings / a fifth value
        if len(vals) > 4:
            for _ in range(6 if quick else 40):
                yield lit_case(uname, written(rng.sample(vals, rng.randint(1, len(vals))), rng), rng, mism)
        # --- operators and relations on pairs of subsets ---
        pairs = [(a, b) for a in subs for b in subs]
        if quick and uname != "f64":
            pairs = rng.sample(pairs, min(len(pairs), {1: 40, 2: (12 if mism else 20), 3: 6}[depth]))
        for (a, b) in pairs:
            if quick:
                ops = [allops[rot % 8], allops[(rot + 3) % 8]]
                rot += 1
            else:
                ops = allops
            for op in ops:
                yield bin_case(uname, written(a, rng, maxlen), written(b, rng, maxlen), op, rng, mism)
                if not quick and depth == 1 and uname in ("f64", "string", "u8", "i64", "bool"):
                    yield bin_case(uname, written(a, rng, maxlen), written(b, rng, maxlen), op, rng, mism)
        # --- membership of every value in every subset ---
        for s in subs:
            for x in (vals if not quick else rng.sample(vals, min(2 if depth < 3 else 1, len(vals)))):
                yield mem_case(uname, x, written(s, rng, maxlen), rng.random() < 0.4, rng, mism)
        # --- comprehensions (inputs on which hash and == agree only) ---
        if not mism and depth < 3:
            for c in comp_cases(uname, vals[:4], rng, (2 if depth == 1 else 1) if quick else 30, maxlen - 1 if depth > 1 else maxlen):
                yield c

    # --- same set, many insertion orders: the result must be the same set ---
    for uname in ["f64", "string", "tuple-f64", "set-f64", "r64"]:
        vals = UNIVERSES[uname][0][:4]
        perms = list(itertools.permutations(vals))
        if quick:
            perms = rng.sample(perms, 8)
        for p in perms:
            yield lit_case(uname, list(p) + [p[0]], rng, False, how="direct")
            other = list(reversed(p))[:3]
            for op in (["union", "symdiff", "superset"] if quick else allops):
                yield bin_case(uname, list(p), other, op, rng, False)

    # --- sets whose literal lists variables instead of literals ---
    names = [n for n in UNIVERSES if not UNIVERSES[n][1]]
    for _ in range(240 if quick else 2400):
        n = rng.choice(names)
        vals = UNIVERSES[n][0][:4]
        subs = list(subsets(vals))
        a, b = written(rng.choice(subs), rng, 4), written(rng.choice(subs), rng, 4)
        r = rng.random()
        if r < 0.15:
            c = lit_case(n, a, rng, False, how="variables")
        elif r < 0.35:
            c = mem_case(n, rng.choice(vals), a, rng.random() < 0.4, rng, False, how="variables")
        else:
            hows = rng.choice([("variables", "literal"), ("literal", "variables"), ("variables", "variables"),
                               ("variables", "matrix"), ("comprehension", "variables")])
            c = bin_case(n, a, b, rng.choice(allops), rng, False, hows=hows)
        c["tags"]["stream"] = "variable-elements"
        yield c

    # --- operands of different element kinds ---
    for _ in range(60 if quick else 600):
        n1, n2 = rng.sample(names, 2)
        a = written(rng.choice(list(subsets(UNIVERSES[n1][0][:3]))[1:]), rng, 3)
        b = written(rng.choice(list(subsets(UNIVERSES[n2][0][:3]))[1:]), rng, 3)
        op = rng.choice(allops)
        c = bin_case(n1 + "|" + n2, a, b, op, rng, False)
        c["tags"]["stream"] = "mixed-kind-operands"
        yield c
    for _ in range(20 if quick else 200):
        n1, n2 = rng.sample(names, 2)
        x = rng.choice(UNIVERSES[n1][0])
        a = written(rng.choice(list(subsets(UNIVERSES[n2][0][:3]))), rng, 3)
        c = mem_case(n1 + "|" + n2, x, a, rng.random() < 0.5, rng, False)
        c["tags"]["stream"] = "mixed-kind-membership"
        yield c
    # --- mixed-kind literals: must be rejected, never a set with two kinds ---
    for _ in range(30 if quick else 300):
        n1, n2 = rng.sample(names, 2)
        a = [rng.choice(UNIVERSES[n1][0]) for _ in range(rng.randint(1, 2))] + [rng.choice(UNIVERSES[n2][0]) for _ in range(rng.randint(1, 2))]
        rng.shuffle(a)
        c = lit_case(n1 + "|" + n2, a, rng, False, how="direct")
        c["tags"]["stream"] = "mixed-kind-literal"
        yield c


def pregen():
    """regenerate coq/theories/Gen/SetOpArms.v from the current Rust source (translators/setop_arms.py): the arm obligations of
    Props/C14.v (section on the binary set functions) are stated over that table"""
    import os, sys
    from vlib import core
    sys.path.insert(0, os.path.join(core.ROOT, "translators"))
    import armlib
    return armlib.pregen(PROP, [("setop_arms", "theories/Proofs/SetOpArmsP.vo")])


def check(tier, seed, replay=None):
    """The standard flow; a harness process that was terminated from outside (SIGTERM: `(abort -15)`, seen when other
    checks' process clean-up hits our mvh children) says nothing about mech, so those cases are run once more."""
    import types
    from vlib import core, flow
    plugin = types.SimpleNamespace(**{k: v for k, v in globals().items() if not k.startswith("__") and k != "check"})
    orig = core.run_impl

    def run_impl_retry(mode, cases, **kw):
        res = orig(mode, cases, **kw)
        again = [c for c in cases if res.get(c["id"], "(missing)") in ("(abort -15)", "(missing)")]
        if again:
            res.update(orig(mode, again, **kw))
        return res

    core.run_impl = run_impl_retry
    try:
        return flow.standard_check(plugin, tier, seed, replay)
    finally:
        core.run_impl = orig


def shrink(case):
    """drop one written element of an operand (same construction, same operator)"""
    import random
    m = case.get("meta")
    if not m:
        return
    rng = random.Random(0)
    def keep(c):
        c["tags"] = dict(case.get("tags", {}))
        return c
    if m[0] == "bin":
        _, u, A, B, op, mism, hows = m
        for i in range(len(A)):
            yield keep(bin_case(u, A[:i] + A[i + 1:], B, op, rng, mism, hows=hows))
        for i in range(len(B)):
            yield keep(bin_case(u, A, B[:i] + B[i + 1:], op, rng, mism, hows=hows))
    elif m[0] == "lit":
        _, u, A, mism, h = m
        for i in range(len(A)):
            yield keep(lit_case(u, A[:i] + A[i + 1:], rng, mism, how=h))
    elif m[0] == "mem":
        _, u, x, A, neg, mism, h = m
        for i in range(len(A)):
            yield keep(mem_case(u, x, A[:i] + A[i + 1:], neg, rng, mism, how=h))
