"""C10 — literate documents: prose is inert, named code fences are isolated.

A case is a Mechdown document given LINE BY LINE: (lncase <stream> (listed <open finding ids>) <line>...), a line =
(s|c|k|p|e|b|f "<indentation>" "<text>" [fails [failsT]]) - statement, comment, continuation of a multi-line statement,
prose, prose whose parser consumes the following blanks (title, heading, table row), blank, fence line.
The Coq judge (Model/DocScan.v) scans the lines itself - which line opens a fence, which closes it, how the info
string is split -, derives the elements of the document algebra (Model/Doc.v) from the scan and checks
  * the block structure of the tree the real parser built (harness mode `doc` with "blocks": every fenced block with
    kind / name / disabled / hidden / items or body text, every top-level code run) against the scan,
  * the tables of the document against the code-only documents the model prescribes for the SCANNED elements:
      M            main code only (all main lines in order, no comments, one block of plain code)
      for every fence name n that is reached, in order of first appearance:
        Na         the fences named n only (comments removed)
        Nb         the lines n's interpreter executes successfully, as plain main code
The harness echoes every source; the judge re-renders all of them from the lines and refuses the case if a text
differs.  py_scan / py_elems below mirror the model only to compute these sources and the `fails` flags.
Documents come from two families: generated programs cut into code blocks / fences and interleaved with prose
elements (streams plain, codelike, layout) and documents written line by line to stress the scanner (stream scan)."""
from vlib.core import sx, q

PROP = "C10"
MODE = "doc"
LEVEL = "proof"
RULE = ("documents = generated programs (definitions with exactly denotable numbers / strings / booleans / small "
        "matrices, dependent definitions, a mutable variable with assignments, expression lines, comments; failing "
        "lines: undefined variable, cross-namespace reference, redefinition) cut into top-level code blocks, unnamed "
        "```mech fences and named fences (same name several times), interleaved with prose: "
        "title, numbered section, subsection, paragraph, bullet / numbered list, block quote, thematic break, "
        "markdown table, fenced non-mech code (python / no language) and mech:disabled fences whose bodies would "
        "change program variables if executed.  Streams: plain (prose over a vocabulary without Mech operators, "
        "blank line between all elements: binding), codelike (sentences containing `x := 5`, `{x}`, `|`, `[..]` "
        "...: a parse error is advisory), layout (plain prose; no blank line after code elements, indented code, "
        "~~~ fences, `mec` tag: a parse error is advisory), scan (written line by line: ``` and ~~~ fences, whole "
        "fences of the other sigil type and `mech:x` openers inside plain fences, the other sigil inside a line, the "
        "closing sigil inside a line, 4-5 sigil characters on opening / closing lines, unclosed fences at the end, "
        "indented fences after code / fences / prose, blanks after the sigil / after the tag / after the closing "
        "sigil, tags mech / mec / mech: / mech:: / mechmech: / mech:hidden / mech:disabled / non-mech look-alikes "
        "(me, Mech, `mech, xmech:a), names over the letters m e c h and with dash / dot / colon: binding).  "
        "non-trivial = distinct document whose parsed block structure equals the model's scan and whose tables equal "
        "those of all its code-only documents, or whose unclosed fence is a parse error")
ASSUMPTIONS = [
    "the document algebra (which lines reach which interpreter, in which order, and where evaluation stops) is proved "
    "generically in the statement semantics; the fence structure (opening / closing lines, info string, names) is "
    "modelled at line granularity and compared with the parsed tree on every case; whether a line OUTSIDE fences is "
    "prose or code is the generator's annotation, checked against the tree (top-level code runs) and by the tables",
    "values are not predicted by the model: both sides of every comparison come from the implementation "
    "(document vs the code-only documents the model prescribes), so the check is blind to defects of statement "
    "evaluation that are the same in a document and in plain code (other properties cover those)",
    "tables are compared as (name, mutable, value) rows, `ans` included; alias classes are not compared",
    "fence namespaces are keyed by hash_str(name) in the interpreter: the model identifies a namespace with its name "
    "(no collision of the 64-bit hash among the names of one document)",
    "a line consisting of a single identifier is code by the grammar (an expression statement), not a one-word "
    "paragraph; the plain stream has no such lines (observed: `Overview` alone on a line -> UndefinedVariable, "
    "document stops)",
    "advisory (outside the line model): text after a closing sigil on the same line, option maps `{..}` and non-ASCII "
    "characters on an opening line, ebnf blocks, a sigil after blanks that follow a paragraph / list / quote / break "
    "(the parser has not consumed those blanks), non-code lines or no statement inside a mech fence",
    "function definitions inside named fences, state machines, inline `{{..}}` code with side effects, Mika sections, "
    "includes and nested (floated / prompted) fences are outside the generated documents",
]
TRIVIAL_TAGS = []

WORDS = ("the a this that model value result table figure section note reader system signal rate window first second "
         "last next simple linear small large slow fast often never always shows holds gives takes makes follows "
         "from with over under into after before between during without robot sensor wheel motor speed angle "
         "distance time step loop state input output error true false not and or is in if then else while for "
         "each every all none one two three many few more less most least new old same other "
         "caf\u00e9 na\u00efve \u00fcber r\u00e9sum\u00e9").split()
NAMES = ["x", "y", "z", "w", "k", "p", "q", "r", "s", "t", "u", "v", "width", "height", "total", "count",
         "rate", "gain", "speed", "offset", "limit", "scale", "ratio", "mass"]
# names of every shape: some consist only of letters of the language tag ("mech"), some become equal when a
# prefix of such letters is dropped, some differ only in case or length
FENCE_NAMES = ["alpha", "beta", "gamma", "c", "me", "cat", "at", "e1", "mx", "x1", "cache", "ache", "m", "data", "hem", "Alpha", "a"]


# --------------------------------------------------------------------------------------------------
# programs
# --------------------------------------------------------------------------------------------------
def lit(rng):
    c = rng.random()
    if c < 0.45:
        return str(rng.randint(0, 1000))
    if c < 0.6:
        return "-" + str(rng.randint(1, 500))
    if c < 0.8:
        return "%d.%s" % (rng.randint(0, 99), rng.choice(["5", "25", "75", "125", "0625"]))
    if c < 0.87:
        if rng.random() < 0.3:
            # grapheme clusters of several code points (skin-tone modifier, combining accent, flag, variation selector,
            # ZWJ sequence): the text of a fenced block is rebuilt grapheme by grapheme before it is parsed as code
            return '"%s"' % rng.choice(["ok \U0001F44D\U0001F3FD!", "cafe\u0301", "\U0001F1E9\U0001F1EA flag", "\u270C\uFE0F sign",
                                        "\U0001F468\u200D\U0001F469\u200D\U0001F467 family", "a\u0308b c\u0327"])
        return '"%s"' % " ".join(rng.choice(WORDS) for _ in range(rng.randint(1, 3)))
    if c < 0.93:
        return rng.choice(["true", "false"])
    return "[" + " ".join(str(rng.randint(0, 99)) for _ in range(rng.randint(2, 4))) + "]"


def numeric(text):
    return not (text.startswith('"') or text in ("true", "false") or text.startswith("["))


def make_program(rng, names, n, prefix=""):
    """list of dicts {text, defs, uses, force} for ONE interpreter; statements succeed when run in order"""
    out = []
    nums = []          # numeric f64 scalars defined so far
    mut = None
    pool = list(names)
    rng.shuffle(pool)
    for _ in range(n):
        c = rng.random()
        if c < 0.12 and mut is None and pool:
            v = pool.pop()
            out.append(dict(text="~%s := %d" % (v, rng.randint(0, 50)), defs=[v], uses=[]))
            mut = v
            nums.append(v)
        elif c < 0.27 and mut is not None:
            op = rng.choice(["=", "=", "+="])
            rhs = str(rng.randint(1, 90)) if not nums or rng.random() < 0.5 else "%s + %d" % (rng.choice(nums), rng.randint(1, 9))
            uses = [mut] + [w for w in nums if rhs.startswith(w + " ")]
            out.append(dict(text="%s %s %s" % (mut, op, rhs), defs=[], uses=uses))
        elif c < 0.55 and nums and pool:
            v = pool.pop()
            a = rng.choice(nums)
            form = rng.random()
            if form < 0.4 and len(nums) > 1:
                b = rng.choice(nums)
                text, uses = "%s := %s %s %s" % (v, a, rng.choice(["+", "-", "*"]), b), [a, b]
            elif form < 0.8:
                text, uses = "%s := %s %s %d" % (v, a, rng.choice(["+", "-", "*"]), rng.randint(1, 12)), [a]
            else:
                text, uses = "%s := [%s %s]" % (v, a, a), [a]
            out.append(dict(text=text, defs=[v], uses=uses))
            if "[" not in text:
                nums.append(v)
        elif c < 0.6 and nums:
            a = rng.choice(nums)
            out.append(dict(text="%s + %d" % (a, rng.randint(1, 9)), defs=[], uses=[a]))   # expression line (ans only)
        elif pool:
            v = pool.pop()
            l = lit(rng)
            if numeric(l) and rng.random() < 0.15:
                k = rng.choice(["u8", "i64", "u16", "f32"])
                l2 = str(rng.randint(0, 200))
                out.append(dict(text="%s<%s> := %s" % (v, k, l2), defs=[v], uses=[]))
            else:
                text = "%s := %s" % (v, l)
                if rng.random() < 0.08:
                    text += " -- " + sentence(rng, 2, 4)
                out.append(dict(text=text, defs=[v], uses=[]))
                if numeric(l):
                    nums.append(v)
    return out


def sentence(rng, lo=2, hi=9):
    ws = [rng.choice(WORDS) for _ in range(rng.randint(lo, hi))]
    return " ".join(ws)


def cap(s):
    return s[0].upper() + s[1:]


# --------------------------------------------------------------------------------------------------
# prose
# --------------------------------------------------------------------------------------------------
CODELIKE = [
    "We set {v} := 5 in the text.", "The value is {{{v}}} now.", "Note that {v} + {w} = {v} holds.",
    "Either this | or that.", "Issue #12 and #{v} are fixed.", "Assign with := and compare with == here.",
    "Use [1 2 3] or [{v} {w}] maybe.", "Call f({v}) now.", "The kind <u8> fits {v}<u8> well.",
    "A mutable ~{v} here.", "Cost is 5 * 3 or {v} * 2.", "Then {v} = 99 is an assignment.",
    "Inline {{{{{v} = 99}}}} stays inert.", "Ranges 1..5 and {v}..10 exist.", "Send mail to me@{v}.org please.",
    "Quote \"{v} := 7\" verbatim.", "Sets {{1,2}} and maps are fine.", "Transpose {v}' or power {v}^2.",
    "Logical {v} && {w} || true.", "Arrow -> and => and <- appear.", "Percent 50% and tilde ~ and caret ^.",
    "Table | a | b | inline.", "Compare {v} < 3 > 2.", "Underscore _{v}_ and star *{v}* and grave `{v} := 1`.",
    "Dollars $5 and $$x^2$$ shown.", "Question? Yes! Semi; colon: done.", "Path a/b/c and {v}/2 here.",
    "At @home and &more.", "  {v} = 99 indented words follow here.",
]


def prose(rng, kind, stream, names, secno):
    """returns text (with trailing newline) of one prose element"""
    def sent():
        if stream == "codelike" and rng.random() < 0.6:
            v = rng.choice(names) if names else "x"
            w = rng.choice(names) if names else "y"
            return rng.choice(CODELIKE).format(v=v, w=w)
        n = rng.randint(2, 10)
        ws = [rng.choice(WORDS) for _ in range(n)]
        s = cap(" ".join(ws))
        if rng.random() < 0.25 and n > 3:
            i = rng.randint(1, n - 2)
            ws[i] += ","
            s = cap(" ".join(ws))
        return s + rng.choice([".", ".", ".", "!", "?"])
    if kind == "title":
        t = cap(sentence(rng, 2, 5))
        return t + "\n" + "=" * rng.choice([3, len(t), 79]) + "\n"
    if kind == "section":
        t = cap(sentence(rng, 2, 4))
        return "%d. %s\n%s\n" % (secno, t, "-" * rng.choice([3, len(t) + 3, 79]))
    if kind == "subsection":
        return "(%d.%d) %s\n" % (secno, rng.randint(1, 9), cap(sentence(rng, 2, 4)))
    if kind == "paragraph":
        return "".join(" ".join(sent() for _ in range(rng.randint(1, 2))) + "\n" for _ in range(rng.randint(1, 3)))
    if kind == "bullets":
        return "".join("- " + sent() + "\n" for _ in range(rng.randint(1, 4)))
    if kind == "numbered":
        return "".join("%d. %s\n" % (i + 1, sent()) for i in range(rng.randint(1, 4)))
    if kind == "quote":
        return "> " + sent() + "\n"
    if kind == "break":
        return "*" * rng.choice([3, 3, 5, 11]) + "\n"
    if kind == "table":
        nc = rng.randint(2, 3)
        cell = lambda: " ".join(rng.choice(WORDS) for _ in range(rng.randint(1, 2)))
        head = "| " + " | ".join(cap(cell()) for _ in range(nc)) + " |\n"
        align = "|" + "|".join(rng.choice(["---", ":---", "---:", ":---:"]) for _ in range(nc)) + "|\n"
        rows = "".join("| " + " | ".join(cell() for _ in range(nc)) + " |\n" for _ in range(rng.randint(1, 3)))
        return head + align + rows
    raise ValueError(kind)


PROSE_KINDS = ["section", "subsection", "paragraph", "paragraph", "paragraph", "bullets", "numbered", "quote",
               "break", "table"]


def hostile_lines(rng, names):
    """lines that would change the program's variables if they were executed"""
    out = []
    for _ in range(rng.randint(1, 3)):
        v = rng.choice(names) if names else "x"
        out.append(rng.choice(["%s := 99999", "%s = 99999", "~%s := 77777", "%s += 1000", "fresh%s := 1"]) % v)
    return out


# --------------------------------------------------------------------------------------------------
# documents
# --------------------------------------------------------------------------------------------------
LY0 = dict(sep="\n", ind="", sig="```", lang="mech")
FAILING_RHS = ["undefinedthing + 1", "undefinedthing + 1", '1 + "a"', "[1 2 3] + [1 2]", "nosuchfn(1)", '"a"<u8>', "true + 1"]


def chunks(rng, prog, maxlen=3):
    out, i = [], 0
    while i < len(prog):
        k = rng.randint(1, maxlen)
        out.append(prog[i:i + k]); i += k
    return out


def make_doc(rng, stream, size):
    """doc = list of elements: dict(kind= prose|nonmech|code|fence|disabled, name, items|text, ly, pk)"""
    nns = rng.choice([0, 0, 1, 1, 2, 2, 3])
    fnames = rng.sample(FENCE_NAMES, nns)
    names = list(NAMES)
    main_prog = make_program(rng, names, rng.randint(2, size))
    progs = {}
    for n in fnames:
        progs[n] = make_program(rng, names, rng.randint(1, max(2, size // 2)))   # same names on purpose (shadowing)
    main_names = [v for s in main_prog for v in s["defs"]]
    # failing lines
    if fnames and rng.random() < 0.45:
        n = rng.choice(fnames)
        p = progs[n]
        kind = rng.random()
        if kind < 0.4 and main_names:
            own = {v for s in p for v in s["defs"]}
            cand = [v for v in main_names if v not in own]
            bad = dict(text="leak%s := %s" % (n, rng.choice(cand)), defs=[], uses=["!"], force=True) if cand else None
        elif kind < 0.7:
            # errors raised by the interpreter front end carry source tokens, those raised by library function
            # compilers (kind / shape mismatch, missing function) do not: both must stay inside the fence
            bad = dict(text="bad%s := %s" % (n, rng.choice(FAILING_RHS)), defs=[], uses=["!"], force=True)
        else:
            d = [v for s in p for v in s["defs"]]
            rv = rng.choice(d) if d else None
            bad = dict(text="%s := 1" % rv, defs=[rv], uses=[]) if d else None
        if bad:
            pos = rng.randint(0, len(p))
            if bad["defs"]:
                # a redefinition goes AFTER the statement that defines the name: placed before it, it would become the
                # definition (immutable) and turn the real one, and every later assignment to it, into the failing
                # statements, which the per-statement failure flags (defined / undefined names only) do not describe
                first = min(i for i, st in enumerate(p) if bad["defs"][0] in st["defs"])
                pos = rng.randint(first + 1, len(p))
            p.insert(pos, bad)
            if rng.random() < 0.3:
                # the error is raised inside the body of a user-defined function called from the fence (the function
                # scope swaps the interpreter's symbol table and must restore it on the error path too)
                if rng.random() < 0.5:
                    fdef = "boom%s(x<f64>) = z<f64> :=\n  z := x + missing%s." % (n, n)
                    call = "boom%s(1)" % n
                else:
                    fdef = "pick%s(x<u64>) => <u64>\n  ├ 0 => 1." % n
                    call = "pick%s(5u64)" % n
                p[pos] = dict(text="bad%s := %s" % (n, call), defs=[], uses=["!"], force=True)
                p.insert(rng.randint(0, pos), dict(text=fdef, defs=[], uses=[], fndef=True))
    if rng.random() < 0.07:
        # main code that fails: the document stops there
        own = set(main_names)
        other = [v for n in fnames for s in progs[n] for v in s["defs"] if v not in own]
        if other and rng.random() < 0.5:
            bad = dict(text="leakmain := %s" % rng.choice(other), defs=[], uses=["!"], force=True)
        else:
            bad = dict(text="badmain := %s" % rng.choice(FAILING_RHS), defs=[], uses=["!"], force=True)
        main_prog.insert(rng.randint(1, len(main_prog)), bad)
    # cut into elements
    streams = []
    els_main = []
    for ch in chunks(rng, main_prog):
        els_main.append(dict(kind="fence" if rng.random() < 0.4 else "code", name="", items=[dict(s) for s in ch]))
    streams.append(els_main)
    for n in fnames:
        streams.append([dict(kind="fence", name=n, items=[dict(s) for s in ch]) for ch in chunks(rng, progs[n])])
    # comments inside code (before a statement; rarely last in a block)
    for st in streams:
        for e in st:
            if rng.random() < 0.2:
                pos = rng.randint(0, len(e["items"]) - 1) if rng.random() < 0.85 else len(e["items"])
                e["items"].insert(pos, dict(cmt="-- " + sentence(rng, 2, 6)))
    # interleave the per-interpreter element lists, keeping each one's order
    code_els = []
    idx = [0] * len(streams)
    while any(i < len(s) for i, s in zip(idx, streams)):
        k = rng.choice([j for j in range(len(streams)) if idx[j] < len(streams[j])])
        code_els.append(streams[k][idx[k]]); idx[k] += 1
    # prose in between
    doc = []
    secno = 1
    if rng.random() < 0.6:
        doc.append(dict(kind="prose", pk="title", text=prose(rng, "title", "plain" if stream != "codelike" else stream, main_names, 0)))
    all_names = main_names + [v for n in fnames for s in progs[n] for v in s["defs"]]
    def add_prose():
        nonlocal secno
        c = rng.random()
        if c < 0.72:
            pk = rng.choice(PROSE_KINDS)
            doc.append(dict(kind="prose", pk=pk, text=prose(rng, pk, stream, all_names, secno)))
            if pk == "section":
                secno += 1
        elif c < 0.84:
            lang = rng.choice(["python", "python", "", "rust", "text"])
            body = hostile_lines(rng, all_names) if rng.random() < 0.6 else ["print(%d)" % rng.randint(0, 9), "y = [1, 2]"]
            sig = "```" if stream != "layout" or rng.random() < 0.7 else "~~~"
            if rng.random() < 0.3:
                # a listing that shows how a fence is written: the body embeds a fence of the OTHER sigil type
                # (docs/mechdown/code-block.mec: start and end fences must be of the same type)
                other = "~~~" if sig == "```" else "```"
                body = [other + rng.choice(["", "mech", "mech:x"])] + body + [other]
            doc.append(dict(kind="nonmech", pk="nonmech", text=sig + lang + "\n" + "".join(l + "\n" for l in body) + sig + "\n"))
        elif c < 0.95:
            doc.append(dict(kind="disabled", pk="disabled", name="", items=[dict(text=l, defs=[], uses=[]) for l in hostile_lines(rng, all_names)]))
        else:
            doc.append(dict(kind="code", pk="comment", name="", items=[dict(cmt="-- " + sentence(rng, 2, 6))]))
    for e in code_els:
        for _ in range(rng.choice([0, 1, 1, 2])):
            add_prose()
        doc.append(e)
    for _ in range(rng.choice([0, 0, 1, 2])):
        add_prose()
    # layout
    for i, e in enumerate(doc):
        ly = dict(LY0)
        if i == 0:
            ly["sep"] = ""
        if stream == "layout":
            prev = doc[i - 1] if i else None
            if prev is not None and prev["kind"] != "prose" and rng.random() < 0.5:
                ly["sep"] = ""
            elif rng.random() < 0.1 and i:
                ly["sep"] = "\n\n"
            if e["kind"] in ("code", "fence", "disabled"):
                if rng.random() < 0.3:
                    ly["ind"] = rng.choice([" ", "  ", "    "])
                if rng.random() < 0.3:
                    ly["sig"] = "~~~"
                if rng.random() < 0.3:
                    ly["lang"] = "mec"
        e["ly"] = ly
    return doc


# --------------------------------------------------------------------------------------------------
# the model's structure, mirrored (the Coq judge recomputes all of this and compares the echoed sources)
# --------------------------------------------------------------------------------------------------
def simulate(doc):
    """sets item['fails'] for every statement; returns (live elements, executed-ok statement texts per namespace, names)"""
    stores = {}
    main = set()
    traces = {}
    live, names, halted = [], [], False
    for e in doc:
        for it in e.get("items", []):
            if "cmt" not in it:
                it.setdefault("fails", 0)
        if halted:
            continue
        live.append(e)
        if e["kind"] == "code" or (e["kind"] == "fence" and e["name"] == ""):
            ok = run_trace(main, traces.setdefault("", []), e["items"])
            if not ok:
                halted = True
        elif e["kind"] == "fence":
            if e["name"] not in names:
                names.append(e["name"])
            run_trace(stores.setdefault(e["name"], set()), traces.setdefault(e["name"], []), e["items"])
    return live, traces, names


def run_trace(store, trace, items):
    for it in items:
        if "cmt" in it:
            continue
        f = it.get("force")
        fails = bool(f) or any(u not in store for u in it["uses"]) or any(v in store for v in it["defs"])
        it["fails"] = 1 if fails else 0
        if fails:
            return False
        store.update(it["defs"])
        trace.append(it["text"])
    return True


def item_text(it):
    return it["cmt"] if "cmt" in it else it["text"]


def render_items(ind, items):
    return "".join(ind + item_text(it) + "\n" for it in items)


def fence_tag(e):
    return ":disabled" if e["kind"] == "disabled" else (":" + e["name"] if e["name"] else "")


def render_elem(ly, e):
    if e["kind"] in ("prose", "nonmech"):
        return e["text"]
    if e["kind"] == "code":
        return render_items(ly["ind"], e["items"])
    return (ly["ind"] + ly["sig"] + ly["lang"] + fence_tag(e) + "\n" + render_items(ly["ind"], e["items"])
            + ly["ind"] + ly["sig"] + "\n")


def render_doc(doc):
    return "".join(e["ly"]["sep"] + render_elem(e["ly"], e) for e in doc)


def stmts_only(items):
    return [it for it in items if "cmt" not in it]


# --------------------------------------------------------------------------------------------------
# lines: the form in which a case reaches the Coq judge.  A line = dict(ind, text, role, it) with role
#   s statement (first line)  c comment  k continuation of a multi-line statement  p prose  b blank  f fence line
# The judge scans the lines itself (Model/DocScan.v); py_scan / py_elems mirror that model only to compute which
# statements fail and which code-only documents the model prescribes - the judge re-derives both and refuses the
# case if an echoed source differs.
# --------------------------------------------------------------------------------------------------
def L(ind, text, role, it=None):
    return dict(ind=ind, text=text, role=role, it=it)


def item_lines(ind, it):
    if "cmt" in it:
        return [L(ind, it["cmt"], "c", it)]
    parts = it["text"].split("\n")
    return [L(ind, parts[0], "s", it)] + [L("", p, "k") for p in parts[1:]]


def text_lines(text, role="p"):
    out = []
    for t in text.split("\n")[:-1]:
        out.append(L("", t, "b" if t.strip(" \t") == "" else role))
    return out


def doc_to_lines(doc):
    lines = []
    for e in doc:
        ly = e["ly"]
        for _ in range(len(ly["sep"])):
            lines.append(L("", "", "b"))
        if e["kind"] in ("prose", "nonmech"):
            # title(), ul_subtitle(), subtitle() and mechdown_table_row() end with whitespace0: role e
            lines += text_lines(e["text"], "e" if e.get("pk") in ("title", "section", "subsection", "table") else "p")
        elif e["kind"] == "code":
            for it in e["items"]:
                lines += item_lines(ly["ind"], it)
        else:
            lines.append(L(ly["ind"], ly["sig"] + ly["lang"] + fence_tag(e), "f"))
            for it in e["items"]:
                lines += item_lines(ly["ind"], it)
            lines.append(L(ly["ind"], ly["sig"], "f"))
    return lines


def full(l):
    return l["ind"] + l["text"]


def is_blank_text(t):
    return t.strip(" \t") == ""


def starts_sigil(t):
    for sg in ("```", "~~~"):
        if t.startswith(sg):
            return sg, t[3:]
    return None


def trim_rep(s, p):
    while s.startswith(p):
        s = s[len(p):]
    return s


def classify_tag(tag):
    """mirror of DocScan.classify_tag (src/syntax/src/mechdown.rs code_block)"""
    if tag == "ebnf":
        return ("ebnf", None)
    if tag.startswith("mech") or tag.startswith("mec") or tag.startswith("\U0001F916"):
        rest = trim_rep(trim_rep(trim_rep(trim_rep(tag, "mech"), "mec"), "\U0001F916"), ":")
        if rest == "":
            return ("unnamed", None)
        if rest == "disabled":
            return ("disabled", None)
        if rest == "hidden":
            return ("hidden", None)
        return ("named", rest)
    return ("plain", None)          # Equation / Diagram / CodeBlock: all inert


def py_scan(lines):
    """-> (closed?, blocks); a block is ('line', l) or ('fence', dict(raw=, body=[lines], pre=, post=))"""
    blocks, i, eat = [], 0, True
    while i < len(lines):
        t = full(lines[i])
        u = t.lstrip(" \t") if eat else t
        op = starts_sigil(u)
        if op is None:
            blocks.append(("line", lines[i]))
            if not is_blank_text(t):
                eat = lines[i]["role"] in ("s", "c", "k", "e")
            i += 1
            continue
        sg, raw = op
        body, j, closed = [], i + 1, False
        while j < len(lines):
            k = full(lines[j]).find(sg)
            if k >= 0:
                closed = True
                break
            body.append(lines[j]); j += 1
        if not closed:
            return False, blocks
        tj = full(lines[j])
        blocks.append(("fence", dict(raw=raw, body=body, pre=tj[:k], post=tj[k + 3:])))
        i, eat = j + 1, True
    return True, blocks


def fence_tag_of(b):
    return b["raw"].lstrip(" \t").split("{")[0]


def in_trailing_blank_class(blocks):
    """mirror of DocScan.kf_trailing_blank: a fence whose tag classifies differently without the blanks at its end"""
    return any(k == "fence" and classify_tag(fence_tag_of(b)) != classify_tag(fence_tag_of(b).rstrip(" \t")) for k, b in blocks)


def py_elems(blocks, trim=False):
    els = []
    for kind, b in blocks:
        if kind == "line":
            if b["role"] in ("s", "c"):
                els.append(dict(kind="code", name="", items=[b["it"]]))
            elif b["role"] in ("p", "e", "f"):
                els.append(dict(kind="prose", text=full(b) + "\n"))
        else:
            tag = fence_tag_of(b)
            k, name = classify_tag(tag.rstrip(" \t") if trim else tag)
            items = [l["it"] for l in b["body"] if l["role"] in ("s", "c")]
            if k in ("unnamed", "hidden"):
                els.append(dict(kind="fence", name="", items=items))
            elif k == "named":
                els.append(dict(kind="fence", name=name, items=items))
            elif k == "disabled":
                els.append(dict(kind="disabled", name="", items=items))
            else:
                els.append(dict(kind="nonmech", text=""))
    return els


_LISTED = None


def listed_findings():
    global _LISTED
    if _LISTED is None:
        try:
            from vlib import core
            _LISTED = sorted(core.load_known(PROP).keys())
        except Exception:
            _LISTED = []
    return _LISTED


def code_only_docs(els):
    """the code-only documents the model prescribes for the elements els (sets the `fails` flags of the statements)"""
    for e in els:
        for it in e.get("items", []):
            it.pop("fails", None)
    live, traces, names = simulate(els)
    main_items = [it for e in els if e["kind"] == "code" or (e["kind"] == "fence" and e["name"] == "") for it in e["items"]]
    srcs = [render_items("", stmts_only(main_items))]
    ly0 = dict(sep="", ind="", sig="```", lang="mech")
    for n in names:
        fs = [dict(kind="fence", name=n, items=stmts_only(e["items"])) for e in live if e["kind"] == "fence" and e["name"] == n]
        srcs.append("\n".join(render_elem(ly0, f) for f in fs))
        srcs.append("".join(t + "\n" for t in traces.get(n, [])))
    return srcs, names


def build_case_lines(lines, stream, extra_tags=None, doc=None):
    D = "".join(full(l) + "\n" for l in lines)
    closed, blocks = py_scan(lines)
    srcs = [D]
    names, els = [], []
    extra = {}
    if closed:
        if in_trailing_blank_class(blocks):
            # inside the class the judge wants the documents of the reading without the blanks first, then those
            # of the code's reading; a statement carries its `fails` flag under either reading
            s1, _ = code_only_docs(py_elems(blocks, trim=True))
            srcs += s1
            extra["trailing_blank_class"] = 1
            for l in lines:
                if l["role"] == "s":
                    l["it"]["failsT"] = l["it"].get("fails", 0)
        els = py_elems(blocks)
        s2, names = code_only_docs(els)
        srcs += s2
    lsx = []
    for l in lines:
        if l["role"] == "s":
            if "trailing_blank_class" in extra:
                lsx.append(["s", q(l["ind"]), q(l["text"]), l["it"].get("fails", 0), l["it"].get("failsT", 0)])
            else:
                lsx.append(["s", q(l["ind"]), q(l["text"]), l["it"].get("fails", 0)])
        else:
            lsx.append([l["role"], q(l["ind"]), q(l["text"])])
    all_items = [it for e in els for it in e.get("items", [])]
    tags = dict(stream=stream, namespaces=len(names), closed=int(closed),
                failing=("main" if any(it.get("fails") for e in els if e["kind"] == "code" or (e["kind"] == "fence" and not e["name"]) for it in e["items"]) else "") +
                        ("named" if any(it.get("fails") for e in els if e["kind"] == "fence" and e["name"] for it in e["items"]) else "") or "none")
    if doc is not None:
        kinds = sorted({e.get("pk") or (("named-fence" if e["name"] else "fence") if e["kind"] == "fence" else e["kind"]) for e in doc})
        for k in kinds:
            tags["has_" + k] = 1
    tags.update(extra)
    if extra_tags:
        tags.update(extra_tags)
    return dict(sx=sx(["lncase", stream, ["listed"] + [q(x) for x in listed_findings()]] + lsx),
                impl=dict(srcs=srcs, blocks=1), tags=tags, _lines=lines, _stream=stream)


def build_case(doc, stream, extra_tags=None):
    return build_case_lines(doc_to_lines(doc), stream, extra_tags, doc=doc)


# --------------------------------------------------------------------------------------------------
# stream `scan`: documents written line by line to stress the block-level classification
# --------------------------------------------------------------------------------------------------
MECH_LETTER_NAMES = ["m", "e", "c", "h", "me", "mec", "mech", "hem", "ech", "mmm", "cem", "eh", "mechmech", "mecmec",
                     "chem", "emc", "hc", "mm", "cc", "memech", "mecha", "emech", "cm", "hmec"]
ODD_NAMES = ["x-y_z1", "a:b", "x.y", "Disabled", "HIDDEN", "n1", "disabled2", "hiddenx", "ebnf", "eq", "python"]
PLAIN_INFOS = ["", "", "python", "python", "rust", " python", "c", "me", "Mech", "MECH", "m", "emech", "hmech", "xmech:a",
               "`", "``", "`mech", "``mech:x", "`python", "js ", "\tsh", "py\"thon", "a(b)[c]<d>|e\\f", "text", "eq", "math",
               "mermaid", "diagram", "latex"]


def hostile_items(rng, names):
    return [dict(text=l, defs=[], uses=[]) for l in hostile_lines(rng, names)]


def blanks(rng):
    return rng.choice(["", "", "", " ", "  ", "\t", "   "])


def make_scan_doc(rng, size):
    """-> (lines, tags)"""
    tags = {}
    nns = rng.choice([0, 1, 2, 2, 3])
    pool = MECH_LETTER_NAMES if rng.random() < 0.6 else list(dict.fromkeys(MECH_LETTER_NAMES + FENCE_NAMES + ODD_NAMES))
    fnames = rng.sample(pool, nns)
    main_prog = make_program(rng, list(NAMES), rng.randint(2, size))
    progs = {n: make_program(rng, list(NAMES), rng.randint(1, max(2, size // 2))) for n in fnames}
    main_names = [v for st in main_prog for v in st["defs"]]
    all_names = main_names + [v for n in fnames for st in progs[n] for v in st["defs"]]
    if fnames and rng.random() < 0.3:
        n = rng.choice(fnames)
        p = progs[n]
        own = {v for st in p for v in st["defs"]}
        cand = [v for v in main_names if v not in own]
        if cand and rng.random() < 0.5:
            bad = dict(text="leak := %s" % rng.choice(cand), defs=[], uses=["!"], force=True)
        else:
            bad = dict(text="bad := %s" % rng.choice(FAILING_RHS), defs=[], uses=["!"], force=True)
        p.insert(rng.randint(0, len(p)), bad)
        tags["failing_line"] = 1
    pieces = [[("main", ch) for ch in chunks(rng, main_prog)]] + [[(n, ch) for ch in chunks(rng, progs[n])] for n in fnames]
    order, idx = [], [0] * len(pieces)
    while any(i < len(s) for i, s in zip(idx, pieces)):
        k = rng.choice([j for j in range(len(pieces)) if idx[j] < len(pieces[j])])
        order.append(pieces[k][idx[k]]); idx[k] += 1

    lines = []
    state = dict(eat=True, last="start")        # last: start | code | prose | fence

    def sep(kind):
        # code next to prose needs a blank line (a prose line directly after code is offered to the code parser)
        need = 1 if (state["last"] == "code" and kind == "prose") or (state["last"] == "prose" and kind == "code") or \
                    (state["last"] == "prose" and kind == "prose") else 0
        n = max(need, rng.choice([0, 1, 1, 1, 2]))
        if state["last"] == "start":
            n = rng.choice([0, 0, 1])
        for _ in range(n):
            lines.append(L("", rng.choice(["", "", "", " ", "\t "]), "b"))

    def indent():
        if state["eat"] and rng.random() < 0.3:
            tags["indented_fence"] = 1
            return rng.choice([" ", "  ", "    ", "\t", "   "])
        if not state["eat"] and rng.random() < 0.04:
            tags["indented_after_prose"] = 1
            return "  "
        return ""

    def put_fence(sig, info, items, role_body="s", trail_open="", close_pre=None, close_post="", ind=None, extra_body=()):
        sep("fence")
        ind = indent() if ind is None else ind
        lines.append(L(ind, sig + info + trail_open, "f"))
        bind = rng.choice([ind, ind, "", "  "]) if role_body == "s" else ""
        for it in items:
            if role_body == "s":
                lines.extend(item_lines(bind, it))
            else:
                lines.append(L("", it, "p" if it.strip(" \t") else "b"))
            if rng.random() < 0.08:
                lines.append(L("", "", "b"))
        for t in extra_body:
            lines.append(L("", t, "p"))
        pre = rng.choice([ind, ind, "", " "]) if close_pre is None else close_pre
        lines.append(L(pre, sig + close_post, "f"))
        state["eat"], state["last"] = True, "fence"

    def mech_fence(name, items):
        sig = rng.choice(["```", "```", "~~~"])
        lang = rng.choice(["mech", "mech", "mech", "mec"])
        c = rng.random()
        if name == "main":
            info = lang if c < 0.8 else (lang + ":hidden" if c < 0.9 else lang + ":")
            if "hidden" in info:
                tags["hidden_fence"] = 1
        else:
            info = lang + ":" + name if c < 0.85 else (lang + "::" + name if c < 0.93 else lang + lang + ":" + name)
        if rng.random() < 0.15:
            info = " " + info                       # blanks between sigil and tag are skipped
        trail = ""
        if rng.random() < 0.015:
            trail = rng.choice([" ", "  ", "\t"])   # finding class fence-info-trailing-blank
            tags["trailing_blank_info"] = 1
        if sig == "~~~":
            tags["tilde_mech_fence"] = 1
        put_fence(sig, info, items, trail_open=trail, close_post=blanks(rng))

    def noise():
        c = rng.random()
        if c < 0.3:
            sep("prose")
            pk = rng.choice(["paragraph", "paragraph", "paragraph", "bullets", "numbered", "quote", "break", "table", "subsection"])
            eats = pk in ("table", "subsection")      # their parsers end with whitespace0
            tags["prose_" + pk] = 1
            lines.extend(text_lines(prose(rng, pk, "plain", all_names, rng.randint(1, 9)), "e" if eats else "p"))
            state["eat"], state["last"] = eats, "prose"
        elif c < 0.5:
            # plain fence that shows how a fence is written: a whole fence of the OTHER sigil type inside
            sig = rng.choice(["```", "~~~"])
            other = "~~~" if sig == "```" else "```"
            inner_info = rng.choice(["mech", "mech:x", "mech:" + rng.choice(MECH_LETTER_NAMES), "", "mech:disabled", "python"])
            body = [rng.choice(["", " ", "  "]) + other + inner_info] + hostile_lines(rng, all_names) + [other + blanks(rng)]
            if rng.random() < 0.3:
                body = hostile_lines(rng, all_names) + body + hostile_lines(rng, all_names)
            tags["nested_other_sigil"] = 1
            put_fence(sig, rng.choice(["", "", "python", "text", "md"]), body, role_body="p", close_post=blanks(rng))
        elif c < 0.68:
            sig = rng.choice(["```", "~~~"])
            info = rng.choice(PLAIN_INFOS)
            if sig == "~~~":
                info = info.replace("`", "~")
            if info[:1] in ("`", "~"):
                tags["long_sigil_opener"] = 1
            body = hostile_lines(rng, all_names)
            if rng.random() < 0.25:
                body.insert(rng.randint(0, len(body)), "see %s here" % ("~~~" if sig == "```" else "```"))   # other sigil inside a line
                tags["other_sigil_midline"] = 1
            put_fence(sig, info, body, role_body="p", close_post=blanks(rng))
        elif c < 0.8:
            sig = rng.choice(["```", "~~~"])
            lang = rng.choice(["mech", "mec"])
            tags["disabled_fence"] = 1
            put_fence(sig, lang + ":disabled", hostile_items(rng, all_names), close_post=blanks(rng))
        elif c < 0.9:
            # the body ends at the first occurrence of the own sigil, also inside a line
            sig = rng.choice(["```", "~~~"])
            body = hostile_lines(rng, all_names)
            sep("fence")
            ind = indent()
            lines.append(L(ind, sig + rng.choice(["", "python"]), "f"))
            for t in body:
                lines.append(L("", t, "p"))
            lines.append(L("", "the block ends here " + sig + blanks(rng), "f"))
            tags["closing_sigil_midline"] = 1
            state["eat"], state["last"] = True, "fence"
        elif c < 0.925:
            # closing line longer than three characters: the rest of the line is text after the closing sigil
            sig = rng.choice(["```", "~~~"])
            tags["long_sigil_closer"] = 1
            put_fence(sig, sig[0] * rng.randint(0, 2) + rng.choice(["", "python"]), hostile_lines(rng, all_names), role_body="p",
                      close_post=sig[0] * rng.randint(1, 2))
        else:
            sep("code")
            lines.extend(item_lines("", dict(cmt="-- " + sentence(rng, 2, 6))))
            state["eat"], state["last"] = True, "code"

    for _ in range(rng.choice([0, 0, 1])):
        noise()
    for name, items in order:
        if name == "main" and rng.random() < 0.55:
            sep("code")
            ind = rng.choice(["", "", "", "  "])
            for it in items:
                lines.extend(item_lines(ind, it))
            state["eat"], state["last"] = True, "code"
        else:
            mech_fence(name, items)
        for _ in range(rng.choice([0, 1, 1, 2])):
            noise()
    if rng.random() < 0.12:
        # a fence that is never closed (at most by the other sigil type): the document is a parse error
        sig = rng.choice(["```", "~~~"])
        other = "~~~" if sig == "```" else "```"
        sep("fence")
        lines.append(L("", sig + rng.choice(["", "python", "mech", "mech:a", "mech:disabled"]), "f"))
        for t in hostile_lines(rng, all_names):
            lines.append(L("", t, "p"))
        if rng.random() < 0.5:
            lines.append(L("", other, "p"))
        tags["unclosed_fence"] = 1
    return lines, tags


def fixed_scan_docs():
    def st(text):
        v = text.split(" ")[0]
        return dict(text=text, defs=[v] if ":=" in text else [], uses=[])
    def S(text, ind=""):
        return L(ind, text, "s", st(text))
    F, P, B = (lambda t, ind="": L(ind, t, "f")), (lambda t: L("", t, "p")), (lambda: L("", "", "b"))
    docs = [
        # docs/mechdown/code-block.mec: a fence of the other type inside a fence is body text
        [S("x := 1"), B(), F("~~~"), P("```mech:x"), P("x := 2"), P("```"), F("~~~"), B(), S("y := x + 1")],
        [S("x := 1"), B(), F("```"), P("~~~mech"), P("x := 2"), P("~~~"), F("```"), B(), S("y := x + 1")],
        # names over the letters of the language tag
        [F("```mech:me"), S("a := 1"), F("```"), F("```mech:e"), S("a := 2"), F("```"), F("```mech:mech"), S("a := 3"), F("```"),
         F("```mec:c"), S("a := 4"), F("```"), F("```mech:me"), S("b := a + 1"), F("```")],
        # language tags that are not mech
        [S("x := 1"), F("```me"), P("x := 2"), F("```"), F("```Mech"), P("x := 3"), F("```"), F("````mech"), P("x := 4"), F("```")],
        # hidden runs in the main program; disabled does not run
        [S("x := 1"), F("```mech:hidden"), S("y := x + 1"), F("```"), F("```mech:disabled"), S("y := 99"), F("```"), S("z := y + 1")],
        # unclosed
        [S("x := 1"), B(), F("```mech"), P("y := 2")],
        [S("x := 1"), B(), F("```python"), P("y := 2"), P("~~~")],
        # indentation is consumed after code and after a fence, with and without blank lines
        [S("x := 1"), F("~~~mech:a", "  "), S("y := 2", "  "), F("~~~", "  "), F("```mech:a", "    "), S("z := y"), F("```"), S("w := x")],
        # a tag is everything after the blanks that follow the sigil, its own trailing blanks included
        [F("```mech "), S("y := 2"), F("```"), S("x := 1")],
        [F("```mech:disabled "), S("y := 2"), F("```"), S("x := 1")],
        [F("```mech:a"), S("y := 2"), F("```"), F("```mech:a "), S("z := 3"), F("```")],
    ]
    return [build_case_lines(d, "scan", dict(origin="fixed-scan")) for d in docs]


def fixed_docs():
    """hand-written shapes (DESIGN.md C10): always part of the run"""
    def code(*lines, kind="code", name=""):
        items = []
        for l in lines:
            if l.startswith("--"):
                items.append(dict(cmt=l))
            elif l.startswith("!"):
                items.append(dict(text=l[1:], defs=[], uses=["!"], force=True))
            else:
                v = l.split(" ")[0].lstrip("~").split("<")[0]
                isdef = ":=" in l
                items.append(dict(text=l, defs=[v] if isdef else [], uses=[]))
        return dict(kind=kind, name=name, items=items)
    def p(text, pk="paragraph"):
        return dict(kind="prose", pk=pk, text=text)
    docs = []
    docs.append(("plain", [p("A Title\n=======\n", "title"), p("Some words about the model.\n"), code("x := 5", "y := x + 1"),
                           p("> a quoted line\n", "quote"), code("z := y * 2", kind="fence")]))
    docs.append(("plain", [code("x := 5"), code("a := 1", kind="fence", name="alpha"), p("More words here.\n"),
                           code("b := a + 1", kind="fence", name="alpha"), code("c := 3", "!d := a", "e := 4", kind="fence", name="beta"),
                           code("z := 9")]))
    docs.append(("plain", [code("x := 5"), code("u := 1", "!zz := qq + 1", "w := 3", kind="fence", name="alpha"), code("y := 2"),
                           code("v := u + 1", kind="fence", name="alpha")]))
    docs.append(("plain", [code("x := 5"), code("!zz := qq + 1", "w := 3", kind="fence"), code("y := 2"),
                           code("v := 1", kind="fence", name="alpha")]))
    docs.append(("plain", [code("x := 5", "-- a trailing comment")]))
    docs.append(("plain", [code("x := 5", "-- a comment", "y := 6")]))
    docs.append(("plain", [code("a := 1", "-- trailing", kind="fence", name="alpha"), code("x := 5")]))
    docs.append(("plain", [code("~m := 5"), p("Words words words.\n"), code("m = 7"),
                           dict(kind="disabled", pk="disabled", name="", items=[dict(text="m = 99", defs=[], uses=[])]),
                           dict(kind="nonmech", pk="nonmech", text="```python\nm = 99\n```\n"), code("m += 1", kind="fence")]))
    docs.append(("plain", [code("x := 1"), code("x := 2", kind="fence", name="alpha"), code("x := 3", kind="fence", name="beta")]))
    docs.append(("codelike", [code("x := 5"), p("We set x := 7 in the text.\n"), code("y := x + 1")]))
    docs.append(("codelike", [code("x := 5"), p("The value is {x} now and {x + 1} later.\n"), code("y := x + 1")]))
    out = []
    for stream, d in docs:
        for i, e in enumerate(d):
            e["ly"] = dict(LY0, sep="" if i == 0 else "\n")
            e.setdefault("pk", None)
        out.append(build_case(d, stream, dict(origin="fixed")))
    return out


def generate(tier, rng):
    for c in fixed_docs():
        yield c
    for c in fixed_scan_docs():
        yield c
    for i in range(600 if tier == "quick" else 6000):
        size = rng.choice([3, 5, 7]) if tier == "quick" else rng.choice([3, 5, 8, 12])
        lines, tags = make_scan_doc(rng, size)
        yield build_case_lines(lines, "scan", tags)
    n = 900 if tier == "quick" else 8000
    for i in range(n):
        r = i % 10
        stream = "plain" if r < 6 else ("codelike" if r < 8 else "layout")
        size = rng.choice([3, 5, 7]) if tier == "quick" else rng.choice([3, 5, 8, 14])
        doc = make_doc(rng, stream, size)
        yield build_case(doc, stream)


def fence_spans(lines):
    """(first, last) line index of every closed fence"""
    spans, i, eat = [], 0, True
    while i < len(lines):
        t = full(lines[i])
        op = starts_sigil(t.lstrip(" \t") if eat else t)
        if op is None:
            if not is_blank_text(t):
                eat = lines[i]["role"] in ("s", "c", "k", "e")
            i += 1
            continue
        j = i + 1
        while j < len(lines) and op[0] not in full(lines[j]):
            j += 1
        if j >= len(lines):
            break
        spans.append((i, j))
        i, eat = j + 1, True
    return spans


def shrink(case):
    lines = case.get("_lines")
    if not lines:
        return
    stream = case["_stream"]
    import copy
    cands = []
    for a, b in fence_spans(lines):
        cands.append(lines[:a] + lines[b + 1:])
    for i in range(len(lines)):
        if lines[i]["role"] == "k":
            continue
        j = i + 1
        while j < len(lines) and lines[j]["role"] == "k":
            j += 1
        cands.append(lines[:i] + lines[j:])
    for c in cands:
        if not c:
            continue
        try:
            yield build_case_lines(copy.deepcopy(c), stream, dict(origin="shrunk"))
        except Exception:
            pass
