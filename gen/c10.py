"""C10 — literate documents: prose is inert, named code fences are isolated.

A case is a Mechdown document built from generated per-interpreter programs (the unnamed main program and one
program per fence name) by cutting them into code blocks / fences and interleaving them with prose elements.
The plugin sends, with the document D, the code-only documents that the Coq model prescribes:
    M            main code only (all main lines in order, no comments, one block of plain code)
    for every fence name n that is reached, in order of first appearance:
      Na         the fences named n only (comments removed)
      Nb         the lines n's interpreter executes successfully, as plain main code
The harness (mode `doc`) echoes every source; the Coq judge re-renders all of them from the case with its own
`render_doc` / `main_only` / `ns_only` / `ns_flat`, refuses the case if a text differs, and compares the tables."""
from vlib.core import sx, q

PROP = "C10"
MODE = "doc"
LEVEL = "proof"
RULE = ("documents = generated programs (definitions with exactly denotable numbers / strings / booleans / small "
        "matrices, dependent definitions, a mutable variable with assignments, expression lines, comments; failing "
        "lines: undefined variable, cross-namespace reference, redefinition) cut into top-level code blocks, unnamed "
        "```mech fences and named fences (alpha, beta, gamma; same name several times), interleaved with prose: "
        "title, numbered section, subsection, paragraph, bullet / numbered list, block quote, thematic break, "
        "markdown table, fenced non-mech code (python / no language) and mech:disabled fences whose bodies would "
        "change program variables if executed.  Streams: plain (prose over a vocabulary without Mech operators, "
        "blank line between all elements: binding), codelike (sentences containing `x := 5`, `{x}`, `|`, `[..]` "
        "...: a parse error is advisory), layout (plain prose; no blank line after code elements, indented code, "
        "~~~ fences, `mec` tag: a parse error is advisory).  non-trivial = distinct document that evaluated and "
        "whose tables equal those of all its code-only documents")
ASSUMPTIONS = [
    "the document algebra (which lines reach which interpreter, in which order, and where evaluation stops) is proved "
    "generically in the statement semantics; the classification of every rendered line as prose or code by the real "
    "Mechdown parser is tested only - that is exactly what the comparison document vs code-only documents exercises",
    "values are not predicted by the model: both sides of every comparison come from the implementation "
    "(document vs the code-only documents the model prescribes), so the check is blind to defects of statement "
    "evaluation that are the same in a document and in plain code (other properties cover those)",
    "tables are compared as (name, mutable, value) rows, `ans` included; alias classes are not compared",
    "a line consisting of a single identifier is code by the grammar (an expression statement), not a one-word "
    "paragraph; the plain stream has no such lines (observed: `Overview` alone on a line -> UndefinedVariable, "
    "document stops)",
    "function definitions, state machines, inline `{{..}}` code with side effects, Mika sections, includes and "
    "nested (floated / prompted) fences are outside the generated documents",
]
TRIVIAL_TAGS = []

WORDS = ("the a this that model value result table figure section note reader system signal rate window first second "
         "last next simple linear small large slow fast often never always shows holds gives takes makes follows "
         "from with over under into after before between during without robot sensor wheel motor speed angle "
         "distance time step loop state input output error true false not and or is in if then else while for "
         "each every all none one two three many few more less most least new old same other "
         "caf\u00e9 na\u00efve \u00fcber r\u00e9sum\u00e9").split()
NAMES = ["x", "y", "z", "w", "k", "p", "q", "r", "s", "t", "u", "v", "width", "height", "total", "count",
         "rate", "gain", "speed", "offset", "limit", "scale", "ratio", "mass"]
# names of every shape: some consist only of letters of the language tag ("mech"), some become equal when a
# prefix of such letters is dropped, some differ only in case or length
FENCE_NAMES = ["alpha", "beta", "gamma", "c", "me", "cat", "at", "e1", "mx", "x1", "cache", "ache", "m", "data", "hem", "Alpha", "a"]


# --------------------------------------------------------------------------------------------------
# programs
# --------------------------------------------------------------------------------------------------
def lit(rng):
    c = rng.random()
    if c < 0.45:
        return str(rng.randint(0, 1000))
    if c < 0.6:
        return "-" + str(rng.randint(1, 500))
    if c < 0.8:
        return "%d.%s" % (rng.randint(0, 99), rng.choice(["5", "25", "75", "125", "0625"]))
    if c < 0.87:
        return '"%s"' % " ".join(rng.choice(WORDS) for _ in range(rng.randint(1, 3)))
    if c < 0.93:
        return rng.choice(["true", "false"])
    return "[" + " ".join(str(rng.randint(0, 99)) for _ in range(rng.randint(2, 4))) + "]"


def numeric(text):
    return not (text.startswith('"') or text in ("true", "false") or text.startswith("["))


def make_program(rng, names, n, prefix=""):
    """list of dicts {text, defs, uses, force} for ONE interpreter; statements succeed when run in order"""
    out = []
    nums = []          # numeric f64 scalars defined so far
    mut = None
    pool = list(names)
    rng.shuffle(pool)
    for _ in range(n):
        c = rng.random()
        if c < 0.12 and mut is None and pool:
            v = pool.pop()
            out.append(dict(text="~%s := %d" % (v, rng.randint(0, 50)), defs=[v], uses=[]))
            mut = v
            nums.append(v)
        elif c < 0.27 and mut is not None:
            op = rng.choice(["=", "=", "+="])
            rhs = str(rng.randint(1, 90)) if not nums or rng.random() < 0.5 else "%s + %d" % (rng.choice(nums), rng.randint(1, 9))
            uses = [mut] + [w for w in nums if rhs.startswith(w + " ")]
            out.append(dict(text="%s %s %s" % (mut, op, rhs), defs=[], uses=uses))
        elif c < 0.55 and nums and pool:
            v = pool.pop()
            a = rng.choice(nums)
            form = rng.random()
            if form < 0.4 and len(nums) > 1:
                b = rng.choice(nums)
                text, uses = "%s := %s %s %s" % (v, a, rng.choice(["+", "-", "*"]), b), [a, b]
            elif form < 0.8:
                text, uses = "%s := %s %s %d" % (v, a, rng.choice(["+", "-", "*"]), rng.randint(1, 12)), [a]
            else:
                text, uses = "%s := [%s %s]" % (v, a, a), [a]
            out.append(dict(text=text, defs=[v], uses=uses))
            if "[" not in text:
                nums.append(v)
        elif c < 0.6 and nums:
            a = rng.choice(nums)
            out.append(dict(text="%s + %d" % (a, rng.randint(1, 9)), defs=[], uses=[a]))   # expression line (ans only)
        elif pool:
            v = pool.pop()
            l = lit(rng)
            if numeric(l) and rng.random() < 0.15:
                k = rng.choice(["u8", "i64", "u16", "f32"])
                l2 = str(rng.randint(0, 200))
                out.append(dict(text="%s<%s> := %s" % (v, k, l2), defs=[v], uses=[]))
            else:
                text = "%s := %s" % (v, l)
                if rng.random() < 0.08:
                    text += " -- " + sentence(rng, 2, 4)
                out.append(dict(text=text, defs=[v], uses=[]))
                if numeric(l):
                    nums.append(v)
    return out


def sentence(rng, lo=2, hi=9):
    ws = [rng.choice(WORDS) for _ in range(rng.randint(lo, hi))]
    return " ".join(ws)


def cap(s):
    return s[0].upper() + s[1:]


# --------------------------------------------------------------------------------------------------
# prose
# --------------------------------------------------------------------------------------------------
CODELIKE = [
    "We set {v} := 5 in the text.", "The value is {{{v}}} now.", "Note that {v} + {w} = {v} holds.",
    "Either this | or that.", "Issue #12 and #{v} are fixed.", "Assign with := and compare with == here.",
    "Use [1 2 3] or [{v} {w}] maybe.", "Call f({v}) now.", "The kind <u8> fits {v}<u8> well.",
    "A mutable ~{v} here.", "Cost is 5 * 3 or {v} * 2.", "Then {v} = 99 is an assignment.",
    "Inline {{{{{v} = 99}}}} stays inert.", "Ranges 1..5 and {v}..10 exist.", "Send mail to me@{v}.org please.",
    "Quote \"{v} := 7\" verbatim.", "Sets {{1,2}} and maps are fine.", "Transpose {v}' or power {v}^2.",
    "Logical {v} && {w} || true.", "Arrow -> and => and <- appear.", "Percent 50% and tilde ~ and caret ^.",
    "Table | a | b | inline.", "Compare {v} < 3 > 2.", "Underscore _{v}_ and star *{v}* and grave `{v} := 1`.",
    "Dollars $5 and $$x^2$$ shown.", "Question? Yes! Semi; colon: done.", "Path a/b/c and {v}/2 here.",
    "At @home and &more.", "  {v} = 99 indented words follow here.",
]


def prose(rng, kind, stream, names, secno):
    """returns text (with trailing newline) of one prose element"""
    def sent():
        if stream == "codelike" and rng.random() < 0.6:
            v = rng.choice(names) if names else "x"
            w = rng.choice(names) if names else "y"
            return rng.choice(CODELIKE).format(v=v, w=w)
        n = rng.randint(2, 10)
        ws = [rng.choice(WORDS) for _ in range(n)]
        s = cap(" ".join(ws))
        if rng.random() < 0.25 and n > 3:
            i = rng.randint(1, n - 2)
            ws[i] += ","
            s = cap(" ".join(ws))
        return s + rng.choice([".", ".", ".", "!", "?"])
    if kind == "title":
        t = cap(sentence(rng, 2, 5))
        return t + "\n" + "=" * rng.choice([3, len(t), 79]) + "\n"
    if kind == "section":
        t = cap(sentence(rng, 2, 4))
        return "%d. %s\n%s\n" % (secno, t, "-" * rng.choice([3, len(t) + 3, 79]))
    if kind == "subsection":
        return "(%d.%d) %s\n" % (secno, rng.randint(1, 9), cap(sentence(rng, 2, 4)))
    if kind == "paragraph":
        return "".join(" ".join(sent() for _ in range(rng.randint(1, 2))) + "\n" for _ in range(rng.randint(1, 3)))
    if kind == "bullets":
        return "".join("- " + sent() + "\n" for _ in range(rng.randint(1, 4)))
    if kind == "numbered":
        return "".join("%d. %s\n" % (i + 1, sent()) for i in range(rng.randint(1, 4)))
    if kind == "quote":
        return "> " + sent() + "\n"
    if kind == "break":
        return "*" * rng.choice([3, 3, 5, 11]) + "\n"
    if kind == "table":
        nc = rng.randint(2, 3)
        cell = lambda: " ".join(rng.choice(WORDS) for _ in range(rng.randint(1, 2)))
        head = "| " + " | ".join(cap(cell()) for _ in range(nc)) + " |\n"
        align = "|" + "|".join(rng.choice(["---", ":---", "---:", ":---:"]) for _ in range(nc)) + "|\n"
        rows = "".join("| " + " | ".join(cell() for _ in range(nc)) + " |\n" for _ in range(rng.randint(1, 3)))
        return head + align + rows
    raise ValueError(kind)


PROSE_KINDS = ["section", "subsection", "paragraph", "paragraph", "paragraph", "bullets", "numbered", "quote",
               "break", "table"]


def hostile_lines(rng, names):
    """lines that would change the program's variables if they were executed"""
    out = []
    for _ in range(rng.randint(1, 3)):
        v = rng.choice(names) if names else "x"
        out.append(rng.choice(["%s := 99999", "%s = 99999", "~%s := 77777", "%s += 1000", "fresh%s := 1"]) % v)
    return out


# --------------------------------------------------------------------------------------------------
# documents
# --------------------------------------------------------------------------------------------------
LY0 = dict(sep="\n", ind="", sig="```", lang="mech")
FAILING_RHS = ["undefinedthing + 1", "undefinedthing + 1", '1 + "a"', "[1 2 3] + [1 2]", "nosuchfn(1)", '"a"<u8>', "true + 1"]


def chunks(rng, prog, maxlen=3):
    out, i = [], 0
    while i < len(prog):
        k = rng.randint(1, maxlen)
        out.append(prog[i:i + k]); i += k
    return out


def make_doc(rng, stream, size):
    """doc = list of elements: dict(kind= prose|nonmech|code|fence|disabled, name, items|text, ly, pk)"""
    nns = rng.choice([0, 0, 1, 1, 2, 2, 3])
    fnames = rng.sample(FENCE_NAMES, nns)
    names = list(NAMES)
    main_prog = make_program(rng, names, rng.randint(2, size))
    progs = {}
    for n in fnames:
        progs[n] = make_program(rng, names, rng.randint(1, max(2, size // 2)))   # same names on purpose (shadowing)
    main_names = [v for s in main_prog for v in s["defs"]]
    # failing lines
    if fnames and rng.random() < 0.45:
        n = rng.choice(fnames)
        p = progs[n]
        kind = rng.random()
        if kind < 0.4 and main_names:
            own = {v for s in p for v in s["defs"]}
            cand = [v for v in main_names if v not in own]
            bad = dict(text="leak%s := %s" % (n, rng.choice(cand)), defs=[], uses=["!"], force=True) if cand else None
        elif kind < 0.7:
            # errors raised by the interpreter front end carry source tokens, those raised by library function
            # compilers (kind / shape mismatch, missing function) do not: both must stay inside the fence
            bad = dict(text="bad%s := %s" % (n, rng.choice(FAILING_RHS)), defs=[], uses=["!"], force=True)
        else:
            d = [v for s in p for v in s["defs"]]
            rv = rng.choice(d) if d else None
            bad = dict(text="%s := 1" % rv, defs=[rv], uses=[]) if d else None
        if bad:
            pos = rng.randint(0, len(p))
            p.insert(pos, bad)
            if rng.random() < 0.3:
                # the error is raised inside the body of a user-defined function called from the fence (the function
                # scope swaps the interpreter's symbol table and must restore it on the error path too)
                if rng.random() < 0.5:
                    fdef = "boom%s(x<f64>) = z<f64> :=\n  z := x + missing%s." % (n, n)
                    call = "boom%s(1)" % n
                else:
                    fdef = "pick%s(x<u64>) => <u64>\n  ├ 0 => 1." % n
                    call = "pick%s(5u64)" % n
                p[pos] = dict(text="bad%s := %s" % (n, call), defs=[], uses=["!"], force=True)
                p.insert(rng.randint(0, pos), dict(text=fdef, defs=[], uses=[], fndef=True))
    if rng.random() < 0.07:
        # main code that fails: the document stops there
        own = set(main_names)
        other = [v for n in fnames for s in progs[n] for v in s["defs"] if v not in own]
        if other and rng.random() < 0.5:
            bad = dict(text="leakmain := %s" % rng.choice(other), defs=[], uses=["!"], force=True)
        else:
            bad = dict(text="badmain := %s" % rng.choice(FAILING_RHS), defs=[], uses=["!"], force=True)
        main_prog.insert(rng.randint(1, len(main_prog)), bad)
    # cut into elements
    streams = []
    els_main = []
    for ch in chunks(rng, main_prog):
        els_main.append(dict(kind="fence" if rng.random() < 0.4 else "code", name="", items=[dict(s) for s in ch]))
    streams.append(els_main)
    for n in fnames:
        streams.append([dict(kind="fence", name=n, items=[dict(s) for s in ch]) for ch in chunks(rng, progs[n])])
    # comments inside code (before a statement; rarely last in a block)
    for st in streams:
        for e in st:
            if rng.random() < 0.2:
                pos = rng.randint(0, len(e["items"]) - 1) if rng.random() < 0.85 else len(e["items"])
                e["items"].insert(pos, dict(cmt="-- " + sentence(rng, 2, 6)))
    # interleave the per-interpreter element lists, keeping each one's order
    code_els = []
    idx = [0] * len(streams)
    while any(i < len(s) for i, s in zip(idx, streams)):
        k = rng.choice([j for j in range(len(streams)) if idx[j] < len(streams[j])])
        code_els.append(streams[k][idx[k]]); idx[k] += 1
    # prose in between
    doc = []
    secno = 1
    if rng.random() < 0.6:
        doc.append(dict(kind="prose", pk="title", text=prose(rng, "title", "plain" if stream != "codelike" else stream, main_names, 0)))
    all_names = main_names + [v for n in fnames for s in progs[n] for v in s["defs"]]
    def add_prose():
        nonlocal secno
        c = rng.random()
        if c < 0.72:
            pk = rng.choice(PROSE_KINDS)
            doc.append(dict(kind="prose", pk=pk, text=prose(rng, pk, stream, all_names, secno)))
            if pk == "section":
                secno += 1
        elif c < 0.84:
            lang = rng.choice(["python", "python", "", "rust", "text"])
            body = hostile_lines(rng, all_names) if rng.random() < 0.6 else ["print(%d)" % rng.randint(0, 9), "y = [1, 2]"]
            sig = "```" if stream != "layout" or rng.random() < 0.7 else "~~~"
            if rng.random() < 0.3:
                # a listing that shows how a fence is written: the body embeds a fence of the OTHER sigil type
                # (docs/mechdown/code-block.mec: start and end fences must be of the same type)
                other = "~~~" if sig == "```" else "```"
                body = [other + rng.choice(["", "mech", "mech:x"])] + body + [other]
            doc.append(dict(kind="nonmech", pk="nonmech", text=sig + lang + "\n" + "".join(l + "\n" for l in body) + sig + "\n"))
        elif c < 0.95:
            doc.append(dict(kind="disabled", pk="disabled", name="", items=[dict(text=l, defs=[], uses=[]) for l in hostile_lines(rng, all_names)]))
        else:
            doc.append(dict(kind="code", pk="comment", name="", items=[dict(cmt="-- " + sentence(rng, 2, 6))]))
    for e in code_els:
        for _ in range(rng.choice([0, 1, 1, 2])):
            add_prose()
        doc.append(e)
    for _ in range(rng.choice([0, 0, 1, 2])):
        add_prose()
    # layout
    for i, e in enumerate(doc):
        ly = dict(LY0)
        if i == 0:
            ly["sep"] = ""
        if stream == "layout":
            prev = doc[i - 1] if i else None
            if prev is not None and prev["kind"] != "prose" and rng.random() < 0.5:
                ly["sep"] = ""
            elif rng.random() < 0.1 and i:
                ly["sep"] = "\n\n"
            if e["kind"] in ("code", "fence", "disabled"):
                if rng.random() < 0.3:
                    ly["ind"] = rng.choice([" ", "  ", "    "])
                if rng.random() < 0.3:
                    ly["sig"] = "~~~"
                if rng.random() < 0.3:
                    ly["lang"] = "mec"
        e["ly"] = ly
    return doc


# --------------------------------------------------------------------------------------------------
# the model's structure, mirrored (the Coq judge recomputes all of this and compares the echoed sources)
# --------------------------------------------------------------------------------------------------
def simulate(doc):
    """sets item['fails'] for every statement; returns (live elements, executed-ok statement texts per namespace, names)"""
    stores = {}
    main = set()
    traces = {}
    live, names, halted = [], [], False
    for e in doc:
        for it in e.get("items", []):
            if "cmt" not in it:
                it.setdefault("fails", 0)
        if halted:
            continue
        live.append(e)
        if e["kind"] == "code" or (e["kind"] == "fence" and e["name"] == ""):
            ok = run_trace(main, traces.setdefault("", []), e["items"])
            if not ok:
                halted = True
        elif e["kind"] == "fence":
            if e["name"] not in names:
                names.append(e["name"])
            run_trace(stores.setdefault(e["name"], set()), traces.setdefault(e["name"], []), e["items"])
    return live, traces, names


def run_trace(store, trace, items):
    for it in items:
        if "cmt" in it:
            continue
        f = it.get("force")
        fails = bool(f) or any(u not in store for u in it["uses"]) or any(v in store for v in it["defs"])
        it["fails"] = 1 if fails else 0
        if fails:
            return False
        store.update(it["defs"])
        trace.append(it["text"])
    return True


def item_text(it):
    return it["cmt"] if "cmt" in it else it["text"]


def render_items(ind, items):
    return "".join(ind + item_text(it) + "\n" for it in items)


def fence_tag(e):
    return ":disabled" if e["kind"] == "disabled" else (":" + e["name"] if e["name"] else "")


def render_elem(ly, e):
    if e["kind"] in ("prose", "nonmech"):
        return e["text"]
    if e["kind"] == "code":
        return render_items(ly["ind"], e["items"])
    return (ly["ind"] + ly["sig"] + ly["lang"] + fence_tag(e) + "\n" + render_items(ly["ind"], e["items"])
            + ly["ind"] + ly["sig"] + "\n")


def render_doc(doc):
    return "".join(e["ly"]["sep"] + render_elem(e["ly"], e) for e in doc)


def stmts_only(items):
    return [it for it in items if "cmt" not in it]


def build_case(doc, stream, extra_tags=None):
    live, traces, names = simulate(doc)
    D = render_doc(doc)
    main_items = [it for e in doc if e["kind"] == "code" or (e["kind"] == "fence" and e["name"] == "") for it in e["items"]]
    M = render_items("", stmts_only(main_items))
    srcs = [D, M]
    ly0 = dict(sep="", ind="", sig="```", lang="mech")
    for n in names:
        fs = [dict(kind="fence", name=n, items=stmts_only(e["items"])) for e in live if e["kind"] == "fence" and e["name"] == n]
        srcs.append("\n".join(render_elem(ly0, f) for f in fs))
        srcs.append("".join(t + "\n" for t in traces.get(n, [])))
    def item_sx(it):
        if "cmt" in it:
            return ["cmt", q(it["cmt"])]
        return ["stmt", q(it["text"]), it["fails"]]
    els = []
    for e in doc:
        ly = e["ly"]
        if e["kind"] == "prose":
            body = ["prose", q(e["text"])]
        elif e["kind"] == "nonmech":
            body = ["nonmech", q(e["text"])]
        elif e["kind"] == "code":
            body = ["code"] + [item_sx(i) for i in e["items"]]
        elif e["kind"] == "fence":
            body = ["fence", q(e["name"])] + [item_sx(i) for i in e["items"]]
        else:
            body = ["disabled"] + [item_sx(i) for i in e["items"]]
        els.append(["el", q(ly["sep"]), q(ly["ind"]), q(ly["sig"]), q(ly["lang"]), body])
    kinds = sorted({e.get("pk") or (("named-fence" if e["name"] else "fence") if e["kind"] == "fence" else e["kind"]) for e in doc})
    tags = dict(stream=stream, namespaces=len(names),
                failing=("main" if any(it.get("fails") for it in main_items) else "") +
                        ("named" if any(it.get("fails") for e in doc if e["kind"] == "fence" and e["name"] for it in e["items"]) else "") or "none")
    for k in kinds:
        tags["has_" + k] = 1
    if extra_tags:
        tags.update(extra_tags)
    return dict(sx=sx(["docase", stream] + els), impl=dict(srcs=srcs), tags=tags, _doc=doc, _stream=stream)


def fixed_docs():
    """hand-written shapes (DESIGN.md C10): always part of the run"""
    def code(*lines, kind="code", name=""):
        items = []
        for l in lines:
            if l.startswith("--"):
                items.append(dict(cmt=l))
            elif l.startswith("!"):
                items.append(dict(text=l[1:], defs=[], uses=["!"], force=True))
            else:
                v = l.split(" ")[0].lstrip("~").split("<")[0]
                isdef = ":=" in l
                items.append(dict(text=l, defs=[v] if isdef else [], uses=[]))
        return dict(kind=kind, name=name, items=items)
    def p(text, pk="paragraph"):
        return dict(kind="prose", pk=pk, text=text)
    docs = []
    docs.append(("plain", [p("A Title\n=======\n", "title"), p("Some words about the model.\n"), code("x := 5", "y := x + 1"),
                           p("> a quoted line\n", "quote"), code("z := y * 2", kind="fence")]))
    docs.append(("plain", [code("x := 5"), code("a := 1", kind="fence", name="alpha"), p("More words here.\n"),
                           code("b := a + 1", kind="fence", name="alpha"), code("c := 3", "!d := a", "e := 4", kind="fence", name="beta"),
                           code("z := 9")]))
    docs.append(("plain", [code("x := 5"), code("u := 1", "!zz := qq + 1", "w := 3", kind="fence", name="alpha"), code("y := 2"),
                           code("v := u + 1", kind="fence", name="alpha")]))
    docs.append(("plain", [code("x := 5"), code("!zz := qq + 1", "w := 3", kind="fence"), code("y := 2"),
                           code("v := 1", kind="fence", name="alpha")]))
    docs.append(("plain", [code("x := 5", "-- a trailing comment")]))
    docs.append(("plain", [code("x := 5", "-- a comment", "y := 6")]))
    docs.append(("plain", [code("a := 1", "-- trailing", kind="fence", name="alpha"), code("x := 5")]))
    docs.append(("plain", [code("~m := 5"), p("Words words words.\n"), code("m = 7"),
                           dict(kind="disabled", pk="disabled", name="", items=[dict(text="m = 99", defs=[], uses=[])]),
                           dict(kind="nonmech", pk="nonmech", text="```python\nm = 99\n```\n"), code("m += 1", kind="fence")]))
    docs.append(("plain", [code("x := 1"), code("x := 2", kind="fence", name="alpha"), code("x := 3", kind="fence", name="beta")]))
    docs.append(("codelike", [code("x := 5"), p("We set x := 7 in the text.\n"), code("y := x + 1")]))
    docs.append(("codelike", [code("x := 5"), p("The value is {x} now and {x + 1} later.\n"), code("y := x + 1")]))
    out = []
    for stream, d in docs:
        for i, e in enumerate(d):
            e["ly"] = dict(LY0, sep="" if i == 0 else "\n")
            e.setdefault("pk", None)
        out.append(build_case(d, stream, dict(origin="fixed")))
    return out


def generate(tier, rng):
    for c in fixed_docs():
        yield c
    n = 900 if tier == "quick" else 8000
    for i in range(n):
        r = i % 10
        stream = "plain" if r < 6 else ("codelike" if r < 8 else "layout")
        size = rng.choice([3, 5, 7]) if tier == "quick" else rng.choice([3, 5, 8, 14])
        doc = make_doc(rng, stream, size)
        yield build_case(doc, stream)


def shrink(case):
    doc = case.get("_doc")
    if not doc:
        return
    stream = case["_stream"]
    import copy
    # drop one element; drop one item of an element
    for i in range(len(doc)):
        d = copy.deepcopy(doc[:i] + doc[i + 1:])
        if d:
            d[0]["ly"]["sep"] = ""
            try:
                yield build_case(d, stream, dict(origin="shrunk"))
            except Exception:
                pass
    for i, e in enumerate(doc):
        items = e.get("items")
        if items and len(items) > 1:
            for j in range(len(items)):
                d = copy.deepcopy(doc)
                del d[i]["items"][j]
                if any("cmt" not in it for it in d[i]["items"]) or d[i]["kind"] != "fence":
                    try:
                        yield build_case(d, stream, dict(origin="shrunk"))
                    except Exception:
                        pass
