"""C03 — reading x[...]: generator of (matrix, index forms, index values) cases."""
from fractions import Fraction
from vlib import mechsrc as ms
from vlib.core import sx

PROP = "C03"
MODE = "session"
RULE = ("x of every shape 1x1..4x4 plus 1x7, 6x1, 5x3, 2x9 (row-vector, column-vector and matrix storage) with pairwise "
        "distinct elements (bool: random), all 16 element kinds (quick: kinds rotate over shapes and form pairs; thorough: full "
        "product); every index form {scalar, vector, range, :, mask} alone (5) and in every pair of positions (25); index values "
        "from {0, 1, mid, n, n+1, repeats, reversed, negative}, ranges inclusive/exclusive incl. out-of-range and 1-element ones, "
        "masks of length n-1, n, n+1, all-true, all-false, single-true; indices written as literals and through (typed) variables, "
        "row and column spellings, matrix-shaped masks; session = [x := ..., index variables, the read, x] so that x is "
        "re-observed after the read. non-trivial = distinct case judged ok with a value/scalar result")
ASSUMPTIONS = [
    "x and the indices are defined by typed literals with exactly representable values (C13 covers literals); index values are integers",
    "error kinds/messages are not compared (one Err token); a caught panic that the interpreter reports as MechError counts as an error",
    "combinations the interpreter does not implement at all (Model/Index.v: supported1/supported2: e.g. x[:] or x[1,:] on vector "
    "storage, 1-element index vectors/ranges/masks, x[:,:]) are advisory when they yield an error",
]
TRIVIAL_TAGS = ["error", "empty"]
STALL = 120.0   # seconds without output before a harness process counts as hung (the machine may be heavily loaded)

SHAPES = [(r, c) for r in range(1, 5) for c in range(1, 5)] + [(1, 7), (6, 1), (5, 3), (2, 9)]
FORMS = ["s", "v", "r", "a", "b"]


def distinct_value(k, n, rng):
    if k in ms.INT_KINDS:
        lo, hi = ms.kind_range(k)
        v = n if k[0] == "u" or n % 2 else -n
        return max(lo, min(hi, v))
    if k in ("f64", "f32"):
        return (n if n % 3 else -n) + (0.5 if n % 2 else 0.25)
    if k == "r64":
        return Fraction(2 * n + 1, 2)
    if k == "c64":
        return (float(n), float(-n))
    if k == "bool":
        return rng.random() < 0.5
    if k == "string":
        return "s%d" % n
    raise ValueError(k)


# ---- index values: (form, payload, good?) -----------------------------------
def scalar_values(n):
    mid = (n + 1) // 2
    good = sorted({1, mid, n})
    bad = [0, n + 1, -1]
    return [("s", z, True) for z in good] + [("s", z, False) for z in bad]


def vector_values(n, rng):
    mid = (n + 1) // 2
    good = [[1, n], [n, 1, 1], [mid, mid], list(range(n, 0, -1)) if n >= 2 else [1, 1], [1] * 3,
            [rng.randint(1, n) for _ in range(rng.randint(2, 5))]]
    bad = [[0, 1], [1, n + 1], [n + 1, n + 1], [1, 0, n]]
    one = [[1]]           # 1-element vector (a 1x1 matrix index: not implemented)
    return ([("v", l, True) for l in good] + [("v", l, False) for l in bad] + [("v", l, True) for l in one])


def range_values(n):
    mid = (n + 1) // 2
    good = [(1, n, True), (1, n + 1, False), (mid, n, True), (1, n, True), (1, 1, True)]
    if n >= 3:
        good.append((2, n, False))
    bad = [(0, 1, True), (n, n + 1, True), (0, n + 1, False), (n + 1, n + 2, True)]
    return [("r", g, True) for g in good] + [("r", b, False) for b in bad]


def mask_values(n, rng):
    res = []
    full = [[True] * n, [False] * n, [i == n - 1 for i in range(n)], [i == 0 for i in range(n)],
            [rng.random() < 0.5 for _ in range(n)], [rng.random() < 0.6 for _ in range(n)]]
    res += [("b", l, True) for l in full]
    if n >= 2:
        res += [("b", [True] * (n - 1), False), ("b", [rng.random() < 0.5 for _ in range(n - 1)], False),
                ("b", [False] * (n - 1), False)]
    res += [("b", [True] * (n + 1), False), ("b", [rng.random() < 0.5 for _ in range(n)] + [True], False),
            ("b", [rng.random() < 0.5 for _ in range(n)] + [False], False), ("b", [False] * (n + 1), False),
            ("b", [True] * n + [False, True], False)]
    return res


def values_for(form, n, rng):
    if form == "s":
        return scalar_values(n)
    if form == "v":
        return vector_values(n, rng)
    if form == "r":
        return range_values(n)
    if form == "a":
        return [("a", None, True)]
    return mask_values(n, rng)


# ---- rendering ------------------------------------------------------------------
def render_index(val, name, rng, shape_for_matrix_mask=None):
    """returns (defs, text, model sx, spelling tag)"""
    form, p, _ = val
    if form == "a":
        return [], ":", ["a"], "lit"
    if form == "s":
        m = ["s", p]
        c = rng.random()
        if c < 0.6:
            return [], str(p), m, "lit"
        if c < 0.8:
            return ["%s := %d" % (name, p)], name, m, "var"
        if p >= 0:
            k = rng.choice(["u8", "u64", "u16", "i64", "u128"])
        else:
            k = rng.choice(["i8", "i64"])
        return ["%s<%s> := %d" % (name, k, p)], name, m, "typedvar"
    if form == "r":
        lo, hi, incl = p
        return [], "%d..%s%d" % (lo, "=" if incl else "", hi), ["r", lo, hi, 1 if incl else 0], "lit"
    if form == "v":
        m = ["v"] + list(p)
        row = "[" + " ".join(str(z) for z in p) + "]"
        col = "[" + "; ".join(str(z) for z in p) + "]"
        c = rng.random()
        if c < 0.4:
            return [], row, m, "lit"
        if c < 0.55:
            return [], col, m, "litcol"
        if c < 0.85:
            return ["%s := %s" % (name, row if rng.random() < 0.7 else col)], name, m, "var"
        if all(z >= 0 for z in p):
            k = rng.choice(["u8", "u64", "i32"])
            return ["%s<[%s]:1,%d> := %s" % (name, k, len(p), row)], name, m, "typedvar"
        return ["%s := %s" % (name, row)], name, m, "var"
    if form == "b":
        m = ["b"] + [1 if b else 0 for b in p]
        ws = ["true" if b else "false" for b in p]
        row = "[" + " ".join(ws) + "]"
        col = "[" + "; ".join(ws) + "]"
        if shape_for_matrix_mask and rng.random() < 0.3:
            r, c = shape_for_matrix_mask
            if r > 1 and c > 1 and r * c == len(p):
                mat = "[" + "; ".join(" ".join(ws[j * r + i] for j in range(c)) for i in range(r)) + "]"
                if rng.random() < 0.5:
                    return [], mat, m, "litmat"
                return ["%s := %s" % (name, mat)], name, m, "varmat"
        c = rng.random()
        if c < 0.45:
            return [], row, m, "lit"
        if c < 0.6:
            return [], col, m, "litcol"
        return ["%s := %s" % (name, row if rng.random() < 0.7 else col)], name, m, "var"
    raise ValueError(form)


def make_x(k, r, c, rng):
    data = [distinct_value(k, n + 1, rng) for n in range(r * c)]
    return data, ms.define_matrix("x", k, r, c, data), ms.kval_matrix(k, r, c, data)


def make_case(k, r, c, vals, rng, stream):
    data, xdef, xsx = make_x(k, r, c, rng)
    defs, texts, models, spell = [], [], [], []
    for pos, v in enumerate(vals):
        d, t, m, sp = render_index(v, "pq"[pos], rng, shape_for_matrix_mask=(r, c) if len(vals) == 1 else None)
        defs += d; texts.append(t); models.append(m); spell.append(sp)
    ixs = ",".join(texts)
    readpos = len(defs) + 1
    scope = "top-level"
    if rng.random() < 0.12:
        # the read happens inside a match arm whose pattern variable `z` holds x and SHADOWS a global `z` of the same kind
        # and shape with other contents: `name[...]` must resolve the name like a bare `name` does (local bindings first)
        decoy = ms.define_matrix("z", k, r, c, list(reversed(data)))
        stmts = [xdef] + defs + [decoy, "x? | z => z[%s] | * => x[%s]." % (ixs, ixs), "x"]
        readpos += 1
        scope = "match-arm-shadowing"
    else:
        stmts = [xdef] + defs + ["x[" + ixs + "]", "x"]
    forms = "".join(v[0] for v in vals)
    good = all(v[2] for v in vals)
    tags = dict(stream=stream, forms=forms, kind=k, shape="%dx%d" % (r, c), inrange=good, spelling="/".join(spell), scope=scope)
    return dict(sx=sx(["c03", xsx, models, readpos]), impl=dict(stmts=stmts), tags=tags, src="\n".join(stmts))


def pick_pairs(vi, vj, rng, per_pair):
    gi = [v for v in vi if v[2]]; bi = [v for v in vi if not v[2]]
    gj = [v for v in vj if v[2]]; bj = [v for v in vj if not v[2]]
    out = []
    ngood = max(1, per_pair // 2)
    for _ in range(ngood):
        out.append((rng.choice(gi), rng.choice(gj)))
    rest = per_pair - ngood
    opts = []
    if bi: opts.append(lambda: (rng.choice(bi), rng.choice(gj)))
    if bj: opts.append(lambda: (rng.choice(gi), rng.choice(bj)))
    if bi and bj: opts.append(lambda: (rng.choice(bi), rng.choice(bj)))
    for t in range(rest):
        if not opts:
            out.append((rng.choice(gi), rng.choice(gj)))
        else:
            out.append(opts[t % len(opts)]())
    return out


def generate(tier, rng):
    kinds = ms.ALL_KINDS
    ki = 0
    quick = tier == "quick"
    per_pair = 3 if quick else 6
    for (r, c) in SHAPES:
        klist = [None] if quick else kinds
        for kfix in klist:
            n1 = r * c
            # ---- one index ----
            for f in FORMS:
                vals = values_for(f, n1, rng)
                if quick and len(vals) > 6:
                    vals = rng.sample(vals, 6)
                for v in vals:
                    k = kfix or kinds[ki % len(kinds)]; ki += 1
                    yield make_case(k, r, c, [v], rng, "1d")
            # ---- two indices ----
            for f1 in FORMS:
                for f2 in FORMS:
                    v1 = values_for(f1, r, rng); v2 = values_for(f2, c, rng)
                    for (a, b) in pick_pairs(v1, v2, rng, per_pair):
                        k = kfix or kinds[ki % len(kinds)]; ki += 1
                        yield make_case(k, r, c, [a, b], rng, "2d")
    # every kind on a fixed 3x4 matrix, every form / form pair in range, plus the mask corner cases
    r, c = 3, 4
    for k in kinds:
        for f in FORMS:
            for v in values_for(f, r * c, rng)[:3]:
                yield make_case(k, r, c, [v], rng, "1d-allkinds")
        fpairs = [(f1, f2) for f1 in FORMS for f2 in FORMS]
        if quick:
            fpairs = rng.sample(fpairs, 12)
        for (f1, f2) in fpairs:
            v1 = [v for v in values_for(f1, r, rng) if v[2]]; v2 = [v for v in values_for(f2, c, rng) if v[2]]
            yield make_case(k, r, c, [rng.choice(v1), rng.choice(v2)], rng, "2d-allkinds")
        # masks of wrong length in every position, all-false masks against out-of-range partners
        for (a, b) in [(("b", [True, False, True, True], False), ("s", 2, True)),
                       (("b", [True, False], False), ("v", [1, 2], True)),
                       (("s", 2, True), ("b", [True, False, True], False)),
                       (("a", None, True), ("b", [True, False, True, False, True], False)),
                       (("b", [False, False, False], True), ("s", 9, False)),
                       (("v", [1, 7], False), ("b", [False] * 4, True)),
                       (("b", [True, False, True], True), ("a", None, True)),
                       (("b", [True, True, True], True), ("a", None, True))]:
            yield make_case(k, r, c, [a, b], rng, "2d-mask-corners")
        yield make_case(k, r, c, [("b", [True] * 13, False)], rng, "1d-mask-corners")
        yield make_case(k, r, c, [("b", [False] * 12 + [True], False)], rng, "1d-mask-corners")
        yield make_case(k, r, c, [("b", [True] * 11, False)], rng, "1d-mask-corners")


def pregen():
    """regenerate coq/theories/Gen/AllocArms.v from the current Rust source (translators/alloc_arms.py): the allocation obligations
    of Props/C03.v are stated over that table"""
    import os, sys
    from vlib import core as _core
    sys.path.insert(0, os.path.join(_core.ROOT, "translators"))
    import armlib
    return armlib.pregen(PROP, [("alloc_arms", "theories/Proofs/AllocArmsP.vo")])


def shrink(case):
    return []


def check(tier, seed, replay=None):
    """Standard flow, except that cases whose harness process stalled / died / produced nothing are re-run (up to
    twice, with few workers) before they are judged: on a heavily loaded machine a worker can be starved for minutes.
    A reproducible hang or abort is still observed as `(hang)` / `(abort n)` and judged `bad`."""
    import types
    from vlib import core, flow

    def flaky(o):
        return o.startswith("(hang") or o.startswith("(abort") or o.startswith("(missing")

    def judge_cases(model_exe, mode, cases, harness_exe=None, stall=30.0):
        obs = core.run_impl(mode, cases, exe=harness_exe, stall=stall)
        for _ in range(2):
            redo = [c for c in cases if flaky(obs.get(c["id"], "(missing)"))]
            if not redo:
                break
            core.log("[C03] re-running %d cases whose harness process stalled or died" % len(redo))
            obs.update(core.run_impl(mode, redo, exe=harness_exe, stall=stall, workers=4))
        lines = ["(%s %s)" % (c["sx"], obs.get(c["id"], "(missing)")) for c in cases]
        verdicts = core.run_model(model_exe, lines)
        return [(c, obs.get(c["id"], "(missing)"), v) for c, v in zip(cases, verdicts)]

    plugin = types.SimpleNamespace(**{k: v for k, v in globals().items() if k != "check" and not k.startswith("__")})
    orig = flow.judge_cases
    flow.judge_cases = judge_cases
    try:
        return flow.standard_check(plugin, tier, seed, replay)
    finally:
        flow.judge_cases = orig
