"""C18 — table joins and row selection: generator of pairs of small tables / selectors."""
import itertools
from vlib import mechsrc as ms
from vlib.core import sx, q

PROP = "C18"
MODE = "prog"
RULE = ("pairs of tables bound to variables by table literals: 1-3 columns each, 0-2 commonly named columns (at random "
        "positions, possibly in different order on the two sides), 0-5 rows each (0 rows via an all-false mask on a literal, "
        "the literal syntax has no empty table), cells from a 3-value domain per kind (u8/u64/f64/string/bool) so that "
        "duplicate keys, duplicate whole rows and many-to-many matches occur; every join operator (inner, left/right/full "
        "outer, left semi, left anti) in symbol and in word form: the full grid operator x form x shared-count x rows-left "
        "x rows-right once, plus random pairs; row selection by index, index vector (literal row/column vector, variable, "
        "range; bracket and brace form) and logical mask (literal, variable, bool column); "
        "non-trivial = distinct case with a binding verdict")
ASSUMPTIONS = [
    "tables are observed through variables defined by table literals; cell values are small exact literals "
    "(C13 covers literal denotation)",
    "outside the region the property fixes and therefore advisory: shared columns of different kinds, duplicate column "
    "names, optional/empty input cells, -0/NaN keys, indices out of range, masks whose length is not the row count",
    "error kinds/messages are not compared",
]
TRIVIAL_TAGS = []
STALL = 180.0      # no case takes more than milliseconds; a busy machine must not look like a hang

KINDS = ["u8", "u64", "f64", "string", "bool"]
DOMAIN = {
    "u8": [1, 2, 3],
    "u64": [1, 2, 3],
    "f64": [0.5, 1.0, 2.5],
    "string": ["a", "b", "c"],
    "bool": [True, False],
}
WIDE = {
    "u8": [1, 2, 3, 200, 255, 0],
    "u64": [1, 2, 3, 10, 20, 4294967296],
    "f64": [0.5, 1.0, 2.5, 100.0, 0.125, 3.0],
    "string": ["a", "b", "c", "hello", "x y", ""],
    "bool": [True, False],
}
OPS = {
    "inner": ("⋈", "table/join"),
    "left": ("⟕", "table/left-outer-join"),
    "right": ("⟖", "table/right-outer-join"),
    "full": ("⟗", "table/full-outer-join"),
    "semi": ("⋉", "table/left-semi-join"),
    "anti": ("▷", "table/left-anti-join"),
}


def cell(k, v):
    return ["s", k, ms.payload(k, v)]


def table_sx(cols, rows):
    return ["tbl", [[q(n), q(k)] for n, k in cols], [[cell(k, v) for (n, k), v in zip(cols, r)] for r in rows]]


def table_literal(cols, rows):
    head = "| " + " ".join("%s<%s>" % (n, k) for n, k in cols) + " |"
    body = "".join(" " + " ".join(ms.lit(k, v) for (n, k), v in zip(cols, r)) + " |" for r in rows)
    return head + body


def define_table(name, cols, rows, rng):
    """Mech statements binding `name` to the table; 0 rows through an all-false mask."""
    if rows:
        return ["%s := %s" % (name, table_literal(cols, rows))]
    base = [[rng.choice(DOMAIN[k]) for n, k in cols] for _ in range(2)]
    return ["%s0 := %s" % (name, table_literal(cols, base)), "%s := %s0[[false false]]" % (name, name)]


def random_rows(cols, n, rng, keycols, wide_p=0.3):
    rows = []
    for _ in range(n):
        if rows and rng.random() < 0.2:
            rows.append(list(rng.choice(rows)))          # duplicate whole row
            continue
        r = []
        for (nm, k) in cols:
            dom = DOMAIN[k] if (nm in keycols or rng.random() > wide_p) else WIDE[k]
            r.append(rng.choice(dom))
        rows.append(r)
    return rows


def join_case(op, form, lcols, lrows, rcols, rrows, rng, stream):
    sym, word = OPS[op]
    src = define_table("a", lcols, lrows, rng) + define_table("b", rcols, rrows, rng)
    expr = "a %s b" % sym if form == "symbol" else "%s(a, b)" % word
    if rng.random() < 0.25:
        src += ["J := " + expr, "J"]          # through a variable
    else:
        src.append(expr)
    nshared = len(set(n for n, _ in lcols) & set(n for n, _ in rcols))
    return dict(sx=sx(["join", op, table_sx(lcols, lrows), table_sx(rcols, rrows)]),
                impl=dict(src="\n".join(src)),
                tags=dict(stream=stream, op=op + "/" + form, shared=nshared, rows="%dx%d" % (len(lrows), len(rrows))),
                spec=dict(t="join", op=op, form=form, lcols=lcols, lrows=lrows, rcols=rcols, rrows=rrows, stream=stream))


def random_schema(nshared, rng, nl=None, nr=None, same_kinds=True):
    nl = nl if nl is not None else rng.randint(max(1, nshared), 3)
    nr = nr if nr is not None else rng.randint(max(1, nshared), 3)
    nl, nr = max(nl, nshared, 1), max(nr, nshared, 1)
    shared = [("k%d" % (i + 1), rng.choice(KINDS)) for i in range(nshared)]
    lcols = list(shared) + [("x%d" % (i + 1), rng.choice(KINDS)) for i in range(nl - nshared)]
    if same_kinds:
        rsh = list(shared)
    else:
        rsh = [(n, rng.choice([x for x in KINDS if x != k])) for n, k in shared]
    rcols = rsh + [("y%d" % (i + 1), rng.choice(KINDS)) for i in range(nr - nshared)]
    rng.shuffle(lcols)
    rng.shuffle(rcols)
    return lcols, rcols, set(n for n, _ in shared)


def random_join(op, form, nshared, nlr, nrr, rng, stream):
    lcols, rcols, keys = random_schema(nshared, rng)
    wide = rng.choice([0.0, 0.3])
    return join_case(op, form, lcols, random_rows(lcols, nlr, rng, keys, wide), rcols,
                     random_rows(rcols, nrr, rng, keys, wide), rng, stream)


# ---- row selection -----------------------------------------------------------
def sel_case(cols, rows, how, arg, expr_lines, stream, style):
    src = ["a := %s" % table_literal(cols, rows)] + expr_lines
    return dict(sx=sx(["sel", how, table_sx(cols, rows), arg]), impl=dict(src="\n".join(src)),
                tags=dict(stream=stream, op="select-" + how + "/" + style, rows=len(rows)),
                spec=dict(t="sel"))


def bools(m):
    return " ".join("true" if b else "false" for b in m)


def sel_cases(rng, n):
    for _ in range(n):
        ncols = rng.randint(1, 3)
        cols = [("c%d" % (i + 1), rng.choice(KINDS)) for i in range(ncols)]
        nrows = rng.randint(1, 5)
        rows = random_rows(cols, nrows, rng, set(), 0.5)
        kind = rng.choice(["ix", "ix", "vec", "vec", "vec", "mask", "mask", "mask"])
        if kind == "ix":
            i = rng.randint(1, nrows)
            style = rng.choice(["literal", "variable", "typed"])
            if style == "literal":
                lines = ["a[%d]" % i]
            elif style == "variable":
                lines = ["i := %d" % i, "a[i]"]
            else:
                lines = ["a[%d<u8>]" % i]
            yield sel_case(cols, rows, "ix", i, lines, "select", style)
        elif kind == "vec":
            style = rng.choice(["row-literal", "comma-literal", "col-literal", "variable", "range", "brace-range"])
            if style in ("range", "brace-range"):
                lo = rng.randint(1, nrows)
                hi = rng.randint(lo, nrows)
                if lo == hi:
                    if nrows == 1:
                        continue
                    lo, hi = (lo, lo + 1) if lo < nrows else (lo - 1, lo)
                ixs = list(range(lo, hi + 1))
                lines = ["a[%d..=%d]" % (lo, hi)] if style == "range" else ["a{%d..=%d}" % (lo, hi)]
            else:
                ln = rng.randint(2, 6)
                ixs = [rng.randint(1, nrows) for _ in range(ln)]
                if style == "row-literal":
                    lines = ["a[[%s]]" % " ".join(map(str, ixs))]
                elif style == "comma-literal":
                    lines = ["a[[%s]]" % ",".join(map(str, ixs))]
                elif style == "col-literal":
                    lines = ["a[[%s]]" % "; ".join(map(str, ixs))]
                else:
                    lines = ["i := [%s]" % " ".join(map(str, ixs)), "a[i]"]
            yield sel_case(cols, rows, "vec", ixs, lines, "select", style)
        else:
            if nrows == 1:
                continue
            style = rng.choice(["literal", "variable", "bool-column", "bool-column-brace"])
            if style.startswith("bool-column"):
                cols = list(cols)
                j = rng.randrange(ncols)
                cols[j] = (cols[j][0], "bool")
                rows = random_rows(cols, nrows, rng, set(), 0.5)
                mask = [bool(r[j]) for r in rows]
                lines = ["a[a.%s]" % cols[j][0]] if style == "bool-column" else ["a{a.%s}" % cols[j][0]]
            else:
                mask = [rng.random() < 0.5 for _ in range(nrows)]
                lines = ["a[[%s]]" % bools(mask)] if style == "literal" else ["m := [%s]" % bools(mask), "a[m]"]
            yield sel_case(cols, rows, "mask", [1 if b else 0 for b in mask], lines, "select", style)


def sel_edge_cases(rng, n):
    """outside the fixed region (advisory) and the singleton selectors."""
    for t in range(n):
        ncols = rng.randint(1, 2)
        cols = [("c%d" % (i + 1), rng.choice(KINDS)) for i in range(ncols)]
        nrows = rng.randint(1, 4)
        rows = random_rows(cols, nrows, rng, set(), 0.5)
        c = t % 6
        if c == 0:
            i = rng.choice([0, nrows + 1, nrows + 2])
            yield sel_case(cols, rows, "ix", i, ["a[%d]" % i], "select-edge", "out-of-range")
        elif c == 1:
            ixs = [rng.randint(1, nrows), nrows + 1]
            yield sel_case(cols, rows, "vec", ixs, ["a[[%s]]" % " ".join(map(str, ixs))], "select-edge", "out-of-range")
        elif c == 2:
            mask = [rng.random() < 0.5 for _ in range(nrows + rng.choice([1, 2]))]
            yield sel_case(cols, rows, "mask", [1 if b else 0 for b in mask], ["a[[%s]]" % bools(mask)], "select-edge", "mask-length")
        elif c == 3:
            i = rng.randint(1, nrows)
            yield sel_case(cols, rows, "vec", [i], ["a[[%d]]" % i], "select-edge", "singleton-vector")
        elif c == 4:
            i = rng.randint(1, nrows)
            yield sel_case(cols, rows, "vec", [i], ["a[%d..=%d]" % (i, i)], "select-edge", "singleton-range")
        else:
            rows = rows[:1]
            b = rng.random() < 0.5
            yield sel_case(cols, rows, "mask", [1 if b else 0], ["a[[%s]]" % bools([b])], "select-edge", "singleton-mask")


def generate(tier, rng):
    mult = 1 if tier == "quick" else 8
    # 1. the docs/test-suite example in every operator and form
    lcols, rcols = [("id", "u64"), ("x", "u64")], [("id", "u64"), ("y", "u64")]
    lrows, rrows = [[1, 10], [2, 20], [3, 30]], [[2, 200], [3, 300], [4, 400]]
    for op in OPS:
        for form in ("symbol", "word"):
            yield join_case(op, form, lcols, lrows, rcols, rrows, rng, "docs")
    # 2. full grid operator x form x shared x rows x rows
    for _ in range(mult):
        for op in OPS:
            for form in ("symbol", "word"):
                for nshared in (0, 1, 2):
                    for nl in range(6):
                        for nr in range(6):
                            yield random_join(op, form, nshared, nl, nr, rng, "grid")
    # 3. the same pair of tables under all six operators (many-to-many on one key column)
    for _ in range(120 * mult):
        nshared = rng.choice([0, 1, 1, 1, 2])
        lcols, rcols, keys = random_schema(nshared, rng)
        lrows = random_rows(lcols, rng.randint(0, 5), rng, keys, 0.0)
        rrows = random_rows(rcols, rng.randint(0, 5), rng, keys, 0.0)
        for op in OPS:
            yield join_case(op, rng.choice(["symbol", "word"]), lcols, lrows, rcols, rrows, rng, "all-ops")
    # 4. identical schemas (every column shared) and self joins
    for _ in range(40 * mult):
        n = rng.randint(1, 2)
        cols = [("k%d" % (i + 1), rng.choice(KINDS)) for i in range(n)]
        keys = set(c[0] for c in cols)
        lrows = random_rows(cols, rng.randint(0, 5), rng, keys, 0.0)
        rrows = lrows if rng.random() < 0.3 else random_rows(cols, rng.randint(0, 5), rng, keys, 0.0)
        rc = list(cols)
        rng.shuffle(rc)
        perm = [cols.index(c) for c in rc]
        rrows2 = [[r[p] for p in perm] for r in rrows]
        op = rng.choice(list(OPS))
        yield join_case(op, rng.choice(["symbol", "word"]), cols, lrows, rc, rrows2, rng, "all-shared")
    # 5. outside the region: shared column names with different kinds (advisory)
    for _ in range(30 * mult):
        lcols, rcols, keys = random_schema(rng.choice([1, 2]), rng, same_kinds=False)
        op = rng.choice(list(OPS))
        yield join_case(op, rng.choice(["symbol", "word"]), lcols, random_rows(lcols, rng.randint(1, 4), rng, keys, 0.0),
                        rcols, random_rows(rcols, rng.randint(1, 4), rng, keys, 0.0), rng, "kind-mismatch")
    # 6. row selection
    for c in sel_cases(rng, 700 * mult):
        yield c
    for c in sel_edge_cases(rng, 60 * mult):
        yield c


def shrink(case):
    s = case.get("spec") or {}
    if s.get("t") != "join":
        return []
    out = []
    import random
    rng = random.Random(1)
    for side in ("lrows", "rrows"):
        rows = s[side]
        for i in range(len(rows)):
            if len(rows) <= 1:
                continue
            t = dict(s)
            t[side] = rows[:i] + rows[i + 1:]
            out.append(join_case(t["op"], t["form"], t["lcols"], t["lrows"], t["rcols"], t["rrows"], rng, t["stream"]))
    return out
