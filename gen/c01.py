"""C01 — elementwise operators: every operator x kind x (lhs shape class, rhs shape class).

One case = one expression `a OP b` (operands bound to variables by typed definitions) evaluated in a fresh
interpreter, plus in the same `multi` request
  * `(a, b)`            — the operands as the implementation holds them (the judge works on THESE values, so the
                          check does not depend on how a literal is read: that is C13's business), and
  * `x OP y`            — one scalar evaluation per distinct pair of element literals that meet in the broadcast
                          (the implementation's own scalar operator: the oracle the property names; every one of
                          them is also judged against the Coq scalar model).
The decision (binding / advisory / known finding / violation) is taken by the extracted Coq judge."""
import itertools
from vlib.core import sx

PROP = "C01"
MODE = "multi"
STALL = 120.0
RULE = ("operator (15 binary + 2 unary) x operand kind (16; those without an arm as a separate must-reject stream) x "
        "(lhs class, rhs class) over {scalar, 1x1, 1xN, Nx1, NxN, MxN}, N,M in {2,3,4,5,7}: all 24 compatible class pairs "
        "(= every dispatch arm SS/SM/MS/same-form/MDVD/VDMD/MDRD/RDMD for every storage form) rotated over (op,kind) and "
        "topped up so that every (kind, lhs form, rhs form) and, for the non-commutative operators, every "
        "(kind class, op, class pair) occurs; ~20 incompatible class pairs as a separate stream; element literals from "
        "boundary pools (0, +-1, min, max, powers of two, 0.1, 2^53+1, max float, subnormal, big rationals) plus random, "
        "inf/NaN/-0 built by arithmetic; non-trivial = distinct case whose verdict is a compared value")
ASSUMPTIONS = [
    "operands are observed: the judge reads A and B from the implementation's evaluation of `(a, b)`; a scalar definition "
    "`x<k> := lit` is assumed to denote the same value as the same literal inside a typed matrix definition (a difference "
    "would show up as an elementwise mismatch)",
    "error kinds/messages are not compared (one Err token); the harness is a dev-profile build (integer overflow = error)",
    "float `%`, float `^` and every operator on c64 are not modelled on scalars: there the elements are compared with the "
    "implementation's own scalar results only",
    "acceptance of matrix-with-row/column-vector operands is not demanded by the property text; a rejection there would be "
    "recorded as advisory (none observed)",
    "translator lemma (Gen/DispatchArms.v): the buildable configuration is taken to be the cfg features "
    "{matrixd, vectord, row_vectord} (RowDVector/DVector/DMatrix only), as stated by the property",
]
TRIVIAL_TAGS = ["rejected-shape", "rejected-kind"]

UINTS = ["u8", "u16", "u32", "u64", "u128"]
SINTS = ["i8", "i16", "i32", "i64", "i128"]
INTS = UINTS + SINTS
FLOATS = ["f32", "f64"]
KINDS = INTS + FLOATS + ["r64", "c64", "bool", "string"]
KCLASS = {**{k: "unsigned" for k in UINTS}, **{k: "signed" for k in SINTS}, "f32": "float", "f64": "float",
          "r64": "rational", "c64": "complex", "bool": "bool", "string": "string"}

BINOPS = [("add", "+"), ("sub", "-"), ("mul", "*"), ("div", "/"), ("mod", "%"), ("pow", "^"),
          ("eq", "=="), ("ne", "!="), ("lt", "<"), ("le", "<="), ("gt", ">"), ("ge", ">="),
          ("and", "&&"), ("or", "||"), ("xor", "⊕")]
UNOPS = [("neg", "-"), ("not", "!")]
NONCOMM = ["sub", "div", "mod", "pow", "lt", "le", "gt", "ge"]


def accepts(op, k):
    if op == "add": return k != "bool"
    if op in ("sub", "mul", "div"): return k not in ("bool", "string")
    if op == "mod": return k in INTS + FLOATS
    if op == "pow": return k in ("u8", "u16", "u32", "f32", "f64")
    if op == "neg": return k in SINTS + FLOATS + ["r64", "c64"]
    if op in ("eq", "ne"): return True
    if op in ("lt", "le", "gt", "ge"): return k not in ("bool", "string")
    return k == "bool"


def check(tier, seed, replay=None):
    """standard flow, except that a case whose harness process died or stalled (no `(multi ...)` observation: machine
    overload, or the shared harness binary being rebuilt by a concurrent check) is evaluated once more before it is
    judged; if it still has no observation the judge reports it as a violation (`bad no-observation`)."""
    import types
    from vlib import flow
    orig = flow.judge_cases
    this = types.SimpleNamespace(**{k: v for k, v in globals().items() if k != "check"})

    def judge_cases(model_exe, mode, cases, harness_exe=None, stall=30.0):
        res = orig(model_exe, mode, cases, harness_exe, stall)
        glitch = [c for c, o, v in res if not o.startswith("(multi")]
        if glitch:
            again = {c["id"]: (c, o, v) for c, o, v in orig(model_exe, mode, glitch, harness_exe, stall)}
            res = [again.get(c["id"], (c, o, v)) for c, o, v in res]
        return res

    flow.judge_cases = judge_cases
    try:
        return flow.standard_check(this, tier, seed, replay)
    finally:
        flow.judge_cases = orig


def pregen():
    """regenerate coq/theories/Gen/DispatchArms.v from the current Rust source (see translators/dispatch_arms.py)"""
    import importlib, os, sys
    from vlib import core
    sys.path.insert(0, os.path.join(core.ROOT, "translators"))
    st = dict(dispatch_arms=importlib.import_module("dispatch_arms").regenerate())
    # the allocations of the result buffers (translators/alloc_arms.py -> Gen/AllocArms.v, Proofs/AllocArmsP.v)
    st.update(importlib.import_module("armlib").pregen(PROP, [("alloc_arms", "theories/Proofs/AllocArmsP.vo")]))
    return st


# ---- literal pools --------------------------------------------------------
def irange(k):
    w = int(k[1:])
    return (0, (1 << w) - 1) if k[0] == "u" else (-(1 << (w - 1)), (1 << (w - 1)) - 1)


def pool(k, rng, op=None):
    """a list of literal texts of kind k; boundary values first"""
    if k in INTS:
        lo, hi = irange(k)
        w = int(k[1:])
        c = [0, 1, 2, 3, 5, 7, 10, hi, lo, 1 << (w // 2), (1 << (w // 2)) - 1, 1 << (w - 2)]
        if hi < 2 ** 53:
            c += [hi - 1, hi // 2, hi // 3]
        if lo < 0:
            c += [-1, -2, -7, -(1 << (w // 2))]
            if -lo < 2 ** 53:
                c += [lo + 1]
        for _ in range(6):
            c.append(rng.randint(max(lo, -(2 ** 53) + 1), min(hi, 2 ** 53 - 1)))
            c.append(rng.randint(max(lo, -20), min(hi, 20)))
        if op == "pow":
            c += [0, 1, 2, 3, 4, 5, 6, 7, 8] * 2
        return [str(v) for v in c if lo <= v <= hi]
    if k in FLOATS:
        c = ["0.0", "-0.0", "1.0", "-1.0", "0.5", "0.1", "0.2", "0.3", "2.0", "3.0", "1.5", "-2.75", "1024.0", "7.0", "-7.0",
             "0.3333333333333333", "9007199254740992.0", "9007199254740993.0", "16777216.0", "16777217.0",
             "1" + "0" * 38 + ".0", "3" + "0" * 38 + ".0", "0." + "0" * 44 + "1", "0." + "0" * 38 + "1",
             "17976931348623157" + "0" * 292 + ".0", "0." + "0" * 310 + "5", "-1" + "0" * 300 + ".0", "4.35", "100.0"]
        for _ in range(10):
            c.append("%d.%d" % (rng.randint(-3000, 3000), rng.randint(0, 9999)))
        return c
    if k == "r64":
        c = ["0/1", "1/1", "-1/1", "1/2", "1/3", "-1/3", "2/4", "7/1", "-7/2", "22/7", "1/4294967296", "4294967296/1",
             "3037000500/1", "-3037000500/7", "9223372036854775807/1", "1/9223372036854775807", "-9223372036854775807/1",
             "6/4", "1000000007/998244353"]
        for _ in range(8):
            c.append("%d/%d" % (rng.randint(-50, 50), rng.randint(1, 30)))
        return c
    if k == "c64":
        c = ["0+0i", "1+0i", "0+1i", "1+2i", "3-4i", "-1.5-0.5i", "-1+2i", "0.5+0.25i", "2+0i", "100-7i"]
        for _ in range(4):
            c.append("%d%+di" % (rng.randint(-9, 9), rng.randint(-9, 9)))
        return c
    if k == "bool":
        return ["true", "false"]
    if k == "string":
        return ['"a"', '"b"', '"xy"', '""', '"hello"', '"Z9"', '"a"']
    raise ValueError(k)


def typed(k):
    return k in INTS or k == "f32"


def def_scalar(name, k, lit):
    return "%s<%s> := %s" % (name, k, lit) if typed(k) else "%s := %s" % (name, lit)


def def_operand(name, k, shape, lits):
    """shape: 's' or (r, c); lits column-major"""
    if shape == "s":
        return def_scalar(name, k, lits[0])
    r, c = shape
    rows = "; ".join(" ".join(lits[j * r + i] for j in range(c)) for i in range(r))
    if typed(k):
        return "%s<[%s]:%d,%d> := [%s]" % (name, k, r, c, rows)
    return "%s := [%s]" % (name, rows)


def form(shape):
    if shape == "s": return "S"
    r, c = shape
    if r == 1 and c == 1: return "DM"
    if r == 1: return "RD"
    if c == 1: return "VD"
    return "DM"


def shape_sx(shape):
    return "s" if shape == "s" else [shape[0], shape[1]]


def nelem(shape):
    return 1 if shape == "s" else shape[0] * shape[1]


def bshape(sa, sb):
    if sa == "s": return sb
    if sb == "s": return sa
    if sa == sb: return sa
    (r1, c1), (r2, c2) = sa, sb
    if r1 >= 2 and c1 >= 2 and ((r2 == r1 and c2 == 1) or (r2 == 1 and c2 == c1)): return sa
    if r2 >= 2 and c2 >= 2 and ((r1 == r2 and c1 == 1) or (r1 == 1 and c1 == c2)): return sb
    return None


def bidx(shape, i, j):
    """linear column-major index of the element of an operand that meets cell (i,j) of the broadcast"""
    if shape == "s": return 0
    r, c = shape
    ii = 0 if r == 1 else i
    jj = 0 if c == 1 else j
    return jj * r + ii


# ---- shape classes ---------------------------------------------------------
DIMS = [2, 3, 4, 5, 7]
DIM_WEIGHTS = {"quick": [5, 5, 4, 2, 1], "thorough": [1, 1, 1, 1, 1]}   # parsing a 7x7 literal costs ~10 scalar evaluations
_tier = ["quick"]


def pick_dims(rng, k=2):
    w = DIM_WEIGHTS[_tier[0]]
    out = []
    while len(out) < k:
        d = rng.choices(DIMS, weights=w)[0]
        if d not in out:
            out.append(d)
    return out
CLASSES = ["S", "M11", "R", "C", "Q", "T"]
COMPAT = ([("S", c) for c in CLASSES] + [(c, "S") for c in CLASSES if c != "S"] +
          [(c, c) for c in CLASSES if c != "S"] +
          [("Q", "R"), ("Q", "C"), ("T", "R"), ("T", "C"), ("R", "Q"), ("C", "Q"), ("R", "T"), ("C", "T")])
assert len(COMPAT) == 24


def inst(cls, n, m):
    return {"S": "s", "M11": (1, 1), "R": (1, n), "C": (n, 1), "Q": (n, n), "T": (m, n)}[cls]


def compat_shapes(ca, cb, rng, dims=None):
    n, m = dims if dims else pick_dims(rng)
    sa = inst(ca, n, m)
    # vectors matching a T = m x n matrix: row 1 x n, column m x 1
    def vec(cls, other):
        if other == "T":
            return (1, n) if cls == "R" else (m, 1)
        return inst(cls, n, m)
    if ca in ("R", "C") and cb in ("Q", "T"):
        sa = vec(ca, cb)
        sb = inst(cb, n, m)
    elif cb in ("R", "C") and ca in ("Q", "T"):
        sb = vec(cb, ca)
    else:
        sb = inst(cb, n, m)
    assert bshape(sa, sb) is not None, (ca, cb, sa, sb)
    return sa, sb


def incompat_shapes(rng):
    """a pair of shapes the operators must reject, with a label"""
    n, m, p = pick_dims(rng, 3)
    choices = [
        ("M11-R", (1, 1), (1, n)), ("M11-C", (1, 1), (n, 1)), ("M11-Q", (1, 1), (n, n)), ("M11-T", (1, 1), (m, n)),
        ("R-M11", (1, n), (1, 1)), ("C-M11", (n, 1), (1, 1)), ("Q-M11", (n, n), (1, 1)), ("T-M11", (m, n), (1, 1)),
        ("R-C", (1, n), (n, 1)), ("C-R", (n, 1), (1, n)), ("R-C'", (1, n), (m, 1)),
        ("R-R'", (1, n), (1, m)), ("R'-R", (1, max(n, m)), (1, min(n, m))), ("R-R''", (1, min(n, m)), (1, max(n, m))),
        ("C-C'", (n, 1), (m, 1)), ("C'-C", (max(n, m), 1), (min(n, m), 1)), ("C-C''", (min(n, m), 1), (max(n, m), 1)),
        ("Q-Q'", (n, n), (m, m)), ("Q'-Q", (max(n, m),) * 2, (min(n, m),) * 2), ("Q-Q''", (min(n, m),) * 2, (max(n, m),) * 2),
        ("T-Tt", (m, n), (n, m)), ("T-T'", (m, n), (m, p)), ("T-T''", (m, n), (p, n)),
        ("Q-T", (n, n), (m, n)), ("T-Q", (m, n), (n, n)),
        ("Q-R'", (n, n), (1, m)), ("Q-C'", (n, n), (m, 1)), ("T-Rm", (m, n), (1, m)), ("T-Cn", (m, n), (n, 1)),
        ("R'-Q", (1, m), (n, n)), ("C'-Q", (m, 1), (n, n)), ("Rm-T", (1, m), (m, n)), ("Cn-T", (n, 1), (m, n)),
    ]
    lab, sa, sb = rng.choice(choices)
    assert bshape(sa, sb) is None, (lab, sa, sb)
    return lab, sa, sb


# ---- case construction ------------------------------------------------------
def choose_lits(k, op, shape, npool, rng, boundary_p):
    pl = pool(k, rng, op)
    nb = min(len(pl), 16)
    picks = []
    while len(picks) < npool:
        v = rng.choice(pl[:nb]) if rng.random() < boundary_p else rng.choice(pl)
        if v not in picks or len(set(pl)) <= len(picks):
            picks.append(v)
    n = nelem(shape)
    lits = [picks[i % len(picks)] for i in range(n)]
    rng.shuffle(lits)
    return lits


def lit_int(l):
    v = int(l)
    if abs(v) >= 2 ** 53:          # integer literals go through f64 (C13); typed definitions saturate
        v = int(float(v))
    return v


def defined_exactly(op, k, la, lb):
    """does `la op lb` have an exact result representable in kind k (python's view; only used to steer the
    generator away from producing mostly overflow cases — the decision is the Coq judge's)"""
    try:
        if k in INTS:
            lo, hi = irange(k)
            a, b = max(lo, min(hi, lit_int(la))), max(lo, min(hi, lit_int(lb)))
            if op == "add": r = a + b
            elif op == "sub": r = a - b
            elif op == "mul": r = a * b
            elif op == "neg": r = -a
            elif op == "div":
                if b == 0: return False
                r = abs(a) // abs(b)
            elif op == "mod":
                return b != 0
            elif op == "pow":
                if b > 200 and abs(a) > 1: return False
                r = a ** b
            else:
                return True
            return lo <= r <= hi
        if k == "r64":
            from fractions import Fraction
            a, b = Fraction(la), Fraction(lb)
            if op == "add": r = a + b
            elif op == "sub": r = a - b
            elif op == "mul": r = a * b
            elif op == "neg": r = -a
            elif op == "div":
                if b == 0: return False
                r = a / b
            else:
                return True
            return abs(r.numerator) < 2 ** 63 and r.denominator < 2 ** 63
    except Exception:
        return True
    return True


def make_case(op, sym, k, sa, sb, rng, stream, label, budget=4, unary=False, boundary_p=0.5, prelude=None, litsA=None, litsB=None,
              p_undefined=0.12):
    na, nb = nelem(sa), nelem(sb)
    if unary:
        sb, nb = "s", 1
    bs0 = bshape(sa, sb)
    if litsA is None:
        want_undefined = rng.random() < p_undefined
        bp = boundary_p
        for attempt in range(25):
            pa = rng.choice([1, 2, 2, 3]) if na > 1 else 1
            pb = rng.choice([1, 2, 2, 3]) if nb > 1 else 1
            while pa * pb > budget:
                if pa >= pb: pa -= 1
                else: pb -= 1
            litsA = choose_lits(k, op, sa, pa, rng, bp)
            litsB = [litsA[0]] if unary else choose_lits(k, None if op != "pow" else op, sb, pb, rng, bp)
            if want_undefined or not (k in INTS or k == "r64"):
                break
            if bs0 is not None:
                R, C = (1, 1) if bs0 == "s" else bs0
                prs = {(litsA[bidx(sa, i, j)], litsB[bidx(sb, i, j)]) for j in range(C) for i in range(R)}
            else:
                prs = {(litsA[i], litsB[i]) for i in range(min(na, nb))}
            if all(defined_exactly(op, k, x, y) for x, y in prs):
                break
            bp *= 0.7
    if unary:
        sb, litsB = "s", [litsA[0]]
    defs = ([prelude] if prelude else []) + [def_operand("a", k, sa, litsA), def_operand("b", k, sb, litsB)]
    defs = "\n".join(defs)
    expr = (sym + "a") if unary else ("a %s b" % sym)
    # the operator kernels have separate arms for operands that are variable references and for plain values: for the
    # kinds whose literals need no annotation one operand of the result expression is written inline in 30% of the cases
    inline = None
    if not typed(k) and not prelude and rng.random() < 0.3:
        def text(shape, lits):
            t = def_operand("q", k, shape, lits).split(" := ", 1)[1]
            return "(%s)" % t if shape == "s" and (t.startswith("-") or k in ("c64", "r64")) else t
        if unary:
            inline, expr = "a", sym + text(sa, litsA)
        elif rng.random() < 0.5:
            inline, expr = "a", "%s %s b" % (text(sa, litsA), sym)
        else:
            inline, expr = "b", "a %s %s" % (sym, text(sb, litsB))
    if inline is None and not prelude and rng.random() < 0.08:
        # one operand is a name bound by a match arm (a local environment), shadowing a global `w` that holds the OTHER
        # operand's value: operators must resolve operand names through the local bindings first
        if unary:
            defs += "\n" + def_operand("w", k, sa, [litsA[-1]] * na)
            inline, expr = "arm-a", "a? | w => %sw | * => %sa." % (sym, sym)
        elif rng.random() < 0.5:
            defs += "\n" + def_operand("w", k, sb, litsB)
            inline, expr = "arm-a", "a? | w => w %s b | * => a %s b." % (sym, sym)
        else:
            defs += "\n" + def_operand("w", k, sa, litsA)
            inline, expr = "arm-b", "b? | w => a %s w | * => a %s b." % (sym, sym)
    # needed scalar pairs
    bs = bshape(sa, sb)
    pairs, seen = [], {}
    cells = []
    if bs is not None:
        R, C = (1, 1) if bs == "s" else bs
        cells = [(bidx(sa, i, j), bidx(sb, i, j)) for j in range(C) for i in range(R)]
    else:
        # the linear pairs a defective same-form kernel would combine (so that the judge can recognise
        # the known wrong value exactly)
        cells = [(i, i) for i in range(min(na, nb))]
    for ia, ib in cells:
        key = (litsA[ia], litsB[ib])
        if key not in seen:
            seen[key] = (ia, ib)
            pairs.append((ia, ib))
    srcs = [defs + "\n(a, b)", defs + "\n" + expr]
    for ia, ib in pairs:
        if prelude:
            o = prelude + "\n" + ((sym + litsA[ia]) if unary else "%s %s %s" % (litsA[ia], sym, litsB[ib]))
        else:
            o = def_scalar("x", k, litsA[ia]) + "\n" + def_scalar("y", k, litsB[ib]) + "\n" + ((sym + "x") if unary else "x %s y" % sym)
        srcs.append(o)
    case_sx = sx(["ew", op, k, shape_sx(sa), shape_sx(sb), [[ia, ib] for ia, ib in pairs]])
    fa, fb = form(sa), form(sb)
    tags = dict(stream=stream, op=op, kind=k, arm=label, forms="%s-%s" % (fa, fb), kind_forms="%s:%s-%s" % (k, fa, fb),
                accepted="yes" if accepts(op, k) else "no", written=("inline-" + inline if not inline.startswith("arm") else inline) if inline else "variables")
    if op in NONCOMM:
        tags["noncomm"] = "%s:%s:%s" % (KCLASS[k], op, label)
    return dict(sx=case_sx, impl=dict(srcs=srcs), tags=tags)


SPECIAL_PRELUDE = {
    "f64": "zz := 0.0\noo := 1.0\nmo := -1.0\npinf := oo / zz\nninf := mo / zz\nqnan := zz / zz\nnz := -0.0\ne1 := 2.5\ne2 := -3.0\ne3 := 0.1",
    "f32": "zz<f32> := 0.0\noo<f32> := 1.0\nmo<f32> := -1.0\npinf := oo / zz\nninf := mo / zz\nqnan := zz / zz\nnz<f32> := -0.0\ne1<f32> := 2.5\ne2<f32> := -3.0\ne3<f32> := 0.1",
}
SPECIAL_NAMES = ["pinf", "ninf", "qnan", "nz", "zz", "oo", "e1", "e2", "e3"]


def special_case(op, sym, k, ca, cb, rng, unary=False):
    sa, sb = compat_shapes(ca, cb, rng)
    def lits(shape):
        n = nelem(shape)
        picks = rng.sample(SPECIAL_NAMES, 2)
        l = [picks[i % 2] for i in range(n)]
        rng.shuffle(l)
        return l
    la, lb = lits(sa), lits(sb)
    same = (not unary) and sa == sb and rng.random() < 0.25
    if same:
        lb = list(la)       # the SAME variable on both sides (`a == a`): an operand compared with itself, NaN included
    # operands are built from variables: `a := [pinf e1; qnan e2]`
    pre = SPECIAL_PRELUDE[k]
    na = "a := " + (la[0] if sa == "s" else "[" + "; ".join(" ".join(la[j * sa[0] + i] for j in range(sa[1])) for i in range(sa[0])) + "]")
    if unary:
        sb, lb = "s", [la[0]]
    nb = "b := " + (lb[0] if sb == "s" else "[" + "; ".join(" ".join(lb[j * sb[0] + i] for j in range(sb[1])) for i in range(sb[0])) + "]")
    defs = pre + "\n" + na + "\n" + nb
    expr = (sym + "a") if unary else (("a %s a" % sym) if same else ("a %s b" % sym))
    bs = bshape(sa, sb)
    R, C = (1, 1) if bs == "s" else bs
    pairs, seen = [], {}
    for j in range(C):
        for i in range(R):
            ia, ib = bidx(sa, i, j), bidx(sb, i, j)
            key = (la[ia], lb[ib])
            if key not in seen:
                seen[key] = 1
                pairs.append((ia, ib))
    srcs = [defs + "\n(a, b)", defs + "\n" + expr]
    for ia, ib in pairs:
        srcs.append(pre + "\n" + ((sym + la[ia]) if unary else "%s %s %s" % (la[ia], sym, lb[ib])))
    fa, fb = form(sa), form(sb)
    tags = dict(stream="special-floats", op=op, kind=k, arm="%s-%s" % (ca, cb), forms="%s-%s" % (fa, fb),
                kind_forms="%s:%s-%s" % (k, fa, fb), accepted="yes")
    return dict(sx=sx(["ew", op, k, shape_sx(sa), shape_sx(sb), [[ia, ib] for ia, ib in pairs]]), impl=dict(srcs=srcs), tags=tags)


def generate(tier, rng):
    quick = tier == "quick"
    _tier[0] = "quick" if quick else "thorough"
    per = 8 if quick else 24
    reps = 1 if quick else 3
    budget = 4 if quick else 6
    cov_kf = set()
    cov_nc = set()
    out = []

    def emit(c):
        cov_kf.add(c["tags"]["kind_forms"])
        if "noncomm" in c["tags"] and c["tags"]["stream"] == "compatible":
            cov_nc.add(c["tags"]["noncomm"])
        out.append(c)

    # 1. compatible class pairs, rotated over (op, kind)
    for oi, (op, sym) in enumerate(BINOPS):
        for ki, k in enumerate(KINDS):
            if not accepts(op, k):
                continue
            small = KCLASS[k] in ("float", "rational", "complex", "bool", "string")
            n_arms = 24 if (not quick or (small and op in NONCOMM)) else per
            start = (oi * 5 + ki * 8) % 24
            for t in range(n_arms):
                ca, cb = COMPAT[(start + t) % 24]
                for _ in range(reps):
                    sa, sb = compat_shapes(ca, cb, rng)
                    emit(make_case(op, sym, k, sa, sb, rng, "compatible", "%s-%s" % (ca, cb), budget=budget))
    # 1b. top up: every (kind class, non-commutative op, class pair); every (kind, lhs form, rhs form)
    for op, sym in BINOPS:
        if op not in NONCOMM:
            continue
        for kc in ["unsigned", "signed", "float", "rational", "complex"]:
            ks = [k for k in KINDS if KCLASS[k] == kc and accepts(op, k)]
            if not ks:
                continue
            for ca, cb in COMPAT:
                if "%s:%s:%s-%s" % (kc, op, ca, cb) not in cov_nc:
                    k = rng.choice(ks)
                    sa, sb = compat_shapes(ca, cb, rng)
                    emit(make_case(op, sym, k, sa, sb, rng, "compatible", "%s-%s" % (ca, cb), budget=budget))
    for k in KINDS:
        ops = [(op, sym) for op, sym in BINOPS if accepts(op, k)]
        for ca, cb in COMPAT:
            sa, sb = compat_shapes(ca, cb, rng)
            if "%s:%s-%s" % (k, form(sa), form(sb)) not in cov_kf:
                op, sym = rng.choice(ops)
                emit(make_case(op, sym, k, sa, sb, rng, "compatible", "%s-%s" % (ca, cb), budget=budget))
    # 2. unary operators on every class
    for op, sym in UNOPS:
        for k in KINDS:
            if not accepts(op, k):
                continue
            for ca in CLASSES:
                for _ in range(reps):
                    n, m = pick_dims(rng)
                    emit(make_case(op, sym, k, inst(ca, n, m), "s", rng, "unary", ca, unary=True, budget=budget))
    # 3. incompatible shapes: must be errors
    ninc = 2 if quick else 10
    for op, sym in BINOPS:
        for k in KINDS:
            if not accepts(op, k):
                continue
            for _ in range(ninc):
                lab, sa, sb = incompat_shapes(rng)
                emit(make_case(op, sym, k, sa, sb, rng, "incompatible", lab, budget=8, boundary_p=0.2))
    # 3b. `&&` / `||` with a longer lhs whose extra elements decide the result alone (Rust short-circuit: the rhs is
    #     not read beyond its end, so the index-loop kernel does not panic) — and the same with one undecided element
    for op, sym, dec in (("and", "&&", "false"), ("or", "||", "true")):
        other = "true" if dec == "false" else "false"
        for shp in ([(1, None), (None, 1)] if quick else [(1, None), (None, 1)] * 4):
            n, m = sorted(pick_dims(rng))
            sa = (1, m) if shp[0] == 1 else (m, 1)
            sb = (1, n) if shp[0] == 1 else (n, 1)
            head = [rng.choice(["true", "false"]) for _ in range(n)]
            lb = [rng.choice(["true", "false"]) for _ in range(n)]
            emit(make_case(op, sym, "bool", sa, sb, rng, "incompatible", "short-circuit", litsA=head + [dec] * (m - n), litsB=lb))
            emit(make_case(op, sym, "bool", sa, sb, rng, "incompatible", "short-circuit-miss", litsA=head + [dec] * (m - n - 1) + [other], litsB=lb))
    # 4. kinds without an arm: scalar and matrix forms must both be rejected
    for op, sym in BINOPS + UNOPS:
        un = op in ("neg", "not")
        for k in KINDS:
            if accepts(op, k):
                continue
            for ca, cb in ([("S", "S"), (rng.choice(["Q", "T", "R", "C", "M11"]),) * 2] if quick else COMPAT[:12]):
                sa, sb = compat_shapes(ca, cb, rng)
                emit(make_case(op, sym, k, sa, sb, rng, "no-arm", "%s-%s" % (ca, cb), unary=un, budget=2))
    # 5. inf / NaN / -0 (built by arithmetic), floats only
    nsp = 4 if quick else 24
    for k in FLOATS:
        for op, sym in BINOPS:
            if not accepts(op, k):
                continue
            # the order comparisons are where NaN matters (an ordered comparison with NaN is false, so a kernel that
            # computes `a <= b` as `!(a > b)` is wrong exactly there): every broadcast class pair gets special values
            pairs = list(COMPAT) if op in ("lt", "le", "gt", "ge", "eq", "ne") else [rng.choice(COMPAT) for _ in range(nsp)]
            for ca, cb in pairs:
                emit(special_case(op, sym, k, ca, cb, rng))
        for _ in range(nsp):
            emit(special_case("neg", "-", k, rng.choice(CLASSES), "S", rng, unary=True))
    # 6. near-equal operands for the order and equality comparisons: unequal values whose images under a narrower
    #    representation coincide (rationals that round to the same double, adjacent doubles / floats): a comparison
    #    routed through an approximation is wrong exactly there
    for k, clusters in NEAR.items():
        for op, sym in BINOPS:
            if op not in ("lt", "le", "gt", "ge", "eq", "ne") or not accepts(op, k):
                continue
            pairs = rng.sample(COMPAT, 5) + [("S", "S")] if quick else list(COMPAT)
            for ca, cb in pairs:
                sa, sb = compat_shapes(ca, cb, rng)
                cl = rng.choice(clusters)
                la = [rng.choice(cl) for _ in range(nelem(sa))]
                lb = [rng.choice(cl) for _ in range(nelem(sb))]
                emit(make_case(op, sym, k, sa, sb, rng, "near-equal", "%s-%s" % (ca, cb), litsA=la, litsB=lb))
    for c in out:
        yield c


NEAR = {
    "r64": [["1/3", "6004799503160661/18014398509481984", "3333333333333333/10000000000000000"],
            ["9223372036854775807/1", "9223372036854775806/1", "9223372036854775805/1"],
            ["-9223372036854775807/1", "-9223372036854775806/1"],
            ["9007199254740993/1", "9007199254740992/1", "9007199254740991/1"],
            ["-1/3", "-6004799503160661/18014398509481984"]],
    "f64": [["1.0", "1.0000000000000002", "0.9999999999999999"], ["0.1", "0.10000000000000002"],
            ["-4503599627370496.5", "-4503599627370496.0", "-4503599627370497.0"]],
    "f32": [["1.0", "1.0000001", "0.99999994"], ["16777216.0", "16777218.0", "16777214.0"]],
}


def shrink(case):
    """smaller instances of the same (operator, kind, class pair): minimal dimensions, few distinct literals.
    (A case is a rendered program, so candidates are re-generated rather than cut down.)"""
    import random, zlib
    t = case.get("tags") or {}
    if t.get("stream") not in ("compatible", "unary", "no-arm") or "-" not in t.get("arm", "-") and t.get("stream") != "unary":
        return []
    rng = random.Random(zlib.crc32(case["sx"].encode()))
    op, k = t["op"], t["kind"]
    sym = dict(BINOPS + UNOPS)[op]
    un = op in ("neg", "not")
    out = []
    cur = len(case["impl"]["srcs"][0])
    for dims in [(2, 3), (3, 2)]:
        for budget in (1, 2, 4):
            for _ in range(4):
                if t["stream"] == "unary" or un:
                    ca = t["arm"].split("-")[0]
                    sa, sb = inst(ca, dims[0], dims[1]), "s"
                else:
                    ca, cb = t["arm"].split("-")
                    sa, sb = compat_shapes(ca, cb, rng, dims)
                c = make_case(op, sym, k, sa, sb, rng, t["stream"], t["arm"], budget=budget, unary=un, boundary_p=0.3)
                if len(c["impl"]["srcs"][0]) < cur:
                    out.append(c)
    return out
