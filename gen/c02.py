"""C02 — precedence and left associativity of formulas: generator of formula texts.

The plugin only invents *formulas* (as S-expressions of the concrete syntax of Model/Formula.v).  The three
source texts sent to the implementation for each formula

    e            the formula as written,
    p_1 .. p_m   e with the parentheses implied by the MODEL's tree of e inserted (m = 1: every parenthesis;
                 m > 1: band k inserts those at tree depth = k mod m, because the implementation's parser is
                 exponential in the nesting depth of parentheses and cannot take a deep full parenthesisation),
    alt(e)       a different grouping (only used to report whether grouping matters on this case),

are rendered by the extracted Coq model itself (`(render f)` requests), so no precedence rule that matters for
a verdict lives in Python.  The small `group()` below is used only to choose operand *types* that make a
formula well typed under the documented grouping (input quality, never a verdict).
"""
import itertools, os, re, sys
from vlib import core
from vlib.core import sx

PROP = "C02"
MODE = "multi"
RULE = ("formulas over one representative per binary operator (+ - * / % ^ == != < <= > >= && || xor, and ** in the "
        "matrix flavour) with unary -, ! and postfix transpose as operand decorations: ALL operator sequences of 1 and 2 "
        "operators and (quick: a sample of >= 1600, thorough: all 3375, two operand draws each) of 3 operators, operands "
        "typed so that the formula is well typed under the documented grouping whenever some typing exists (pool: "
        "distinct primes, 0, 1, negatives, booleans; 2x2 non-symmetric matrices in the matrix flavour); typed and untyped "
        "random chains of 4..12 operators; nested formulas with explicit parentheses in non-default positions (depth <= 3). "
        "Each case: e vs its full parenthesisation by the model (must be indistinguishable; where the exact integer/boolean "
        "model evaluates, both must equal the model value) and an alternative grouping (tag: does grouping matter here). "
        "non-trivial = distinct case with a value verdict whose alternative grouping is observably different")
ASSUMPTIONS = [
    "operands are literals (f64 decimal integers, booleans, 2x2 matrix literals): the value of an operand does not depend on "
    "evaluation order, so only grouping is observed",
    "binary operators are written with one space on each side, prefix operators directly before their operand",
    "xor is written U+2295; the ASCII spelling ^^ of the source does not parse after an operand (reported separately)",
    "error kinds/messages are not compared (both sides must fail, or both succeed with the same value; all NaNs identified)",
    "table and set operators (levels l6, l7) are covered by the theorems and the translator tie, not by generated programs",
]
STALL = 240.0   # seconds without output before a harness process counts as hung (the parser is slow on nested parentheses)
TRIVIAL_TAGS = ["error", "value-same", "value-single", "agree-same", "agree-single"]

ARITH = ["add", "subtract", "multiply", "divide", "modulus", "power"]
ORDER = ["less_than", "less_than_equal", "greater_than", "greater_than_equal"]
EQ = ["equal_to", "not_equal"]
LOGIC = ["and", "or", "xor"]
OPS15 = ARITH + EQ + ORDER + LOGIC
OPS16 = OPS15 + ["matrix_multiply"]
# only for choosing operand types (see module docstring)
RANK = {}
for o in LOGIC: RANK[o] = 1
for o in EQ + ORDER: RANK[o] = 2
for o in ("add", "subtract"): RANK[o] = 3
for o in ("multiply", "divide", "modulus", "matrix_multiply"): RANK[o] = 4
RANK["power"] = 5

NUMS = [2, 3, 5, 7, 2, 3, 5, 7, 0, 1, 4, 6, 11, 12]
# matrix operands are variables bound by a prelude (a matrix literal inside parentheses is very slow to parse)
MATS = {"ma": "[1 2; 3 4]", "mb": "[2 0; 1 3]", "mc": "[0 1; 5 2]", "md": "[3 1; 4 1]", "me": "[1 1; 0 2]", "mf": "[2 5; 7 3]"}
BMATS = {"ba": "[true false; false false]", "bb": "[true true; false true]", "bc": "[false true; true true]",
         "bd": "[false false; true false]"}
# scalar variables whose values make floating-point addition and multiplication visibly NON-associative: a chain of
# equal-precedence operators over them has a different value under another grouping even when every operator is `+`
SENS = {"sa": "0.1", "sb": "0.2", "sc": "0.3", "sd": "1e16", "se": "-1e16", "sf": "1", "sg": "0.7", "sh": "1e-16", "si": "3", "sj": "1e308", "sk": "2", "sl": "0.5", "sm": "1.5"}
VARS = dict(MATS); VARS.update(BMATS); VARS.update(SENS)


# ---------------------------------------------------------------- formulas as python data
# operand: ("a", [pre], atom, tr) | ("p", [pre], formula, tr) ; formula: [operand, op, operand, ...]
def atom_sx(a):
    if a[0] == "var":
        return ["var", a[1]]
    return [a[0], int(a[1])]


def vars_of(f):
    vs = set()
    for o in f[::2]:
        if o[0] == "p":
            vs |= vars_of(o[2])
        elif o[2][0] == "var":
            vs.add(o[2][1])
    return vs


def operand_sx(o):
    kind, pre, body, tr = o
    return [kind, list(pre), atom_sx(body) if kind == "a" else formula_sx(body), 1 if tr else 0]


def formula_sx(f):
    return ["f"] + [operand_sx(x) if i % 2 == 0 else x for i, x in enumerate(f)]


def from_sx(p):
    """inverse of formula_sx on the output of core.parse_sx"""
    def opd(x):
        kind, pre, body, tr = x
        if kind == "a":
            a = (body[0], body[1])
            return ("a", list(pre), a, bool(tr))
        return ("p", list(pre), from_sx(body), bool(tr))
    return [opd(x) if i % 2 == 0 else x for i, x in enumerate(p[1:])]


def unq(t):
    """decode a quoted S-expression string (as printed by Base/Sexp.v show) to text"""
    assert t[0] == '"' and t[-1] == '"'
    b = bytearray(); i = 1
    while i < len(t) - 1:
        c = t[i]
        if c == "\\":
            n = t[i + 1]
            if n == "x":
                b.append(int(t[i + 2:i + 4], 16)); i += 4; continue
            b.append({"n": 10, "r": 13, "t": 9}.get(n, ord(n))); i += 2; continue
        b += c.encode("utf-8"); i += 1
    return b.decode("utf-8")


def model_exe():
    exe = os.path.join(core.COQ, "ocaml", PROP, "mechmodel")
    if not os.path.exists(exe):
        exe, log = core.build_model(PROP)
        if exe is None:
            raise RuntimeError("model does not build: " + log[-500:])
    return exe


def make_cases(items):
    """items: list of (formula, tags) -> list of case dicts (texts rendered by the Coq model)"""
    fs = [sx(formula_sx(f)) for f, _ in items]
    outs = core.run_model(model_exe(), ["(render %s)" % s for s in fs])
    cases = []
    for (f, tags), s, o in zip(items, fs, outs):
        p = core.parse_sx(o)
        if not (isinstance(p, list) and len(p) >= 4 and p[0] == "texts"):
            raise RuntimeError("model cannot render %s: %r" % (s, o))
        prelude = "".join("%s := %s\n" % (v, VARS[v]) for v in sorted(vars_of(f)))
        texts = [prelude + unq(t) for t in p[1:]]
        cases.append(dict(sx="(c02 %s)" % s, impl=dict(srcs=texts), tags=tags, src=texts[0]))
    return cases


# ---------------------------------------------------------------- typing (input quality only)
def group(ops, lo=0, hi=None):
    """tree over operand indices lo..hi for the operator list `ops` (ops[i] sits between operands i and i+1)"""
    hi = len(ops) if hi is None else hi
    if lo == hi:
        return lo
    m = min(RANK[ops[i]] for i in range(lo, hi))
    k = max(i for i in range(lo, hi) if RANK[ops[i]] == m)
    return (ops[k], group(ops, lo, k), group(ops, k + 1, hi))


def result_type(t):
    if isinstance(t, int):
        return None
    return "num" if t[0] in ARITH or t[0] == "matrix_multiply" else "bool"


def assign(t, want, types, rng):
    """fill types[leaf] ; returns True iff the tree is well typed with result `want`"""
    if isinstance(t, int):
        types[t] = want
        return True
    op, l, r = t
    ok = result_type(t) == want
    if op in ARITH or op in ORDER or op == "matrix_multiply":
        child = "num"
    elif op in LOGIC:
        child = "bool"
    else:
        rl, rr = result_type(l), result_type(r)
        if rl is None and rr is None:
            child = "num" if rng.random() < 0.7 else "bool"
        else:
            child = rl or rr
    a = assign(l, child, types, rng)
    b = assign(r, child, types, rng)
    return ok and a and b


def num_atom(rng, flavour):
    if flavour == "matrix" or (flavour == "mixed" and rng.random() < 0.6):
        return ("var", rng.choice(sorted(MATS)))
    return ("num", rng.choice(NUMS))


def bool_atom(rng, flavour):
    if flavour in ("matrix", "mixed"):
        return ("var", rng.choice(sorted(BMATS))), True
    return ("bool", rng.randrange(2)), False


def operand(ty, rng, flavour, unary_p=0.25):
    pre, tr = [], False
    if ty == "num":
        a = num_atom(rng, flavour)
        if rng.random() < unary_p:
            pre = ["neg"]
        if a[0] == "var" and rng.random() < 0.35:
            tr = True
        return ("a", pre, a, tr)
    a, ismat = bool_atom(rng, flavour)
    if ismat:
        pre = ["not"] if rng.random() < unary_p else []
        return ("a", pre, a, rng.random() < 0.3)
    if rng.random() < unary_p:
        pre = ["not"] * (1 if rng.random() < 0.8 else 2)
    return ("a", pre, a, False)


def typed_sequence(ops, rng, flavour, unary_p=0.25):
    """operands for the operator sequence, typed for the documented grouping; returns (formula, welltyped)"""
    t = group(ops)
    types = {}
    want = result_type(t) or "num"
    ok = assign(t, want, types, rng)
    f = []
    for i in range(len(ops) + 1):
        f.append(operand(types[i], rng, flavour, unary_p))
        if i < len(ops):
            f.append(ops[i])
    return f, ok


# ---------------------------------------------------------------- structured (well typed by construction)
def arith_ops(rng, flavour):
    ops = ["add", "subtract", "multiply", "divide", "modulus", "power", "subtract", "multiply", "add"]
    if flavour == "matrix":
        ops = ops + ["matrix_multiply", "matrix_multiply"]
    return ops


def gen_formula(ty, nops, depth, rng, flavour):
    """flat sequence of roughly nops operators whose documented grouping has type ty"""
    if ty == "num":
        f = [gen_operand("num", depth, rng, flavour)]
        for _ in range(nops):
            f += [rng.choice(arith_ops(rng, flavour)), gen_operand("num", depth, rng, flavour)]
        return f
    # bool: items joined by logic operators; an item is a bool operand, A cmp A, or B eq B
    f = []
    remaining = nops
    first = True
    while True:
        if not first:
            f.append(rng.choice(LOGIC)); remaining -= 1
        first = False
        kind = rng.random()
        if remaining >= 1 and kind < 0.55:
            na = rng.randint(0, max(0, min(3, remaining - 1)))
            nb = rng.randint(0, max(0, min(2, remaining - 1 - na)))
            f += gen_formula("num", na, depth, rng, flavour) + [rng.choice(ORDER + EQ)] + gen_formula("num", nb, depth, rng, flavour)
            remaining -= na + nb + 1
        elif remaining >= 1 and kind < 0.7:
            f += [gen_operand("bool", depth, rng, flavour), rng.choice(EQ), gen_operand("bool", depth, rng, flavour)]
            remaining -= 1
        else:
            f.append(gen_operand("bool", depth, rng, flavour))
        if remaining <= 0:
            return f


def gen_operand(ty, depth, rng, flavour):
    if depth > 0 and rng.random() < 0.4:
        inner = gen_formula(ty, rng.randint(1, 2), depth - 1, rng, flavour)
        pre = []
        if rng.random() < 0.2:
            pre = ["neg"] if ty == "num" else ["not"]
        tr = flavour == "matrix" and rng.random() < 0.2
        return ("p", pre, inner, tr)
    return operand(ty, rng, flavour)


def nops_of(f):
    n = len(f) // 2
    for o in f[::2]:
        if o[0] == "p":
            n += nops_of(o[2])
    return n


# ---------------------------------------------------------------- the plugin interface
def pregen():
    sys.path.insert(0, os.path.join(core.ROOT, "translators"))
    import importlib
    levels = importlib.import_module("levels")
    return levels.regenerate()


def generate(tier, rng):
    items = []
    thorough = tier != "quick"
    # 1. every operator sequence of length <= 3 (quick: sample of the 3-operator ones), scalar flavour
    shapes = [list(s) for n in (1, 2) for s in itertools.product(OPS15, repeat=n)]
    three = [list(s) for s in itertools.product(OPS15, repeat=3)]
    if not thorough:
        three = rng.sample(three, 1600)
    shapes += three
    for ops in shapes:
        for draw in range(2 if thorough else 1):
            f, ok = typed_sequence(ops, rng, "scalar", unary_p=0.0 if draw == 0 else 0.3)
            items.append((f, dict(stream="enum", nops=len(ops), typed=int(ok), flavour="scalar")))
    # 2. the same with matrix operands, ** included, transposes and unary operators as decorations
    mshapes = [list(s) for n in (1, 2) for s in itertools.product(OPS16, repeat=n)]
    mthree = [list(s) for s in itertools.product(OPS16, repeat=3)]
    mthree = rng.sample(mthree, 1500 if thorough else 200)
    if not thorough:
        mshapes = [s for s in mshapes if len(s) == 1] + rng.sample([s for s in mshapes if len(s) == 2], 100)
    for ops in mshapes + mthree:
        flavour = "matrix" if rng.random() < 0.8 else "mixed"
        f, ok = typed_sequence(ops, rng, flavour, unary_p=0.3)
        items.append((f, dict(stream="enum-matrix", nops=len(ops), typed=int(ok), flavour=flavour)))
    # 3. chains of 4..12 operators
    for _ in range(3000 if thorough else 240):
        n = rng.randint(4, 12)
        flavour = "scalar" if rng.random() < 0.7 else "matrix"
        r = rng.random()
        if r < 0.7:
            f = gen_formula("bool" if rng.random() < 0.5 else "num", n, 0, rng, flavour)
            tags = dict(stream="chain-typed", typed=1)
        elif r < 0.85:
            ops = [rng.choice(OPS15) for _ in range(n)]
            f, ok = typed_sequence(ops, rng, flavour)
            tags = dict(stream="chain-uniform", typed=int(ok))
        else:
            # arithmetic chains over few small values: exact in the integer model, long
            ops = [rng.choice(["add", "subtract", "multiply", "subtract", "power", "modulus", "divide"]) for _ in range(n)]
            f = []
            for i in range(n + 1):
                f.append(("a", ["neg"] if rng.random() < 0.2 else [], ("num", rng.choice([1, 2, 3, 2, 3, 5])), False))
                if i < n:
                    f.append(ops[i])
            tags = dict(stream="chain-small", typed=1)
        tags.update(nops=len(f) // 2, flavour=flavour)
        items.append((f, tags))
    # 3b. chains of ONE precedence level over rounding-sensitive scalars (the model does not value them: the binding
    #     comparison is that the unparenthesised text and every parenthesised reading of it agree bit for bit)
    for _ in range(1500 if thorough else 160):
        n = rng.randint(2, 6)
        level = rng.choice([["add"], ["add"], ["add", "subtract"], ["multiply"], ["multiply", "divide"], ["subtract"], ["divide"],
                            ["power"], ["power"], ["modulus"], ["multiply", "modulus"]])
        f = []
        for i in range(n + 1):
            f.append(("a", ["neg"] if rng.random() < 0.1 else [], ("var", rng.choice(sorted(SENS))), False))
            if i < n:
                f.append(rng.choice(level))
        items.append((f, dict(stream="chain-sensitive", nops=n, typed=1, flavour="scalar", level="/".join(level))))
    # 4. explicit parentheses in non-default positions
    for _ in range(3000 if thorough else 240):
        flavour = "scalar" if rng.random() < 0.75 else "matrix"
        depth = 1 if rng.random() < 0.6 else 2
        f = gen_formula("bool" if rng.random() < 0.4 else "num", rng.randint(1, 3), depth, rng, flavour)
        if not any(o[0] == "p" for o in f[::2]):
            idx = [i for i in range(0, len(f), 2) if f[i][0] == "a" and (f[i][2][0] == "num" or f[i][2][1] in MATS)]
            if idx:
                i = rng.choice(idx)
                f[i] = ("p", [], gen_formula("num", rng.randint(1, 2), 0, rng, flavour), False)
        items.append((f, dict(stream="paren", nops=nops_of(f), typed=1, flavour=flavour)))
    # 5. a few fixed formulas named in the property discussion
    fixed = [
        [lit(2), "power", lit(3), "power", lit(2)],
        [("a", ["neg"], ("num", 2), False), "power", lit(2)],
        [lit(2), "subtract", lit(3), "subtract", lit(4)],
        [lit(2), "subtract", ("p", [], [lit(3), "subtract", lit(4)], False)],
        [lit(1), "add", lit(2), "multiply", lit(3)],
        [("p", [], [lit(1), "add", lit(2)], False), "multiply", lit(3)],
        [lit(1), "less_than", lit(2), "less_than", lit(3)],
        [lit(1), "less_than", lit(2), "and", lit(3), "less_than", lit(4)],
        [lit(7), "divide", lit(2), "multiply", lit(2)],
        [lit(7), "modulus", lit(4), "modulus", lit(2)],
        [lit(2), "multiply", lit(3), "power", lit(2)],
        [("a", ["not"], ("bool", 1), False), "or", ("a", [], ("bool", 1), False)],
        [lit(1), "add", lit(1), "equal_to", lit(2), "and", ("a", [], ("bool", 1), False)],
    ]
    for f in fixed:
        items.append((f, dict(stream="fixed", nops=nops_of(f), typed=1, flavour="scalar")))
    for c in make_cases(items):
        yield c


def lit(v):
    return ("a", [], ("num", v), False)


def shrink(case):
    p = core.parse_sx(case["sx"])
    try:
        f = from_sx(p[1])
    except Exception:
        return []
    cands = []
    k = len(f) // 2
    # drop one operator together with its right or left operand
    for i in range(k):
        cands.append(f[:2 * i + 1] + f[2 * i + 3:])
        cands.append(f[:2 * i] + f[2 * i + 2:])
    # simplify one operand
    for i in range(k + 1):
        kind, pre, body, tr = f[2 * i]
        if pre:
            cands.append(f[:2 * i] + [(kind, [], body, tr)] + f[2 * i + 1:])
        if tr:
            cands.append(f[:2 * i] + [(kind, pre, body, False)] + f[2 * i + 1:])
        if kind == "p":
            cands.append(f[:2 * i] + [(kind, pre, body[:1], tr)] + f[2 * i + 1:])
            if len(body) >= 3:
                cands.append(f[:2 * i] + [(kind, pre, body[2:], tr)] + f[2 * i + 1:])
                cands.append(f[:2 * i] + [(kind, pre, body[:-2], tr)] + f[2 * i + 1:])
    seen, items = set(), []
    for c in cands:
        s = sx(formula_sx(c))
        if c and s not in seen:
            seen.add(s); items.append((c, dict(case.get("tags") or {}, shrunk=1)))
    try:
        return make_cases(items)
    except Exception:
        return []
