"""C08 — formatting a program does not change what it means.

Two streams of programs (DESIGN.md "### C08"):
  * model   : random syntax trees of the modelled subset (Model/Fmt.v); the case carries the tree, the source is a
              rendering of it with varied (insignificant) whitespace and alternative operator spellings.  The judge
              compares the formatter's text with the model's `fmt` text and checks the round trip on the implementation.
  * diff    : programs over the whole grammar (grammar-based generator + every program / code block / statement found in
              /repo/docs, /repo/examples, /repo/tests, /repo/machines); the case is `(diff)`: only the round trip on the
              implementation is checked (tree2 = tree1 modulo positions, text2 = text1).
Programs that do not parse are skipped by the judge (`adv source-does-not-parse`) and counted.
"""
import os as _os
_REPO_ROOT = _os.environ.get("MECH_REPO", "/repo")   # testing aid (seeded runs); registered commands never set it
import os, re
from vlib.core import sx, q

PROP = "C08"


def _listed():
    """ids of the open C08 findings: the inputs that expose a defect class are generated only once the class is listed
    (an unlisted `kf` verdict is an alarm by design; the class predicates and the judge do not depend on this)"""
    try:
        import json
        from vlib import core as _core
        d = json.load(open(_os.path.join(_core.ROOT, "known-findings.json")))
        return {f["id"] for f in d.get("findings", []) if f.get("property") == "C08" and f.get("status", "open") == "open"}
    except Exception:
        return set()


LISTED = _listed()
ARRWILD = "array-pattern-item-then-wildcard" in LISTED
GUARDASSIGN = "fsm-guard-arrow-reads-as-assignment" in LISTED
MODE = "format"
LEVEL = "proof"
TRIVIAL_TAGS = []
RULE = ("model-fsm stream (third round): random well-formed programs with state machines: specification `#m(in<k>) ⇒ <k> :=` with "
        "1-4 state definitions, implementation `#m(in) -> start` with 1-4 arms (1-3 transitions `->` `=>` `~>` each, or 1-3 "
        "guards each with 1-3 transitions), patterns with expression leaves, tuples, tuple-structs and array patterns with "
        "spread / rest, instance expressions `#m` / `#m(a, k: b)` as statement right-hand sides, matrix / set / tuple elements, "
        "record / map values and call arguments, mixed with statements of the first two rounds; the state machines of "
        "docs/reference/state-machine.mec and tests/interpreter.rs as fixed trees; "
        "model-ext stream (second round): random well-formed programs with map literals, tuple-struct values, table literals (1-3 "
        "rows), comment statements, enum definitions, function definitions with match arms, match expressions with guards over "
        "all pattern forms (wildcard, literal, variable, tuple, enum variant, array with spread / rest), set and matrix "
        "comprehensions (generator, filter, let), mixed with first-round statements; "
        "model stream: random well-formed trees of the modelled subset (literals incl. typed, variables with kinds, all 38 "
        "binary operators on the 7 precedence levels, parentheses, negation/not/transpose, ranges with and without increment, "
        "matrices 0..4 rows incl. jagged, sets, tuples, records, calls with named arguments, slices/subscripts, define/assign/"
        "op-assign with kind annotations, 1-4 statements), source rendered with varied whitespace/separators/operator "
        "spellings; diff stream: grammar-based programs over the whole grammar (enums, kind defines, functions, match, state "
        "machines, comprehensions, tables, maps, tuple-structs, comments, every literal form, Mechdown titles/paragraphs/"
        "lists/fences/callouts/tables) plus every whole file, fenced block, test string and single statement of the seed "
        "corpus (/repo/docs, examples, tests, machines).  non-trivial = distinct program with verdict ok")
ASSUMPTIONS = [
    "MODELLED SUBSET (theorem C08_fmt_parse + comparison (1) formatter text == model text + comparison (2)): number/string/"
    "bool/atom literals (numbers as opaque numeric text, no scientific notation), typed literals, variables with <k> and "
    "<[k]:r,c> kinds, formulas over all 38 binary operators with explicit parentheses, unary - and ¬, transpose, ranges "
    "with/without increment, matrices (0..n rows), sets, tuples (0 or >=2 elements), records, calls with named arguments, "
    "dot and bracket subscripts (entries: `:`, range, formula not beginning with an atom), define/assign/op-assign/"
    "expression statements, one statement per line; SECOND ROUND (Model/Fmt2.v): map literals `{k: v}` / `{:}` (first key not a "
    "bare variable: that is a record), tuple-struct values `:ok(200)`, comment statements `-- text` (letters, digits, blanks "
    "and ,.:;=()' only), enum definitions `<n> := :a<k> | :b`, function definitions with match arms, and as the right-hand "
    "side of a define/assign/op-assign/expression statement only: table literals (kinds mandatory in the header; no "
    "kind-annotated variable as a cell), match expressions `f? ├p, guard ⇒ e └* ⇒ e.` (source a factor) and set/matrix "
    "comprehensions (generator / let / filter qualifiers; a filter is a formula beginning with a variable); patterns: "
    "wildcard, literal, variable, tuple, enum variant `:some(p)`, array `[a b]` `[a … z]` `[h | t]` (array items are "
    "wildcard/literal/variable); THIRD ROUND (Model/Fmt3.v): state-machine specifications (inputs and state variables "
    "`x<k>` / `x`, optional output kind, states with or without variables), implementations (start value; arms = state "
    "pattern + transitions `-> p` `=> p` `~> p`, or state pattern + guards `├ cond -> …`; patterns = wildcard / expression "
    "(formula or range that does not begin with `(` `[` `:name(` and contains no instance) / tuple / tuple-struct / array "
    "with literal-variable-wildcard items; value positions without wildcard and spread/rest), instance expressions "
    "`#m` `#m(a, k: b)` (arguments not themselves instances) in the `expression` positions listed in the RULE",
    "ONLY comparison (2) (differential on the implementation, no model): kind defines, functions with statement bodies, "
    "state-machine comment arms / statement transitions `-> x = 1` / code-block transitions / pipes with transitions "
    "`#m(1) -> :S`, match / tables / comprehensions nested inside expressions, trailing comments, tuple destructuring, "
    "option/set/map/tuple/record/table kinds, "
    "scientific / negative-imaginary literals, strings with escapes, raw strings, swizzles, brace subscripts, all Mechdown prose",
    "the Coq theorems are at token level: blanks/newlines are tokens, the text is the concatenation of token texts "
    "(C08_symbols_unambiguous: distinct symbols have distinct texts); that the real grapheme-level nom parser reads the "
    "canonical text back as these tokens is covered by comparison (2) only (lexical side conditions ident_ok/num_ok/str_ok "
    "are checked by the judge on every modelled case; the known lexical clashes are classes recognised on the tree: "
    "comma-swizzle `x.a,y`, table-row-reads-as-record, map-keys-read-as-record, table-cell-or, array-pattern-item-then-"
    "wildcard `[a * b]`, fsm-guard-arrow-reads-as-assignment `-> a =:= b`)",
    "inputs that expose a defect class are generated only while the class id is listed in known-findings.json (an unlisted "
    "kf verdict is an alarm): array patterns with a wildcard after an item are then written `[a, *, b]`, an output after "
    "`-> target` inside a guard `⇒`; the class predicates and the judge do not depend on the listing",
    "a modelled case is `ok` only if the formatter's text is exactly the canonical text of the model and the implementation "
    "re-parses it to the same tree and re-formats it to the same text; inside a defect class the verdict (kf id) requires "
    "the text to be exactly the text the model of formatter.rs predicts (or the panic it predicts) and a failed round trip; "
    "the canonical text is accepted inside the classes too, so the check stays valid after proposed/C08-1 and C08-2 are applied "
    "(C08-3 changes the canonical tuple/bracket separator: Model/Fmt.v must follow)",
    "tree equality on the implementation = equality of the serde JSON of Program after deleting src_range/error_range/"
    "{start,end} position objects (harness/src/mode_format.rs); paragraph text tokens are compared verbatim, the grammar "
    "keeps no other whitespace tokens in the tree",
    "known-finding classes of diff-stream programs are decided from the features of the implementation's own parse tree "
    "(node/variant tags + structural features printed by the harness); the verdict (kf id) needs one of the class's symptoms "
    "(perr / tree differs / not idempotent / formatter panic); a program with several defective constructs is attributed to "
    "the first class in the order of Model/Fmt.v diff_classes",
    "sources that do not parse (perr), and sources on which the harness had to be killed (hang: pathological backtracking "
    "of the dev-profile parser on the *source*, see C09) are skipped (adv source-does-not-parse)",
]

# ---------------------------------------------------------------------------------------------- modelled subset
OPS = {  # name: (level, canonical text, [source spellings])
    "and": (1, "&&", ["&&", "∧"]), "or": (1, "||", ["||", "∨"]), "xor": (1, "⊻", ["⊻", "⊕"]),
    "eq": (2, "⩵", ["==", "⩵"]), "seq": (2, "=:=", ["=:=", "≡"]), "sneq": (2, "=!=", ["=!=", "=¬="]), "neq": (2, "≠", ["!=", "≠", "¬="]),
    "gt": (2, ">", [">"]), "ge": (2, "≥", [">=", "≥"]), "lt": (2, "<", ["<"]), "le": (2, "≤", ["<=", "≤"]),
    "add": (3, "+", ["+"]), "sub": (3, "-", ["-"]),
    "mul": (4, "*", ["*", "×"]), "div": (4, "/", ["/", "÷"]), "mod": (4, "%", ["%"]), "matmul": (4, "**", ["**"]),
    "solve": (4, "\\", ["\\"]), "dot": (4, "·", ["·", "•"]), "cross": (4, "⨯", ["⨯"]),
    "pow": (5, "^", ["^"]),
    "join": (6, "⋈", ["⋈"]), "ljoin": (6, "⟕", ["⟕"]), "rjoin": (6, "⟖", ["⟖"]), "fjoin": (6, "⟗", ["⟗"]),
    "semijoin": (6, "⋉", ["⋉"]), "antijoin": (6, "▷", ["▷"]),
    "union": (7, "∪", ["∪"]), "inter": (7, "∩", ["∩"]), "diff": (7, "∖", ["∖"]), "compl": (7, "∁", ["∁"]),
    "subset": (7, "⊆", ["⊆"]), "superset": (7, "⊇", ["⊇"]), "psubset": (7, "⊊", ["⊊", "⊂"]), "psuperset": (7, "⊋", ["⊋", "⊃"]),
    "elem": (7, "∈", ["∈"]), "notelem": (7, "∉", ["∉"]), "symdiff": (7, "Δ", ["Δ"]),
}
DEFECT_OPS = {"sneq", "subset", "superset", "cross"}
BY_LEVEL = {}
for _n, (_l, _t, _s) in OPS.items():
    BY_LEVEL.setdefault(_l, []).append(_n)
AOPS = {"add": "+=", "sub": "-=", "mul": "*=", "div": "/=", "exp": "^="}
IDENTS = ["x", "y", "z", "a", "b", "c", "foo", "bar", "m1", "val2", "my-var", "A", "Tbl"]
FUNS = ["f", "g", "math/sin", "stats/sum/row", "combinatorics/n-choose-k", "foo"]
FIELDS = ["a", "b", "x", "y", "name", "k1"]
KINDS = ["u8", "i8", "u64", "i64", "f32", "f64", "string", "bool"]
NUMS = ["0", "1", "2", "7", "42", "100", "3.14", "0.5", "10.25", "0xFF", "0b101", "0o17", "0d19", "1/2", "22/7", "1e3", "1.5e3", "2.5e0.5",
        "5u8", "12u64", "1+2i", "5i", "1.5+2.5i"]
STRS = ["", "a", "hello", "Hello World", "a b  c", "x=1;", "[1 2]", "it's", "ünï", "100%"]
ATOMS = ["a", "red", "ok", "Foo", "my-atom"]
MACHINES = ["Counter", "Door", "bubble-sort", "m1", "Fib", "traffic/light"]
STATES = ["Start", "Count", "Done", "Open", "Closed", "Pass", "s1", "next-state"]
COMMENTS = [" a comment", " note: x = 1, y.", "", "x", "  two  spaces ", " TODO (later)", " it's 100", " A;B"]


class G:
    """random trees; clean=True avoids every construct of a known model-level defect class"""
    def __init__(self, rng, clean=False, jagged_p=0.0, ext=False, fsm=False):
        self.rng = rng; self.clean = clean; self.jagged_p = jagged_p; self.ext = ext; self.fsm = fsm

    def xf(self, d):
        """an `expression` position of the grammar: a state-machine instance is allowed here (fsm stream only)"""
        if self.fsm and self.rng.random() < 0.12: return self.fsm_inst(d)
        return self.expr(d)

    def fsm_inst(self, d):
        r = self.rng
        nm = r.choice(MACHINES)
        if r.random() < 0.12: return ("fsm", nm, None)
        args = []
        for _ in range(r.choice([0, 1, 1, 1, 2, 3])):
            args.append((r.choice(FIELDS) if r.random() < 0.2 else None, self.expr(max(d - 1, 0))))
        return ("fsm", nm, args)

    def kind(self, p=0.3):
        r = self.rng
        if r.random() > p: return None
        if r.random() < 0.7: return ("ks", r.choice(KINDS))
        nd = r.choice([0, 1, 2, 2, 3])
        return ("km", r.choice(KINDS), [str(r.choice([1, 2, 3, 10])) for _ in range(nd)])

    def lit(self):
        r = self.rng; t = r.random()
        k = self.kind(0.15)
        if t < 0.55: return ("lit", "num", r.choice(NUMS), k)
        if t < 0.75: return ("lit", "str", r.choice(STRS), k)
        if t < 0.9: return ("lit", "bool", r.random() < 0.5, k)
        return ("lit", "atom", r.choice(ATOMS), k)

    def var(self): return ("var", self.rng.choice(IDENTS), self.kind(0.1))

    def formula(self, d, k=1):
        """an expression whose level is >= k"""
        r = self.rng
        if d > 0 and k <= 7 and r.random() < 0.55:
            j = r.randint(k, 7)
            ops = [o for o in BY_LEVEL[j] if not (self.clean and o in DEFECT_OPS)]
            n = r.choice([1, 1, 1, 2, 3])
            return ("term", self.formula(d - 1, j + 1), [(r.choice(ops), self.formula(d - 1, j + 1)) for _ in range(n)])
        return self.factor(d)

    def expr(self, d):
        r = self.rng
        if d > 0 and r.random() < 0.12: return self.range_(d)
        return self.formula(d)

    def range_(self, d):
        r = self.rng
        a, b = self.formula(d - 1, 3), self.formula(d - 1, 3)
        if not self.clean and r.random() < 0.35:
            return ("rangei", a, r.random() < 0.3, self.formula(d - 1, 3), r.random() < 0.3, b)
        return ("range", a, r.random() < 0.4, b)

    def core(self, d):
        r = self.rng
        if d <= 0: return self.lit() if r.random() < 0.5 else self.var()
        t = r.random()
        if t < 0.22: return self.lit()
        if t < 0.42: return self.var()
        if t < 0.52: return ("paren", self.formula(d - 1))
        if t < 0.64: return self.mat(d)
        if t < 0.70: return ("set", [self.xf(d - 1) for _ in range(r.choice([0, 1, 2, 3]))])
        if t < 0.76: return ("tup", [self.xf(d - 1) for _ in range(r.choice([0, 2, 2, 3]))])
        if t < 0.82: return ("rec", [(f, self.kind(0.3), self.xf(d - 1)) for f in r.sample(FIELDS, r.choice([1, 2, 3]))])
        if self.ext and t < 0.86: return self.map_(d)
        if self.ext and t < 0.89: return self.tups(d)
        if t < 0.92: return self.call(d)
        return self.slice_(d)

    def factor(self, d):
        r = self.rng; t = r.random()
        if d > 0 and t < 0.08:
            f = self.factor(d - 1)
            return ("neg", f) if f[0] != "neg" else f
        if d > 0 and t < 0.12:
            f = self.factor(d - 1)
            return ("not", f) if not (f[0] == "lit" and f[1] == "atom") else f     # `¬:a` lexes `¬` as an identifier in argument position
        if d > 0 and t < 0.20: return ("trans", self.core(d - 1))
        return self.core(d)

    def mat(self, d):
        r = self.rng
        nr = r.choice([0, 1, 1, 1, 1, 1]) if self.clean else r.choice([0, 1, 1, 1, 2, 2, 3, 4])
        nc = r.choice([1, 2, 3, 4])
        rows = [[self.xf(d - 1) for _ in range(nc)] for _ in range(nr)]
        if nr >= 2 and r.random() < self.jagged_p:
            i = r.randrange(1, nr)
            if r.random() < 0.5 and nc > 1: rows[i] = rows[i][:-1]
            else: rows[i].append(self.xf(d - 1))
        return ("mat", rows)

    def call(self, d):
        r = self.rng
        n = r.choice([0, 1, 1, 2, 3])
        args = []
        for _ in range(n):
            nm = r.choice(FIELDS) if (not self.clean and r.random() < 0.3) else None
            args.append((nm, self.xf(d - 1)))
        return ("call", r.choice(FUNS), args)

    def subs(self, d):
        r = self.rng
        out = []
        for _ in range(r.choice([1, 1, 1, 2, 3])):
            if r.random() < 0.35: out.append(("dot", r.choice(FIELDS)))
            else:
                ixs = []
                for _ in range(r.choice([1, 1, 2, 2, 3])):
                    t = r.random()
                    if t < 0.2: ixs.append(("all",))
                    elif t < 0.4: ixs.append(self.range_(max(d, 1)))
                    else: ixs.append(self.formula(d - 1))
                    if starts_colon(ixs[-1]): ixs[-1] = ("paren", ixs[-1]) if ixs[-1][0] not in ("range", "rangei") else ("all",)
                out.append(("brk", ixs))
        return out

    def slice_(self, d): return ("slice", self.rng.choice(IDENTS), self.subs(d))

    # ---- second round: maps, tuple-structs, tables, comments, enums, functions, match, patterns, comprehensions
    def skind(self): return ("ks", self.rng.choice(KINDS))

    def map_(self, d):
        r = self.rng
        n = r.choice([0, 1, 2, 2, 3])
        ms = []
        for i in range(n):
            k = self.lit() if r.random() < 0.6 else self.formula(d - 1)
            if i == 0 and k[0] == "var": k = self.lit()
            ms.append((k, self.xf(d - 1)))
        return ("map", ms)

    def tups(self, d): return ("tups", self.rng.choice(ATOMS), self.xf(d - 1))

    def pitem(self):
        r = self.rng; t = r.random()
        if t < 0.2: return ("pw",)
        if t < 0.55:
            l = self.lit()
            return ("pl", l[1], l[2], l[3])
        return ("pv", r.choice(IDENTS), self.kind(0.1))

    def pat(self, d=2):
        r = self.rng; t = r.random()
        if d <= 0 or t < 0.5: return self.pitem()
        if t < 0.65: return ("pt", [self.pat(d - 1) for _ in range(r.choice([1, 2, 2, 3]))])
        if t < 0.8: return ("ps", r.choice(ATOMS), [self.pat(d - 1) for _ in range(r.choice([1, 1, 2]))])
        pre = [self.pitem() for _ in range(r.choice([0, 1, 1, 2]))]
        u = r.random()
        if u < 0.35: tl = ("none", [])
        elif u < 0.7: tl = ("spread", [self.pitem() for _ in range(r.choice([0, 0, 1, 2]))])
        else: tl = ("rest", [self.pitem()])
        return ("pa", pre, tl)

    def table(self, d):
        r = self.rng
        fs = [(f, ("ks", r.choice(KINDS)) if r.random() < 0.8 else ("km", r.choice(KINDS), [str(r.choice([1, 2])) for _ in range(r.choice([0, 2]))]))
              for f in r.sample(FIELDS, r.choice([1, 2, 3]))]
        rows = []
        for _ in range(r.choice([1, 1, 2, 3])):
            row = []
            for _ in fs:
                c = self.expr(d - 1)
                if c[0] == "var" and c[2] is not None: c = ("var", c[1], None)
                row.append(c)
            rows.append(row)
        return ("table", fs, rows)

    def match(self, d):
        r = self.rng
        src = self.core(d - 1) if r.random() < 0.8 else self.factor(d - 1)
        arms = []
        for i in range(r.choice([1, 2, 2, 3, 4])):
            g = self.formula(d - 1) if r.random() < 0.25 else None
            arms.append((self.pat(), g, self.expr(d - 1)))
        if r.random() < 0.7: arms[-1] = (("pw",), None, arms[-1][2])
        return ("match", src, arms)

    def compr(self, d):
        r = self.rng
        qs = [("gen", self.pat(1), self.expr(d - 1))]
        for _ in range(r.choice([0, 0, 1, 2])):
            t = r.random()
            if t < 0.35: qs.append(("gen", self.pat(1), self.expr(d - 1)))
            elif t < 0.75:
                lvl = r.choice([2, 2, 7])
                ops = [o for o in BY_LEVEL[lvl] if not (self.clean and o in DEFECT_OPS)]
                qs.append(("filt", ("term", ("var", r.choice(IDENTS), None), [(r.choice(ops), self.formula(d - 1, lvl + 1))])))
            else: qs.append(("let", r.choice(IDENTS), self.kind(0.2), self.expr(d - 1)))
        return ("compr", r.random() < 0.5, self.expr(d - 1), qs)

    def rhs(self, d):
        r = self.rng; t = r.random()
        if t < 0.3: return self.table(d)
        if t < 0.6: return self.match(d)
        if t < 0.85: return self.compr(d)
        return self.map_(d) if r.random() < 0.6 else self.tups(d)

    def stmt2(self, d):
        """a statement of the second-round subset"""
        r = self.rng; t = r.random()
        if t < 0.12: return ("com", r.choice(COMMENTS))
        if t < 0.22:
            return ("enum", r.choice(["color", "res", "T1", "my-enum"]),
                    [(a, self.kind(0.4) if r.random() < 0.5 else None) for a in r.sample(ATOMS, r.choice([1, 2, 3]))])
        if t < 0.36:
            args = [(x, self.skind()) for x in r.sample(["x", "y", "n"], r.choice([1, 1, 2]))]
            arms = [(self.pat(), self.expr(d - 1)) for _ in range(r.choice([1, 2, 2, 3]))]
            return ("fun", r.choice(["fz", "power", "fact", "my-fun"]), args, self.skind(), arms)
        if t < 0.8: return ("def", r.random() < 0.2, r.choice(IDENTS), self.kind(0.2), self.rhs(d))
        if t < 0.86: return ("asg", r.choice(IDENTS), self.subs(d) if r.random() < 0.4 else [], self.rhs(d))
        if t < 0.9: return ("opasg", self.subs(d) if r.random() < 0.4 else [], r.choice(IDENTS), r.choice(list(AOPS)), self.rhs(d))
        rh = self.rhs(d)
        return ("expr", rh)

    # ---- third round: state machines
    def fvar(self, p=0.7): return (self.rng.choice(IDENTS + ["n", "acc", "steps"]), self.kind(p))

    def fsm_spec(self, nm=None):
        r = self.rng
        ins = [self.fvar(0.8) for _ in range(r.choice([0, 1, 1, 2, 3]))]
        out = self.kind(1.0) if r.random() < 0.85 else None
        sts = []
        for s in r.sample(STATES, r.choice([1, 2, 2, 3, 4])):
            sts.append((s, None if r.random() < 0.25 else [self.fvar(0.8) for _ in range(r.choice([1, 1, 2, 3]))]))
        return ("fsmspec", nm or r.choice(MACHINES), ins, out, sts)

    def fleaf(self, d):
        """an expression as a pattern: must not begin like a tuple / array / tuple-struct pattern, contains no instance"""
        g = G(self.rng, clean=self.clean, ext=self.ext, fsm=False)
        for _ in range(40):
            e = g.expr(d) if self.rng.random() < 0.6 else (g.var() if self.rng.random() < 0.6 else g.lit())
            txt = R(self.rng, 0.0).e(e)
            if txt[0] in "([*#": continue
            if re.match(r":[^\s(<]*\(", txt): continue
            return ("fe", e)
        return ("fe", g.var())

    def fitem(self, val):
        while True:
            i = self.pitem()
            if not (val and i[0] == "pw"): return i

    def fpat(self, val, d=2, ed=1):
        r = self.rng; t = r.random()
        if not val and t < 0.08: return ("fw",)
        if d <= 0 or t < 0.55: return self.fleaf(ed)
        if t < 0.65: return ("ft", [self.fpat(val, d - 1, ed) for _ in range(r.choice([1, 2, 2, 3]))])
        if t < 0.82: return ("fs", r.choice(STATES), [self.fpat(val, d - 1, ed) for _ in range(r.choice([1, 1, 2, 3]))])
        pre = [self.fitem(val) for _ in range(r.choice([0, 1, 1, 2, 3]))]
        u = r.random()
        if val or u < 0.35: tl = ("none", [])
        elif u < 0.7: tl = ("spread", [self.fitem(val) for _ in range(r.choice([0, 0, 1, 2]))])
        else: tl = ("rest", [self.fitem(val)])
        return ("fa", pre, tl)

    def state_pat(self, val, ed=1):
        """the usual shape: :State(p, q) or a bare atom :State"""
        r = self.rng
        if r.random() < 0.15: return ("fe", ("lit", "atom", r.choice(STATES), None))
        return ("fs", r.choice(STATES), [self.fpat(val, 1, ed) for _ in range(r.choice([1, 1, 2, 3]))])

    def trans(self):
        r = self.rng; t = r.random()
        k = "next" if t < 0.6 else ("out" if t < 0.92 else "async")
        p = self.state_pat(True) if (k != "out" and r.random() < 0.85) else self.fpat(True, 2)
        return (k, p)

    def transs(self): return [self.trans() for _ in range(self.rng.choice([1, 1, 1, 1, 2, 3]))]

    def cond(self, last):
        r = self.rng
        if last and r.random() < 0.5: return ("fw",)
        if r.random() < 0.7:
            g = G(r, clean=self.clean, ext=self.ext)
            lvl = r.choice([2, 2, 2, 1])
            ops = [o for o in BY_LEVEL[lvl] if not (self.clean and o in DEFECT_OPS)]
            return ("fe", ("term", ("var", r.choice(IDENTS), None), [(r.choice(ops), g.formula(1, lvl + 1))]))
        return self.fpat(False, 1)

    def arm(self):
        r = self.rng
        p = self.state_pat(False) if r.random() < 0.85 else self.fpat(False, 2)
        if r.random() < 0.55: return ("arm", p, self.transs())
        n = r.choice([1, 2, 2, 3])
        return ("garm", p, [(self.cond(i + 1 == n and n > 1), self.gtranss()) for i in range(n)])

    def gtranss(self):
        """the transitions of a guard: `-> x =:= y` has no source spelling but `≡` (fixed cases only); `-> x ⇒ e` exposes the
        finding fsm-guard-arrow-reads-as-assignment and is generated once that is listed"""
        while True:
            ts = self.transs()
            if any(k == "next" and p[0] == "fe" and lead_eq(p[1]) for k, p in ts): continue
            # (only in programs without the constructs of the first-round classes: formatter.rs no longer has those defects, so
            #  the model of formatter.rs predicts another text for them and a mixed program would match neither text)
            if not (GUARDASSIGN and self.clean) and any(a[0] == "next" and is_target(a[1]) and b[0] == "out" for a, b in zip(ts, ts[1:])): continue
            return ts

    def fsm_impl(self, nm=None, ins=None):
        r = self.rng
        if ins is None: ins = [self.fvar(0.3) for _ in range(r.choice([0, 1, 1, 2, 3]))]
        start = self.state_pat(True) if r.random() < 0.85 else self.fpat(True, 2)
        return ("fsmimpl", nm or r.choice(MACHINES), ins, start, [self.arm() for _ in range(r.choice([1, 2, 2, 3, 4]))])

    def fsm_prog(self, d):
        """specification + implementation + an instance, mixed with other statements"""
        r = self.rng
        nm = r.choice(MACHINES)
        spec = self.fsm_spec(nm)
        impl = self.fsm_impl(nm, spec[2] if r.random() < 0.7 else None)
        inst = self.fsm_inst(d)
        inst = ("fsm", nm, inst[2])
        use = ("expr", inst) if r.random() < 0.5 else ("def", False, r.choice(IDENTS), self.kind(0.2), inst)
        stmts = []
        if r.random() < 0.3: stmts.append(self.stmt(d))
        if r.random() < 0.85: stmts.append(spec)
        if r.random() < 0.15: stmts.append(("com", r.choice(COMMENTS)))
        if r.random() < 0.9: stmts.append(impl)
        if r.random() < 0.25: stmts.append(self.stmt2(d) if self.ext and r.random() < 0.5 else self.stmt(d))
        if r.random() < 0.85: stmts.append(use)
        if not stmts: stmts.append(impl)
        return stmts

    def stmtF(self, d):
        """a first-round statement whose right-hand side may be (or contain) an instance"""
        r = self.rng; t = r.random()
        if t < 0.5: return ("def", r.random() < 0.25, r.choice(IDENTS), self.kind(0.35), self.xf(d))
        if t < 0.62: return ("asg", r.choice(IDENTS), self.subs(d) if r.random() < 0.6 else [], self.xf(d))
        if t < 0.74: return ("opasg", self.subs(d) if r.random() < 0.5 else [], r.choice(IDENTS), r.choice(list(AOPS)), self.xf(d))
        return ("expr", self.xf(d))

    def stmt(self, d):
        r = self.rng; t = r.random()
        if t < 0.5: return ("def", r.random() < 0.25, r.choice(IDENTS), self.kind(0.35), self.expr(d))
        if t < 0.62: return ("asg", r.choice(IDENTS), self.subs(d) if r.random() < 0.6 else [], self.expr(d))
        if t < 0.74: return ("opasg", self.subs(d) if r.random() < 0.5 else [], r.choice(IDENTS), r.choice(list(AOPS)), self.expr(d))
        return ("expr", self.expr(d))


def k_sx(k):
    if k is None: return ["nok"]
    if k[0] == "ks": return ["ks", q(k[1])]
    return ["km", q(k[1]), [q(d) for d in k[2]]]


def e_sx(e):
    t = e[0]
    if t == "lit":
        v = e[2]
        return ["lit", e[1], (1 if v else 0) if e[1] == "bool" else q(v), k_sx(e[3])]
    if t == "var": return ["var", q(e[1]), k_sx(e[2])]
    if t in ("paren", "neg", "not", "trans"): return [t, e_sx(e[1])]
    if t == "term": return ["term", e_sx(e[1])] + [[o, e_sx(x)] for o, x in e[2]]
    if t == "mat": return ["mat"] + [["row"] + [e_sx(x) for x in row] for row in e[1]]
    if t in ("set", "tup", "brk"): return [t] + [e_sx(x) for x in e[1]]
    if t == "rec": return ["rec"] + [["b", q(n), k_sx(k), e_sx(x)] for n, k, x in e[1]]
    if t == "map": return ["map"] + [["m", e_sx(k), e_sx(v)] for k, v in e[1]]
    if t == "tups": return ["tups", q(e[1]), e_sx(e[2])]
    if t == "call": return ["call", q(e[1])] + [(["arg", e_sx(x)] if n is None else ["named", q(n), e_sx(x)]) for n, x in e[2]]
    if t == "slice": return ["slice", q(e[1])] + [e_sx(s) for s in e[2]]
    if t == "dot": return ["dot", q(e[1])]
    if t == "all": return ["all"]
    if t == "range": return ["range", e_sx(e[1]), 1 if e[2] else 0, e_sx(e[3])]
    if t == "rangei": return ["rangei", e_sx(e[1]), 1 if e[2] else 0, e_sx(e[3]), 1 if e[4] else 0, e_sx(e[5])]
    if t == "fsm":
        if e[2] is None: return ["fsm", q(e[1])]
        return ["fsmc", q(e[1])] + [(["arg", e_sx(x)] if n is None else ["named", q(n), e_sx(x)]) for n, x in e[2]]
    raise ValueError(t)


def f_sx(p):
    t = p[0]
    if t == "fw": return ["fw"]
    if t == "fe": return ["fe", e_sx(p[1])]
    if t == "ft": return ["ft"] + [f_sx(x) for x in p[1]]
    if t == "fs": return ["fs", q(p[1])] + [f_sx(x) for x in p[2]]
    return ["fa", [i_sx(x) for x in p[1]], [p[2][0]] + [i_sx(x) for x in p[2][1]]]


def t_sx(ts): return [[k, f_sx(p)] for k, p in ts]
def v_sx(v): return ["v", q(v[0]), k_sx(v[1])]


def i_sx(p):
    if p[0] == "pw": return ["pw"]
    if p[0] == "pl": return ["pl", p[1], (1 if p[2] else 0) if p[1] == "bool" else q(p[2]), k_sx(p[3])]
    return ["pv", q(p[1]), k_sx(p[2])]


def p_sx(p):
    t = p[0]
    if t in ("pw", "pl", "pv"): return i_sx(p)
    if t == "pt": return ["pt"] + [p_sx(x) for x in p[1]]
    if t == "ps": return ["ps", q(p[1])] + [p_sx(x) for x in p[2]]
    return ["pa", [i_sx(x) for x in p[1]], [p[2][0]] + [i_sx(x) for x in p[2][1]]]


def r_sx(e):
    t = e[0]
    if t == "table":
        return ["table", ["fields"] + [["f", q(n), k_sx(k)] for n, k in e[1]]] + [["row"] + [e_sx(c) for c in row] for row in e[2]]
    if t == "match":
        return ["match", e_sx(e[1])] + [(["arm", p_sx(p), e_sx(x)] if g is None else ["arm", p_sx(p), e_sx(g), e_sx(x)]) for p, g, x in e[2]]
    if t == "compr":
        qs = []
        for qq in e[3]:
            if qq[0] == "gen": qs.append(["gen", p_sx(qq[1]), e_sx(qq[2])])
            elif qq[0] == "let": qs.append(["let", q(qq[1]), k_sx(qq[2]), e_sx(qq[3])])
            else: qs.append(["filt", e_sx(qq[1])])
        return ["compr", 1 if e[1] else 0, e_sx(e[2])] + qs
    return e_sx(e)


def s_sx(s):
    t = s[0]
    if t == "def": return ["def", 1 if s[1] else 0, q(s[2]), k_sx(s[3]), r_sx(s[4])]
    if t == "asg": return ["asg", q(s[1]), [e_sx(x) for x in s[2]], r_sx(s[3])]
    if t == "opasg": return ["opasg", [e_sx(x) for x in s[1]], q(s[2]), s[3], r_sx(s[4])]
    if t == "com": return ["com", q(s[1])]
    if t == "enum": return ["enum", q(s[1])] + [["v", q(a), k_sx(k)] for a, k in s[2]]
    if t == "fsmspec":
        return ["fsmspec", q(s[1]), ["ins"] + [v_sx(v) for v in s[2]], k_sx(s[3]),
                ["states"] + [(["st", q(n)] if vs is None else ["stv", q(n)] + [v_sx(v) for v in vs]) for n, vs in s[4]]]
    if t == "fsmimpl":
        arms = []
        for a in s[4]:
            if a[0] == "arm": arms.append(["arm", f_sx(a[1])] + t_sx(a[2]))
            else: arms.append(["garm", f_sx(a[1])] + [["g", f_sx(c)] + t_sx(ts) for c, ts in a[2]])
        return ["fsmimpl", q(s[1]), ["ins"] + [v_sx(v) for v in s[2]], f_sx(s[3])] + arms
    if t == "fun": return ["fun", q(s[1]), ["args"] + [["a", q(x), k_sx(k)] for x, k in s[2]], k_sx(s[3])] + [["arm", p_sx(p), e_sx(x)] for p, x in s[4]]
    return ["expr", r_sx(s[1])]


def ends_dot(e):
    t = e[0]
    if t == "slice": return e[2][-1][0] == "dot"
    if t in ("neg", "not"): return ends_dot(e[1])
    if t == "term": return ends_dot(e[2][-1][1])
    if t == "range": return ends_dot(e[3])
    if t == "rangei": return ends_dot(e[5])
    return False


def starts_ident(e):
    t = e[0]
    if t in ("var", "call", "slice", "not"): return True       # `¬y` is an identifier: `x.a,¬y` is a swizzle too
    if t == "lit": return e[1] == "bool"
    if t == "trans": return starts_ident(e[1])
    if t in ("term", "range", "rangei"): return starts_ident(e[1])
    return False


def starts_colon(e):
    """the printed expression begins with `:` (atom literal): not expressible as the first thing of a bracket subscript entry"""
    t = e[0]
    if t == "lit": return e[1] == "atom"
    if t == "tups": return True       # tuple-struct `:a(...)` begins with a colon too
    if t in ("trans", "term", "range", "rangei"): return starts_colon(e[1])
    return False


def adjacent_swizzle(es): return any(ends_dot(a) and starts_ident(b) for a, b in zip(es, es[1:]))


class R:
    """source rendering of a tree; v = amount of (insignificant) variation, 0 = canonical"""
    def __init__(self, rng, v=0.0): self.rng = rng; self.v = v
    def vary(self): return self.v > 0 and self.rng.random() < self.v
    def sp(self): return "  " if self.vary() else " "
    def osp(self): return " " if self.vary() else ""

    def k(self, k):
        if k is None: return ""
        if k[0] == "ks": return "<%s>" % k[1]
        return "<[%s]%s>" % (k[1], (":" + ",".join(k[2])) if k[2] else "")

    def e(self, e):
        t = e[0]; r = self.rng
        if t == "lit":
            if e[1] == "num": b = e[2]
            elif e[1] == "str": b = '"%s"' % e[2]
            elif e[1] == "bool": b = "true" if e[2] else "false"
            else: b = ":" + e[2]
            return b + self.k(e[3])
        if t == "var": return e[1] + self.k(e[2])
        if t == "paren": return "(" + self.osp() + self.e(e[1]) + self.osp() + ")"
        if t == "neg": return "-" + self.e(e[1])
        if t == "not": return ("!" if self.vary() else "¬") + self.e(e[1])
        if t == "trans": return self.e(e[1]) + "'"
        if t == "term":
            s = self.e(e[1])
            for o, x in e[2]:
                sym = r.choice(OPS[o][2]) if self.vary() else OPS[o][2][0]
                s += self.sp() + sym + self.sp() + self.e(x)
            return s
        if t == "mat":
            if not e[1]: return "[]"
            esep = ", " if self.vary() else (self.sp())
            rsep = r.choice(["; ", ";", ";\n ", "\n "]) if self.vary() else "; "
            return "[" + self.osp() + rsep.join(esep.join(self.e(x) for x in row) for row in e[1]) + self.osp() + "]"
        if t == "set": return "{" + (", " if not self.vary() else ",").join(self.e(x) for x in e[1]) + "}"
        if t == "tup": return "(" + ("," if not (self.vary() or adjacent_swizzle(e[1])) else ", ").join(self.e(x) for x in e[1]) + ")"
        if t == "rec":
            return "{" + (", " if not self.vary() else ",").join(n + self.k(k) + ":" + (" " if not self.vary() else "") + self.e(x) for n, k, x in e[1]) + "}"
        if t == "map":
            if not e[1]: return "{:}" if not self.vary() else "{ : }"
            return "{" + (", " if not self.vary() else ",").join(self.e(k) + ":" + (" " if not self.vary() else "") + self.e(v) for k, v in e[1]) + "}"
        if t == "tups": return ":" + e[1] + "(" + self.osp() + self.e(e[2]) + self.osp() + ")"
        if t == "call":
            return e[1] + "(" + (", " if not self.vary() else ",").join((n + ": " if n else "") + self.e(x) for n, x in e[2]) + ")"
        if t == "slice": return e[1] + "".join(self.e(s) for s in e[2])
        if t == "dot": return "." + e[1]
        if t == "brk": return "[" + ("," if not (self.vary() or adjacent_swizzle(e[1])) else ", ").join(self.e(x) for x in e[1]) + "]"
        if t == "all": return ":"
        if t == "range": return self.e(e[1]) + ("..=" if e[2] else "..") + self.e(e[3])
        if t == "rangei": return self.e(e[1]) + ("..=" if e[2] else "..") + self.e(e[3]) + ("..=" if e[4] else "..") + self.e(e[5])
        if t == "fsm":
            if e[2] is None: return "#" + e[1]
            sep = "," if (self.vary() and not adjacent_swizzle([x for _, x in e[2]])) else ", "
            return "#" + e[1] + "(" + sep.join((n + ": " if n else "") + self.e(x) for n, x in e[2]) + ")"
        raise ValueError(t)

    # ---- state machines
    def fsep(self, ps):
        """`x.a,y` is a swizzle: a bare comma only where the neighbours cannot form one"""
        es = [p[1] if p[0] == "fe" else ("lit", "num", "0", None) for p in ps]
        return "," if (self.vary() and not adjacent_swizzle(es)) else ", "

    def fp(self, p):
        t = p[0]
        if t == "fw": return "*"
        if t == "fe": return self.e(p[1])
        if t == "ft": return "(" + self.osp() + self.fsep(p[1]).join(self.fp(x) for x in p[1]) + self.osp() + ")"
        if t == "fs": return ":" + p[1] + "(" + self.osp() + self.fsep(p[2]).join(self.fp(x) for x in p[2]) + self.osp() + ")"
        return "[" + self.osp() + self.arr(p[1], p[2], True) + self.osp() + "]"

    def tr(self, ts, guard=False):
        out = ""; prev = None
        for k, p in ts:
            if k == "next": op = "→" if self.vary() else "->"
            elif k == "out":
                op = "⇒" if self.vary() else "=>"
                # in a guard `-> x => e` is read as the assignment `x = > e`: only the spelling `⇒` denotes the output
                if guard and prev is not None and prev[0] == "next" and is_target(prev[1]): op = "⇒"
            else: op = "~>"
            out += self.sp() + op + self.sp() + self.fp(p)
            prev = (k, p)
        return out

    def fv(self, v): return v[0] + self.k(v[1])

    def fsm(self, s):
        r = self.rng; t = s[0]
        head = "#" + s[1] + "(" + (", " if not self.vary() else ",").join(self.fv(v) for v in s[2]) + ")"
        if t == "fsmspec":
            ind = r.choice(["  ", "    ", "\t"]) if self.v > 0 else "    "
            out = head
            if s[3] is not None: out += self.sp() + ("=>" if self.vary() else "⇒") + self.sp() + self.k(s[3])
            if self.v == 0 or r.random() < 0.5: out += self.sp() + ":="
            n = len(s[4])
            for i, (nm, vs) in enumerate(s[4]):
                br = r.choice(["|", "│", "├" if i + 1 < n else "└"]) if self.v > 0 else ("├" if i + 1 < n else "└")
                out += "\n" + ind + br + self.sp() + ":" + nm
                if vs is not None: out += "(" + (", " if not self.vary() else ",").join(self.fv(v) for v in vs) + ")"
            return out + "."
        out = head + self.sp() + ("→" if self.vary() else "->") + self.sp() + self.fp(s[3])
        ind = r.choice(["  ", "    ", " "]) if self.v > 0 else "  "
        for a in s[4]:
            out += "\n" + ind + self.fp(a[1])
            if a[0] == "arm": out += self.tr(a[2])
            else:
                n = len(a[2])
                for i, (c, ts) in enumerate(a[2]):
                    if self.v > 0: br = r.choice(["|", "│", "├" if i + 1 < n else "└"])
                    else: br = "├" if (i == 0 or i + 1 < n) else "└"
                    out += "\n" + ind + ind + br + self.sp() + self.fp(c) + self.tr(ts, True)
        return out + "."

    def i(self, p):
        if p[0] == "pw": return "*"
        if p[0] == "pl": return self.e(("lit", p[1], p[2], p[3]))
        return p[1] + self.k(p[2])

    def p(self, p):
        t = p[0]
        if t in ("pw", "pl", "pv"): return self.i(p)
        if t == "pt": return "(" + (", " if not self.vary() else ",").join(self.p(x) for x in p[1]) + ")"
        if t == "ps": return ":" + p[1] + "(" + (", " if not self.vary() else ",").join(self.p(x) for x in p[2]) + ")"
        return "[" + self.arr(p[1], p[2], False) + "]"

    def arr(self, pre, tl, commas):
        """the parts of an array pattern.  `a * b` is a product: a wildcard after an item is written `a, *` (once the
        finding array-pattern-item-then-wildcard is listed; before that the text is left as the formatter prints it)"""
        ps = arr_parts(pre, tl)
        out = ""
        for j, x in enumerate(ps):
            if x[0] == "ell": t = "..." if self.vary() else "…"
            elif x[0] == "bar": t = "|"
            else: t = self.i(x)
            if j > 0:
                a = ps[j - 1]
                if a[0] in ("pl", "pv") and x[0] == "pw": out += ", " if ARRWILD else " "
                elif commas and a[0] in ("pl", "pv") and x[0] in ("pl", "pv") and self.vary(): out += ", "
                else: out += " "
            out += t
        return out

    def r(self, e):
        t = e[0]; r = self.rng
        if t == "table":
            hdr = "| " + self.sp().join(n + self.k(k) for n, k in e[1]) + " |"
            rows = ["| " + self.sp().join(self.e(c) for c in row) + " |" for row in e[2]]
            if self.vary(): return hdr + "\n" + "\n".join("     " + x for x in rows)
            return hdr + " " + " ".join(x[2:] for x in rows)
        if t == "match":
            out = self.e(e[1]) + "?"
            n = len(e[2])
            for i, (p, g, x) in enumerate(e[2]):
                if self.v > 0:
                    br = r.choice(["\n  | ", "\n  ├ " if i + 1 < n else "\n  └ ", " | "])
                    arrow = r.choice([" => ", " ⇒ "])
                else:
                    br = "\n\n├" if i == 0 else ("\n├" if i + 1 < n else "\n└"); arrow = " ⇒ "
                    if n == 1: br = "\n\n└"
                    elif i + 1 == n: br = "\n└"
                out += br + self.p(p) + ((", " + self.e(g)) if g is not None else "") + arrow + self.e(x)
            return out + "."
        if t == "compr":
            op, cl = ("[", "]") if e[1] else ("{", "}")
            qs = []
            for qq in e[3]:
                if qq[0] == "gen": qs.append(self.p(qq[1]) + (" <- " if self.vary() else " ← ") + self.e(qq[2]))
                elif qq[0] == "let": qs.append(qq[1] + self.k(qq[2]) + " := " + self.e(qq[3]))
                else: qs.append(self.e(qq[1]))
            pad = "" if self.vary() else " "
            return op + pad + self.e(e[2]) + " | " + ", ".join(qs) + pad + cl
        return self.e(e)

    def s(self, s):
        t = s[0]
        if t == "def": return ("~" if s[1] else "") + s[2] + self.k(s[3]) + self.sp() + ":=" + self.sp() + self.r(s[4])
        if t == "asg": return s[1] + "".join(self.e(x) for x in s[2]) + self.sp() + "=" + self.sp() + self.r(s[3])
        if t == "opasg": return s[2] + "".join(self.e(x) for x in s[1]) + self.sp() + AOPS[s[3]] + self.sp() + self.r(s[4])
        if t == "com": return "--" + s[1]
        if t == "enum": return "<" + s[1] + ">" + self.sp() + ":=" + self.sp() + (" | " if not self.vary() else "|").join(":" + a + self.k(k) for a, k in s[2])
        if t in ("fsmspec", "fsmimpl"): return self.fsm(s)
        if t == "fun":
            out = s[1] + "(" + (", " if not self.vary() else ",").join(x + self.k(k) for x, k in s[2]) + ") => " + self.k(s[3])
            n = len(s[4])
            for i, (p, x) in enumerate(s[4]):
                br = "  | " if self.vary() else ("  ├ " if i + 1 < n else "  └ ")
                out += "\n" + br + self.p(p) + " => " + self.e(x)
            return out + "."
        return self.r(s[1])

    def prog(self, stmts):
        seps = ["\n", "\n\n", "\n"] if self.v > 0 else ["\n"]
        out = ""
        for i, st in enumerate(stmts):
            out += self.s(st)
            if i + 1 < len(stmts): out += self.rng.choice(seps)
        return out


def _walk(x):
    """all tuples inside a generated tree"""
    if isinstance(x, tuple):
        yield x
        for y in x:
            for z in _walk(y): yield z
    elif isinstance(x, list):
        for y in x:
            for z in _walk(y): yield z


def arr_parts(pre, tl):
    parts = list(pre)
    if tl[0] == "spread": parts += [("ell",)] + list(tl[1])
    elif tl[0] == "rest": parts += [("bar",)] + list(tl[1])
    return parts


def has_arrwild(stmts):
    """an array pattern in which a wildcard directly follows a literal / variable item: printed `[a * b]` = a product"""
    for t in _walk(stmts):
        if t and t[0] in ("pa", "fa") and len(t) == 3 and isinstance(t[1], list):
            ps = arr_parts(t[1], t[2])
            for a, b in zip(ps, ps[1:]):
                if a[0] in ("pl", "pv") and b[0] == "pw": return True
    return False


def lead_eq(e):
    if e[0] == "term": return (_target(e[1]) and e[2][0][0] in ("seq", "sneq")) or lead_eq(e[1])
    if e[0] in ("range", "rangei"): return lead_eq(e[1])
    return False


def _nid_tail(e):
    """what may follow a leading `¬` so that the whole lexes as an identifier (with subscripts): ¬x ¬¬x ¬true ¬5 ¬22/7 ¬x[1]"""
    if e[0] == "var": return e[2] is None
    if e[0] == "slice": return True
    if e[0] == "lit": return e[3] is None and e[1] in ("bool", "num")
    if e[0] in ("not", "neg"): return _nid_tail(e[1])
    return False


def _target(e):
    """an assignable target as the statement grammar lexes it (Model/Fmt3.v is_target)"""
    if e[0] == "var": return e[2] is None
    if e[0] == "slice": return True
    if e[0] == "lit": return e[1] == "bool" and e[3] is None
    if e[0] == "not": return _nid_tail(e[1])
    return False


def is_target(p): return p[0] == "fe" and _target(p[1])


def has_guard_next_out(stmts):
    for t in _walk(stmts):
        if t and t[0] == "garm":
            for c, ts in t[2]:
                for a, b in zip(ts, ts[1:]):
                    if a[0] == "next" and is_target(a[1]) and b[0] == "out": return True
    return False


def table_rhs(st):
    """the statement's right-hand side is a table literal (its text ends with `|`) / the statement is a bare table"""
    return any(isinstance(x, tuple) and x and x[0] == "table" for x in st)


def _dot_start(st):
    import random as _random
    return re.match(r"[^\W_][\w/-]*\.", R(_random.Random(0), 0.0).s(st)) is not None


def model_case(stmts, rng, v, stream):
    # a table literal continues over the following lines as long as they start with `|` (even across a blank line), so a
    # bare table expression directly after a statement that ends with a table would be read as more rows of that table:
    # such a sequence does not denote the tree the case claims; the second statement is dropped
    keep = []
    for st in stmts:
        if keep and table_rhs(keep[-1]) and st[0] == "expr" and table_rhs(st):
            continue
        # a line that begins `x.` / `3.` directly followed by a line of dashes is a numbered section title (`A. name = 2` +
        # underline): the formatter prints the statements without blank lines, so `A.name = 2`, blank line, `--` does not
        # round-trip (reported as a finding, not listed: the empty comment is not generated in that position)
        if keep and st == ("com", "") and _dot_start(keep[-1]):
            continue
        keep.append(st)
    stmts = keep
    src = R(rng, v).prog(stmts)
    tags = dict(stream=stream)
    if has_arrwild(stmts): tags["cls"] = "arrwild"
    elif has_guard_next_out(stmts): tags["cls"] = "guard-next-out"
    return dict(sx=sx(["prog"] + [s_sx(s) for s in stmts]), impl=dict(src=src), tags=tags)


def fixed_model_cases(rng):
    n1, n2, n3 = ("lit", "num", "1", None), ("lit", "num", "2", None), ("lit", "num", "3", None)
    va, vb = ("var", "a", None), ("var", "b", None)
    out = []
    def one(e, v=0.0): out.append(model_case([("expr", e)], rng, v, "model-fixed"))
    for o in OPS: one(("term", va, [(o, vb)])); one(("term", va, [(o, vb)]), 1.0)
    for o in OPS: one(("term", n1, [(o, ("neg", n2))]))
    one(("mat", [[n1, n2, n3], [n3, n2, n1]])); one(("mat", [[n1, n2, n3]])); one(("mat", [[n1], [n2], [n3]])); one(("mat", []))
    one(("mat", [[n1, n2], [n3]])); one(("mat", [[n1], [n2, n3]]))
    one(("mat", [[("neg", n1), ("term", va, [("sub", vb)]), ("neg", vb)]]))
    one(("call", "f", [("k", n1), (None, n2)])); one(("call", "f", [])); one(("call", "f", [("k", va)]))
    one(("range", n1, False, n3)); one(("range", n1, True, n3)); one(("rangei", n1, False, n2, False, n3)); one(("rangei", n1, False, n2, True, n3))
    one(("rangei", n1, False, n3, False, n3))
    one(("tup", [])); one(("tup", [n1, n2])); one(("set", [])); one(("set", [va])); one(("rec", [("a", ("ks", "u8"), n1)]))
    one(("slice", "x", [("brk", [("all",), ("range", n1, False, n2)]), ("dot", "a")]))
    one(("trans", ("paren", ("term", va, [("add", vb)])))); one(("neg", ("trans", va))); one(("not", ("not", va)))
    xa = ("slice", "x", [("dot", "a")])
    one(("tup", [xa, vb])); one(("tup", [xa, n1])); one(("slice", "z", [("brk", [xa, ("term", vb, [("add", n1)])])]))
    for a in AOPS: out.append(model_case([("opasg", [], "x", a, n1)], rng, 0.0, "model-fixed"))
    out.append(model_case([("def", True, "x", ("km", "u8", ["2", "3"]), ("mat", [[n1, n2, n3], [n3, n2, n1]]))], rng, 0.0, "model-fixed"))
    out.append(model_case([("asg", "x", [("brk", [n1, n2])], n3)], rng, 0.0, "model-fixed"))
    return out


def fixed_ext_cases(rng):
    n1, n2 = ("lit", "num", "1", None), ("lit", "num", "2", None)
    va, vb = ("var", "a", None), ("var", "b", None)
    sx_ = ("lit", "str", "x", None)
    out = []
    def one(st, v=0.0): out.append(model_case(st, rng, v, "model-ext-fixed"))
    for v in (0.0, 1.0):
        one([("def", False, "m", None, ("map", []))], v)
        one([("def", False, "m", None, ("map", [(sx_, n1), (n2, va)]))], v)
        one([("def", False, "x", None, ("table", [("a", ("ks", "f64")), ("b", ("ks", "string"))], [[n1, sx_], [n2, sx_]]))], v)
        one([("def", False, "x", None, ("table", [("a", ("ks", "u8"))], [[n1]]))], v)
        one([("expr", ("table", [("a", ("ks", "u8"))], [[n1], [va], [n2]]))], v)
        one([("com", " a comment"), ("def", False, "x", None, n1), ("com", ""), ("com", "x")], v)
        one([("enum", "color", [("red", None), ("green", None), ("blue", None)])], v)
        one([("enum", "res", [("ok", ("ks", "u64")), ("err", ("ks", "string"))])], v)
        one([("def", False, "x", None, ("lit", "atom", "ok", None)), ("def", False, "y", None, ("tups", "ok", ("lit", "num", "200", None)))], v)
        one([("fun", "fact", [("n", ("ks", "u64"))], ("ks", "u64"),
              [(("pl", "num", "0", None), n1), (("pv", "n", None), ("term", ("var", "n", None), [("mul", ("call", "fact", [(None, ("term", ("var", "n", None), [("sub", n1)]))]))]))])], v)
        one([("fun", "fz", [("x", ("ks", "u64")), ("y", ("ks", "u64"))], ("ks", "u64"),
              [(("pt", [("pl", "num", "0", None), ("pw",)]), n1), (("pt", [("pv", "a", None), ("pv", "b", None)]), ("term", va, [("add", vb)]))])], v)
        one([("def", False, "y", None, ("match", va, [(("pl", "num", "1", None), None, n2), (("pw",), None, n1)]))], v)
        one([("def", False, "y", None, ("match", va, [(("pv", "v", None), ("term", ("var", "v", None), [("gt", n1)]), n2), (("pw",), None, n1)]))], v)
        one([("def", False, "y", None, ("match", va, [(("pa", [], ("none", [])), None, n1), (("pa", [("pv", "h", None)], ("spread", [])), None, ("var", "h", None)),
                                                     (("pa", [("pv", "h", None)], ("rest", [("pv", "t", None)])), None, ("var", "h", None)), (("pw",), None, n2)]))], v)
        one([("def", False, "y", None, ("match", va, [(("ps", "some", [("pv", "v", None)]), None, ("var", "v", None)), (("pl", "atom", "none", None), None, n1), (("pw",), None, n2)]))], v)
        one([("expr", ("match", va, [(("pw",), None, n1)]))], v)
        one([("asg", "y", [], ("match", va, [(("pl", "str", "s", None), None, n1), (("pl", "bool", True, None), None, n2), (("pw",), None, n1)]))], v)
        one([("expr", ("compr", False, ("term", va, [("mul", n2)]), [("gen", ("pv", "a", None), vb)]))], v)
        one([("expr", ("compr", False, va, [("gen", ("pv", "a", None), vb), ("filt", ("term", va, [("gt", n2)]))]))], v)
        one([("expr", ("compr", False, vb, [("gen", ("pv", "a", None), ("var", "s", None)), ("let", "b", None, ("term", va, [("mul", n2)]))]))], v)
        one([("expr", ("compr", True, ("term", va, [("mul", n2)]), [("gen", ("pv", "a", None), ("mat", [[n1, n2, n1]]))]))], v)
        one([("def", False, "q", None, ("compr", False, ("tup", [va, vb]), [("gen", ("pv", "a", None), ("var", "s", None)), ("gen", ("pv", "b", None), ("var", "t", None))]))], v)
    return out


def fixed_fsm_cases(rng):
    """the state machines of docs/reference/state-machine.mec and tests/interpreter.rs as trees, plus corner cases"""
    u = lambda s: ("lit", "num", s, None)
    V = lambda x: ("var", x, None)
    fe = lambda e: ("fe", e)
    S = lambda n, *ps: ("fs", n, [(p if isinstance(p, tuple) and p and p[0] in ("fw", "fe", "ft", "fs", "fa") else fe(p)) for p in ps])
    k64 = ("ks", "u64"); km64 = ("km", "u64", [])
    gt = lambda a, b: ("term", a, [("gt", b)]); eq = lambda a, b: ("term", a, [("eq", b)]); lt = lambda a, b: ("term", a, [("lt", b)])
    sub = lambda a, b: ("term", a, [("sub", b)]); add = lambda a, b: ("term", a, [("add", b)])
    n, a, b = V("n"), V("a"), V("b")
    out = []
    def one(st, v=0.0): out.append(model_case(st, rng, v, "model-fsm-fixed"))
    counter = [
        ("fsmspec", "Counter", [("n", k64)], k64, [("Count", [("n", k64)]), ("Done", [("n", k64)])]),
        ("fsmimpl", "Counter", [("n", k64)], S("Count", n),
         [("garm", S("Count", n), [(fe(gt(n, u("0u64"))), [("next", S("Count", sub(n, u("1u64"))))]),
                                    (fe(eq(n, u("0u64"))), [("next", S("Done", u("0u64")))])]),
          ("arm", S("Done", n), [("out", fe(n))])]),
        ("expr", ("fsm", "Counter", [(None, u("5u64"))]))]
    fib = [
        ("fsmspec", "Fibonacci", [("n", k64)], k64, [("Compute", [("n", k64), ("a", k64), ("b", k64)]), ("Done", [("n", k64)])]),
        ("fsmimpl", "Fibonacci", [("n", k64)], S("Compute", n, u("0u64"), u("1u64")),
         [("garm", S("Compute", n, a, b), [(fe(gt(n, u("0u64"))), [("next", S("Compute", sub(n, u("1u64")), b, add(a, b)))]),
                                            (fe(eq(n, u("0u64"))), [("next", S("Done", a))])]),
          ("arm", S("Done", n), [("out", fe(n))])]),
        ("expr", ("fsm", "Fibonacci", [(None, u("10u64"))]))]
    door = [
        ("fsmspec", "Door", [("n", k64)], k64, [("Closed", [("n", k64)]), ("Open", [("n", k64)]), ("Locked", [("n", k64)])]),
        ("fsmimpl", "Door", [("n", k64)], S("Closed", n),
         [("arm", S("Closed", n), [("next", S("Locked", n))]), ("arm", S("Locked", n), [("next", S("Open", n))]), ("arm", S("Open", n), [("out", fe(n))])]),
        ("expr", ("fsm", "Door", [(None, u("1u64"))]))]
    arr, acc, swaps, tail, x = V("arr"), V("acc"), V("swaps"), V("tail"), V("x")
    pv = lambda nm: ("pv", nm, None)
    A = lambda pre, tl=("none", []): ("fa", pre, tl)
    bubble = [
        ("fsmspec", "bubble-sort", [("arr", km64)], km64,
         [("Start", [("arr", km64)]), ("Pass", [("arr", km64), ("acc", km64), ("swaps", k64)]), ("Next", [("arr", km64), ("swaps", k64)]),
          ("Reverse", [("arr", km64), ("acc", km64), ("swaps", k64)]), ("Done", [("arr", km64)])]),
        ("fsmimpl", "bubble-sort", [("arr", None)], S("Start", arr),
         [("arm", S("Start", arr), [("next", S("Pass", arr, A([]), u("0u64")))]),
          ("garm", S("Pass", A([pv("a"), pv("b")], ("rest", [pv("tail")])), acc, swaps),
           [(fe(gt(a, b)), [("next", S("Pass", A([pv("a"), pv("tail")]), A([pv("b"), pv("acc")]), add(swaps, u("1u64"))))]),
            (("fw",), [("next", S("Pass", A([pv("b"), pv("tail")]), A([pv("a"), pv("acc")]), swaps))])]),
          ("arm", S("Pass", A([pv("x")]), acc, swaps), [("next", S("Next", A([pv("x"), pv("acc")]), swaps))]),
          ("arm", S("Pass", A([]), acc, swaps), [("next", S("Next", acc, swaps))]),
          ("arm", S("Next", arr, swaps), [("next", S("Reverse", arr, A([]), swaps))]),
          ("arm", S("Reverse", A([pv("x")], ("rest", [pv("tail")])), acc, swaps), [("next", S("Reverse", tail, A([pv("x"), pv("acc")]), swaps))]),
          ("arm", S("Reverse", A([]), acc, u("0u64")), [("next", S("Done", acc))]),
          ("arm", S("Reverse", A([]), acc, swaps), [("next", S("Pass", acc, A([]), u("0u64")))]),
          ("arm", S("Done", arr), [("out", fe(arr))])]),
        ("def", False, "y", None, ("fsm", "bubble-sort", [(None, x)]))]
    vec = [
        ("fsmimpl", "VecFsm", [("n", k64)], S("Scan", A([("pl", "num", "1u64", None), ("pl", "num", "2u64", None), ("pl", "num", "3u64", None)])),
         [("arm", S("Scan", A([pv("x")], ("spread", [pv("y")]))), [("next", S("Done", add(x, V("y"))))]),
          ("arm", S("Start", A([pv("x")], ("spread", []))), [("next", S("Done", x))]),
          ("arm", S("Done", V("out")), [("out", fe(V("out")))])])]
    lo, hi = V("lo"), V("hi")
    clamp = [
        ("fsmimpl", "Clamp", [("n", k64), ("lo", k64), ("hi", k64)], S("Check", n, lo, hi),
         [("garm", S("Check", n, lo, hi), [(fe(lt(n, lo)), [("next", S("Done", lo))]), (fe(gt(n, hi)), [("next", S("Done", hi))]),
                                            (fe(n), [("next", S("Done", n))])]),
          ("arm", S("Done", V("out")), [("out", fe(V("out")))])])]
    corner = [
        [("fsmspec", "A", [], None, [("T", None)])],
        [("fsmspec", "A", [("x", None)], ("ks", "u8"), [("S", None), ("T", [("x", None)])])],
        [("fsmimpl", "A", [], fe(("lit", "atom", "S", None)), [("arm", fe(("lit", "atom", "S", None)), [("next", fe(("lit", "atom", "T", None)))]),
                                                               ("arm", fe(("lit", "atom", "T", None)), [("out", fe(u("1")))])])],
        [("fsmimpl", "A", [("x", None)], fe(x), [("arm", fe(x), [("next", ("ft", [fe(x), fe(u("1"))]))]), ("arm", ("ft", [fe(a), fe(b)]), [("out", fe(a))])])],
        [("fsmimpl", "A", [("x", None)], S("S", x), [("garm", S("S", x), [(fe(gt(x, u("0"))), [("out", fe(x))])]), ("arm", S("T", x), [("out", fe(x))])])],
        [("fsmimpl", "A", [("x", None)], S("S", x), [("arm", S("S", x), [("next", S("T", x)), ("out", fe(x))]), ("garm", S("T", x), [(fe(gt(x, u("0"))), [("out", fe(x))])])])],
        [("fsmimpl", "A", [("x", None)], S("S", x), [("garm", S("S", x), [(fe(gt(x, u("0"))), [("next", S("T", x)), ("out", fe(x))]), (("fw",), [("async", S("S", x))])]),
                                                     ("garm", S("T", ("fw",)), [(fe(gt(x, u("0"))), [("out", fe(x))]), (fe(lt(x, u("0"))), [("out", fe(u("0")))]), (("fw",), [("out", fe(u("1")))])])])],
        [("expr", ("fsm", "A", None))], [("expr", ("fsm", "A", []))], [("def", True, "y", ("ks", "u8"), ("fsm", "A", [("x", u("1")), (None, u("2"))]))],
        [("expr", ("mat", [[("fsm", "A", [(None, u("1"))]), ("fsm", "B", None)]]))], [("expr", ("call", "f", [(None, ("fsm", "A", [(None, u("1"))])), (None, u("2"))]))],
        [("expr", ("set", [("fsm", "A", [(None, u("1"))]), u("2")]))], [("expr", ("tup", [("fsm", "A", [(None, u("1"))]), u("2")]))],
        [("expr", ("rec", [("a", None, ("fsm", "A", [(None, u("1"))]))]))], [("expr", ("map", [(("lit", "str", "k", None), ("fsm", "A", [(None, u("1"))]))]))],
        [("expr", ("tups", "ok", ("fsm", "A", [(None, u("1"))])))], [("asg", "x", [], ("fsm", "A", [(None, u("1"))]))], [("opasg", [], "x", "add", ("fsm", "A", [(None, u("1"))]))],
    ]
    for v in (0.0, 1.0):
        for st in (counter, fib, door, bubble, vec, clamp): one(st, v)
        for st in corner: one(st, v)
    if GUARDASSIGN:
        for v in (0.0, 1.0):
            one([("fsmimpl", "A", [("x", None)], S("S", x), [("garm", S("T", x), [(fe(gt(V("z"), u("1"))), [("next", fe(V("A"))), ("out", fe(u("1")))]), (("fw",), [("out", fe(u("1")))])])])], v)
            one([("fsmimpl", "A", [("x", None)], S("S", x), [("garm", S("T", x), [(fe(gt(V("z"), u("1"))), [("next", fe(("slice", "A", [("brk", [u("1")])]))), ("out", fe(u("1"))), ("next", fe(V("A"))), ("out", fe(u("2")))])])])], v)
    if ARRWILD:
        for v in (0.0, 1.0):
            one([("fsmimpl", "A", [("x", None)], S("S", x), [("arm", S("S", A([pv("a"), ("pw",), pv("b")])), [("out", fe(a))])])], v)
            one([("def", False, "y", None, ("match", x, [(("pa", [pv("a"), ("pw",), pv("b")], ("none", [])), None, u("1")), (("pw",), None, u("2"))]))], v)
            one([("def", False, "y", None, ("match", x, [(("pa", [pv("a"), ("pw",)], ("rest", [pv("t")])), None, u("1")), (("pw",), None, u("2"))]))], v)
    return out


# ---------------------------------------------------------------------------------------------- whole grammar (diff)
def diff_case(src, stream, what=""):
    return dict(sx="(diff)", impl=dict(src=src), tags=dict(stream=stream, what=what) if what else dict(stream=stream))


def gen_items(rng):
    """grammar-based items outside the modelled subset; every item is (name, text)"""
    g = G(rng, clean=True); rr = R(rng, 0.0)
    E = lambda d=1: rr.e(g.expr(d))
    F = lambda d=1: rr.e(g.formula(d))
    V = lambda: rng.choice(IDENTS)
    K = lambda: rng.choice(KINDS)
    N = lambda: str(rng.choice([0, 1, 2, 3, 10, 42]))
    items = []
    def add(name, text): items.append((name, text))
    add("enum", "<%s> := %s" % (V(), " | ".join(":" + a + (("<%s>" % K()) if rng.random() < 0.4 else "") for a in rng.sample(ATOMS, rng.choice([1, 2, 3])))))
    add("kind-define", "<%s> := <%s>" % (rng.choice(["T", "meters", "point"]), K()))
    add("kind-option", "%s<%s?> := %s" % (V(), K(), E()))
    add("kind-set", "%s<{%s}> := %s" % (V(), K(), E()))
    add("kind-map", "%s<{%s:%s}> := %s" % (V(), K(), K(), E()))
    add("kind-tuple", "%s<(%s,%s)> := %s" % (V(), K(), K(), E()))
    add("kind-record", "%s<{a<%s>,b<%s>}> := %s" % (V(), K(), K(), E()))
    add("kind-table", "%s<|a<%s> b<%s>|> := %s" % (V(), K(), K(), E()))
    add("kind-any", "%s<*> := %s" % (V(), E()))
    add("kind-kind", "%s<<%s>> := %s" % (V(), K(), E()))
    add("kind-atom", "%s<:%s> := %s" % (V(), rng.choice(ATOMS), E()))
    add("tuple-destructure", "(%s, %s) := %s" % ("p", "q", E()))
    add("function-arms", "%s(x<%s>, n<%s>) => <%s>\n  ├ (*, %s) => %s\n  └ (x, n) => %s." % (rng.choice(["power", "fz"]), K(), K(), K(), N(), F(), F()))
    add("function-arms1", "fact(n<u64>) => <u64>\n  ├ 0u64 => 1u64\n  └ n => n * fact(n - 1u64).")
    add("function-bar-arms", "g2(n<u64>) => <u64>\n  | 0 => %s\n  | n => %s." % (F(), F()))
    add("function-stmts", "f3(x<f64>) = y<f64> :=\n  y := %s." % F())
    add("function-stmts-many", "f4(x<f64>) = y<f64> :=\n  z := %s\n  w := z * 2\n  y := w + x." % F())
    add("function-stmts-match", "f5(x<u64>) = y<u64> :=\n  z := x + 1\n  y := z?\n    ├ 0 ⇒ %s\n    └ * ⇒ %s.." % (N(), N()))
    add("function-stmts-string", 'f6(x<u64>) = y<string> :=\n  y := "%s\n%s".' % (rng.choice(["Hello", "a b", ""]), rng.choice(["World", "  two", "x"])))
    add("function-stmts-rawstring", 'f7(x<u64>) = y<string> :=\n  y := """%s\n%s""".' % (rng.choice(["Hello", "a b"]), rng.choice(["World", "  two"])))
    add("multiline-string-in-matrix", '%s := ["a\nb" "c"]' % V())
    add("match", "%s := %s?\n  | %s => %s\n  | * => %s." % (V(), V(), N(), F(), F()))
    add("match-guard", "%s := %s?\n  | v, v > %s => %s\n  | * => %s." % (V(), V(), N(), F(), F()))
    add("match-array", "%s := %s?\n  | [] => 0\n  | [h ...] => h\n  | * => %s." % (V(), V(), N()))
    add("fsm", "#Cnt(n<u64>) => <u64>\n  ├ :Count(n<u64>)\n  └ :Done(n<u64>).\n\n#Cnt(n<u64>) -> :Count(n)\n  :Count(n)\n    ├ n > 0u64 -> :Count(n - 1u64)\n    └ n == 0u64 -> :Done(0u64)\n  :Done(n) => n.\n\n#Cnt(%su64)" % N())
    add("fsm-impl-only", "#Door(n<u64>) -> :Closed(n)\n  :Closed(n) -> :Open(n)\n  :Open(n) => n.")
    add("fsm-call", "#Cnt(%s)" % N())
    add("set-comprehension", "{%s | x <- %s}" % (F(), V()))
    add("set-comprehension-filter", "{x | x <- %s, x > %s}" % (V(), N()))
    add("set-comprehension-let", "{y | x <- %s, y := x * %s}" % (V(), N()))
    add("matrix-comprehension", "[x * %s | x <- [%s %s %s]]" % (N(), N(), N(), N()))
    add("table", "%s := | a<%s> b<%s> | %s %s | %s %s |" % (V(), K(), K(), N(), N(), N(), N()))
    add("table-multiline", "%s := | x<%s>  y<%s> |\n     | %s %s |\n     | %s %s |" % (V(), K(), K(), N(), N(), N(), N()))
    add("map", '%s := {"a": %s, "b": %s}' % (V(), E(), E()))
    add("map-empty", "%s := {:}" % V())
    add("tuple-struct", "%s := :%s(%s)" % (V(), rng.choice(ATOMS), E()))
    add("comment-line", "-- %s\n%s := %s" % (rng.choice(["a comment", "note: x", "TODO"]), V(), E()))
    add("comment-slash", "// %s\n%s := %s" % ("slash comment", V(), E()))
    add("comment-trailing", "%s := %s -- %s" % (V(), E(), "trailing words"))
    add("sci-literal", "%s := %s" % (V(), rng.choice(["1e3", "1.5e3", "2.5E-3", "1.0e+10", "6.02e23<f64>"])))
    add("sci-literal-fraction", "%s := %s" % (V(), rng.choice(["1e-2.5", "2.5E-0.5", "1e2.5", "2.5E+0.5", "7.25e-10.75"])))
    add("sci-literal-in-formula", "%s := [%s %s] * 2" % (V(), rng.choice(["1e-1.5", "3e-2", "1.5e-3"]), rng.choice(["2.5E-0.5", "1e3", "4e-0.25"])))
    add("complex-neg", "%s := %s" % (V(), rng.choice(["1-2i", "3.5-0.5i", "-2i"])))
    add("float-leading-dot", "%s := .5" % V())
    add("string-escape", '%s := "%s"' % (V(), rng.choice(["a\\nb", "q: \\\"x\\\"", "tab\\tx", "back\\\\slash"])))
    add("string-raw", '%s := """%s"""' % (V(), rng.choice(["C:\\Users\\x", 'say "hi"', "plain"])))
    add("string-multiline", '%s := "line one\nline two"' % V())
    add("swizzle", "%s := %s.%s" % (V(), V(), ",".join(rng.sample(FIELDS, rng.choice([2, 3])))))
    add("dot-int", "%s := %s.%s" % (V(), V(), rng.choice(["1", "2"])))
    add("brace-subscript", '%s := %s{%s}' % (V(), V(), E(0)))
    add("empty-literal", "%s := _" % V())
    add("tuple-one", "%s := (%s,)" % (V(), E(0)))
    add("paren-range", "%s := (%s..%s)" % (V(), N(), N()))
    add("fancy-matrix", "%s := ┏       ┓\n     ┃ 1   2 ┃\n     ┃ 3   4 ┃\n     ┗       ┛" % V())
    add("stmt-semicolons", "%s := %s; %s := %s" % (V(), E(), V(), E()))
    add("kind-literal", "%s := <%s>" % (V(), K()))
    add("kind-membership", "%s ∈ <%s>" % (N(), K()))
    add("emoji-ident", "😀 := %s" % E(0))
    add("bool-marks", "%s := %s" % (V(), rng.choice(["✓", "✗"])))
    # Mechdown
    W = lambda: rng.choice(["Hello world.", "Some text here.", "A paragraph with several words in it.", "Numbers 1 2 3 and symbols + - ok."])
    add("md-paragraph", W())
    add("md-two-paragraphs", W() + "\n\n" + W())
    add("md-title", "%s\n%s\n\n%s" % (rng.choice(["My Title", "Design Notes"]), "=" * rng.choice([5, 20, 79]), W()))
    add("md-subtitle", "Doc\n===\n\n1. %s\n%s\n\n%s" % (rng.choice(["Section One", "Usage"]), "-" * rng.choice([5, 30, 79]), W()))
    add("md-subsubtitle", "(1.1) Sub section\n\n%s" % W())
    add("md-inline-strong", "Hello **bold** and *em* text.")
    add("md-inline-code", "Use `code` here.")
    add("md-inline-code-escape", "The `\\\\` operator and a tab `\\\\t`.")
    add("md-figure-table", "| ![caption a](img1.jpg) | ![caption b](img2.jpg) |")
    add("md-inline-strike", "Hello ~strike~ text.")
    add("md-inline-underline", "Hello __under__ text.")
    add("md-inline-highlight", "Hello !!high!! text.")
    add("md-inline-link", "See [link](http://x.y/z) now.")
    add("md-inline-rawlink", "See http://example.com now.")
    add("md-inline-equation", "Text with $$x^2$$ math.")
    add("md-inline-eval", "Text with {%s} inline." % F(0))
    add("md-inline-mech", "Text with {{%s}} inline." % F(0))
    add("md-inline-footnote", "Footnote ref[^1] here.\n\n[^1]: The note.")
    add("md-inline-sectionref", "Text §1.2 ref.")
    add("md-inline-citation", "Ref [1] here.\n\n[1]: Some citation.")
    add("md-abstract", "%%%% %s" % W())
    for sig, nm in [(">", "quote"), ("(i)>", "info"), ("(?)>", "question"), ("(!)>", "warning"), ("(x)>", "error"), ("(+)>", "success"), ("(*)>", "idea")]:
        add("md-callout-" + nm, "%s %s" % (sig, W()))
    add("md-prompt", ">: %s" % W())
    add("md-list-unordered", "- item one\n- item two\n- item three")
    add("md-list-ordered", "1. first\n2. second")
    add("md-list-check", "- [x] done\n- [ ] todo")
    add("md-list-nested", "- a\n  - b\n  - c\n- d")
    add("md-hr", W() + "\n\n***\n\n" + W())
    add("md-code-block", "```\nraw code\n  more\n```")
    add("md-code-block-lang", "```python\nprint(1)\n```")
    add("md-fence-mech", "```mech\n%s := %s\n```" % (V(), E()))
    add("md-fence-mech-disabled", "```mech:disabled\n%s := %s\n```" % (V(), E()))
    add("md-fence-mech-ns", "```mech:ns1\n%s := %s\n```" % (V(), E()))
    add("md-equation", "$$ x^2 + y^2")
    add("md-diagram", "```mermaid\ngraph TD; A-->B;\n```")
    add("md-image", "![caption text](img.png)")
    add("md-table", "| a | b |\n|---|---|\n| 1 | 2 |")
    add("md-table-align", "| a | b |\n|:--|--:|\n| 1 | 2 |")
    add("md-code-then-prose", "%s := %s\n\n%s\n\n%s := %s" % (V(), E(), W(), V(), E()))
    add("md-float", "<< %s" % W())
    add("md-mika", "╭⦿╯")
    return items


# seed corpus ---------------------------------------------------------------------------------------------------
def rust_strings(path):
    try: txt = open(path, encoding="utf-8").read()
    except OSError: return []
    out = []
    for m in re.finditer(r'test_interpreter!\(\s*(\w+)\s*,\s*', txt):
        i = m.end()
        try:
            if txt.startswith('r#"', i):
                j = txt.index('"#', i + 3); out.append(txt[i + 3:j])
            elif txt.startswith('r"', i):
                j = txt.index('"', i + 2); out.append(txt[i + 2:j])
            elif txt[i] == '"':
                j = i + 1; buf = []
                while txt[j] != '"':
                    if txt[j] == '\\':
                        c = txt[j + 1]
                        if c in 'ntr"\\': buf.append({'n': '\n', 't': '\t', 'r': '\r', '"': '"', '\\': '\\'}[c]); j += 2
                        elif c == '\n':
                            j += 2
                            while txt[j] in ' \t\n': j += 1
                        elif c == 'u':
                            k = txt.index('}', j); buf.append(chr(int(txt[j + 3:k], 16))); j = k + 1
                        else: buf.append(c); j += 2
                    else: buf.append(txt[j]); j += 1
                out.append("".join(buf))
        except (ValueError, IndexError):
            continue
    return out


def mec_files():
    res = []
    for root in [(_REPO_ROOT + "/docs"), (_REPO_ROOT + "/examples"), (_REPO_ROOT + "/tests"), (_REPO_ROOT + "/machines"), (_REPO_ROOT + "/mika")]:
        for d, _, fs in os.walk(root):
            for f in fs:
                if f.endswith(".mec"): res.append(os.path.join(d, f))
    return sorted(res)


def corpus_programs():
    seen = set(); out = []
    def add(kind, s):
        if s.strip() and s not in seen and len(s) < 60000:
            seen.add(s); out.append((kind, s))
    for s in rust_strings((_REPO_ROOT + "/tests/interpreter.rs")): add("corpus-test", s)
    for f in mec_files():
        try: t = open(f, encoding="utf-8").read().replace("\r\n", "\n")
        except (OSError, UnicodeDecodeError): continue
        add("corpus-file", t)
        for m in re.finditer(r'```(mech[^\n]*)?\n(.*?)\n```', t, re.S):
            b = m.group(2)
            add("corpus-block", b)
            if m.group(1):
                for line in b.split("\n"):
                    if line.strip() and not line.startswith((" ", "\t", "|", "├", "└")): add("corpus-line", line.rstrip())
        for para in re.split(r'\n\s*\n', t):
            if 0 < len(para) < 400 and "```" not in para: add("corpus-para", para)
    return out


def generate(tier, rng):
    quick = tier == "quick"
    for c in fixed_model_cases(rng): yield c
    # modelled subset: clean trees (the formatter is expected to be right), canonical and varied source
    for i in range(450 if quick else 8000):
        g = G(rng, clean=True)
        stmts = [g.stmt(rng.choice([1, 1, 2, 2, 3])) for _ in range(rng.choice([1, 1, 2, 3]))]
        yield model_case(stmts, rng, 0.0 if i % 2 else 0.4, "model-clean")
    # modelled subset: everything, including the constructs of the known defect classes
    for i in range(350 if quick else 8000):
        g = G(rng, clean=False, jagged_p=0.08)
        stmts = [g.stmt(rng.choice([1, 1, 2, 2, 3])) for _ in range(rng.choice([1, 1, 2, 3, 4]))]
        yield model_case(stmts, rng, 0.0 if i % 2 else 0.4, "model-all")
    # second-round subset: maps, tuple-structs, tables, comments, enums, function definitions with arms, match, comprehensions
    for c in fixed_ext_cases(rng): yield c
    for i in range(600 if quick else 10000):
        g = G(rng, clean=(i % 3 != 2), ext=True, jagged_p=0.0)
        if i % 3 == 0: stmts = [g.stmt2(rng.choice([1, 2, 2, 3]))]
        else: stmts = [(g.stmt2 if rng.random() < 0.6 else g.stmt)(rng.choice([1, 2, 2])) for _ in range(rng.choice([1, 2, 3]))]
        yield model_case(stmts, rng, 0.0 if i % 2 else 0.4, "model-ext")
    # third-round subset: state machines (specification, implementation, instance expressions)
    for c in fixed_fsm_cases(rng): yield c
    for i in range(500 if quick else 9000):
        g = G(rng, clean=(i % 3 != 2), ext=((i // 2) % 2 == 0), fsm=True)
        t = i % 4
        if t < 2: stmts = g.fsm_prog(rng.choice([1, 1, 2]))
        elif t == 2: stmts = [g.fsm_impl()] if rng.random() < 0.7 else [g.fsm_spec()]
        else: stmts = [g.stmtF(rng.choice([1, 2, 2])) for _ in range(rng.choice([1, 2, 3]))]
        yield model_case(stmts, rng, 0.0 if i % 2 else 0.4, "model-fsm")
    # whole grammar, grammar-based: every item alone, then combinations of two or three items in one program
    for rep in range(3 if quick else 40):
        items = gen_items(rng)
        for name, text in items: yield diff_case(text, "diff-item", name)
        for _ in range(60 if quick else 200):
            pick = rng.sample(items, rng.choice([2, 2, 3]))
            yield diff_case("\n\n".join(t for _, t in pick), "diff-combo", "+".join(n for n, _ in pick))
    # seed corpus (quick: a sample; big files are slow in the dev-profile parser)
    corpus = corpus_programs()
    if quick:
        quota = {"corpus-test": 220, "corpus-file": 25, "corpus-block": 200, "corpus-line": 200, "corpus-para": 200}
        by = {}
        for kind, s in corpus: by.setdefault(kind, []).append(s)
        corpus = []
        for kind in sorted(by):
            pool = [s for s in by[kind] if len(s) < 7000]
            for s in rng.sample(pool, min(quota.get(kind, 100), len(pool))): corpus.append((kind, s))
    else:
        corpus = [(k, s) for k, s in corpus if not (s.startswith("Math Unit Tests") or len(s) > 40000)]
    for kind, s in corpus:
        yield diff_case(s, kind)


def shrink(case):
    """drop statements (model cases) or lines/paragraphs (diff cases)"""
    out = []
    src = case["impl"]["src"]
    if case["sx"].startswith("(diff"):
        parts = src.split("\n\n")
        if len(parts) > 1:
            for i in range(len(parts)):
                out.append(dict(sx="(diff)", impl=dict(src="\n\n".join(parts[:i] + parts[i + 1:])), tags=case.get("tags", {})))
        else:
            lines = src.split("\n")
            if len(lines) > 1:
                for i in range(len(lines)):
                    out.append(dict(sx="(diff)", impl=dict(src="\n".join(lines[:i] + lines[i + 1:])), tags=case.get("tags", {})))
    return out
