"""C04 — indexed assignment changes exactly the addressed elements: generator of assignment sessions.

One case = one interpreter session:  `~x<[k]:r,c> := [...]` followed by 1-6 statements
`x[...] (=|+=|-=|*=|/=) source` (and some reads `x[...]` of the index just written).
The case S-expression (model side) is
  (c04 <kind> <rows> <cols> (<payload>*) (<stmt>*))
  stmt   := (asg <set|add|sub|mul|div> <target> <source>) | (read <target>)
  target := (w) | (i1 <ix>) | (i2 <ix> <ix>)
  ix     := (s z) | (v z*) | (r a b)   [a..b, b exclusive] | (all) | (m 0|1 *)
  source := (sc <kind> <payload>) | (vec <kind> r|c (<payload>*))
"""
from fractions import Fraction
from vlib import mechsrc as ms
from vlib.core import sx

PROP = "C04"
MODE = "session"
RULE = ("sessions `~x<[k]:r,c> := ...; stmt1; ...; stmt6` over shapes 1x1..4x4, 1x7, 6x1, 5x3 (thorough: more), all 16 kinds "
        "rotating; statements x[ix] / x[ix,ix] / x with op in {=,+=,-=,*=,/=}; ix in {scalar, vector, range (exclusive and "
        "inclusive), :, mask} in each position incl. 0, n+1, out-of-range elements at the first/middle/last place, masks that "
        "are too long / too short; sources: scalar of the same kind, scalar of another kind, row/column vectors of the right, "
        "shorter and longer length; reads of the index just written.  non-trivial = distinct session with at least one binding "
        "statement whose expected outcome is a new value")
ASSUMPTIONS = [
    "values restricted to |int| < 2^53 and short dyadic floats so that the literal syntax denotes them exactly (C13 covers literals); "
    "negative typed literals avoid the minimum of the kind",
    "op-assign is binding only where the exact result is representable (integers in range, integer division only when divisible, "
    "floats/rationals/complex only when every intermediate is exact); everything else is advisory",
    "error kinds/messages are not compared (one Err token); the value returned by an assignment statement is not compared, "
    "only the variable afterwards",
    "shapes of read results belong to C03; reads compare kind and element list only",
]
TRIVIAL_TAGS = ["error"]
STALL = 120.0

KINDS = ms.ALL_KINDS
OPS = ["set", "add", "sub", "mul", "div"]
OPTXT = {"set": "=", "add": "+=", "sub": "-=", "mul": "*=", "div": "/="}
SHAPES = [(r, c) for r in range(1, 5) for c in range(1, 5)] + [(1, 7), (6, 1), (5, 3)]
SHAPES_MORE = [(2, 9), (7, 2), (1, 12), (9, 1), (6, 6)]



def pregen():
    """regenerate coq/theories/Gen/OpAssignArms.v from the current Rust source (translators/opassign_arms.py): the arm
    obligations of Props/C04.v (section on the op-assignment kernels) are stated over that table"""
    import os, sys
    from vlib import core
    sys.path.insert(0, os.path.join(core.ROOT, "translators"))
    import armlib
    return armlib.pregen(PROP, [("opassign_arms", "theories/Proofs/OpAssignKernelSemP.vo")])


# ---- values -----------------------------------------------------------------
def small_value(k, rng, nonzero=False):
    """small values so that sequences of op-assigns mostly stay exact and in range"""
    if k in ms.INT_KINDS:
        lo, hi = ms.kind_range(k)
        while True:
            v = rng.randint(max(lo + 1, -6), min(hi, 9))
            if not (nonzero and v == 0):
                return v
    if k in ("f64", "f32"):
        while True:
            v = float(rng.randint(-12, 12)) / rng.choice([1, 1, 2, 4])
            if not (nonzero and v == 0):
                return v
    if k == "r64":
        while True:
            v = Fraction(rng.randint(-9, 9), rng.randint(1, 6))
            if not (nonzero and v == 0):
                return v
    if k == "c64":
        while True:
            v = (float(rng.randint(0, 5)), float(rng.randint(-5, 5)))   # `-2+3i` is read as -(2+3i): keep re >= 0
            if not (nonzero and v == (0.0, 0.0)):
                return v
    return any_value_raw(k, rng)


def any_value_raw(k, rng):
    v = ms.sample_value(k, rng)
    if k == "c64":
        v = (abs(v[0]), v[1])
    return v


def any_value(k, rng):
    if k in ms.INT_KINDS:
        lo, hi = ms.kind_range(k)
        lo, hi = max(lo + 1, -(2 ** 53) + 1), min(hi, 2 ** 53 - 1)
        if rng.random() < 0.4:
            return rng.choice([0, 1, hi, hi - 1, lo, hi // 2])
        return rng.randint(max(lo, -1000), min(hi, 1000))
    if rng.random() < 0.5:
        return small_value(k, rng)
    return any_value_raw(k, rng)


def lit(k, v):
    if k in ms.INT_KINDS:
        return "%d<%s>" % (v, k)
    if k == "f32":
        return ms.fmt_float(v) + "<f32>"
    if k == "r64":
        v = Fraction(v)
        return "%d/%d" % (v.numerator, v.denominator)
    return ms.lit(k, v)


def other_kind(k, rng):
    """a source kind different from k: mostly one the matrix clearly cannot hold"""
    if k == "string":
        return rng.choice(["f64", "bool", "u8"])
    if k == "bool":
        return rng.choice(["f64", "string", "i32"])
    return rng.choice(["string", "bool", "string", "bool"] + [q for q in ("u8", "f64", "i64", "r64", "f32") if q != k])


# ---- index forms ------------------------------------------------------------
def ix_text(ix):
    t = ix[0]
    if t == "s":
        return str(ix[1])
    if t == "v":
        return "[" + " ".join(str(z) for z in ix[1:]) + "]"
    if t == "r":
        a, b, incl = ix[1], ix[2], ix[3]
        return "%d..=%d" % (a, b - 1) if incl else "%d..%d" % (a, b)
    if t == "all":
        return ":"
    if t == "m":
        return "[" + " ".join("true" if b else "false" for b in ix[1:]) + "]"
    raise ValueError(ix)


def ix_sx(ix):
    if ix[0] == "r":
        return ["r", ix[1], ix[2]]
    if ix[0] == "m":
        return ["m"] + [1 if b else 0 for b in ix[1:]]
    return list(ix)


def ix_positions(ix, n):
    """0-based positions or None when not (cleanly) valid"""
    t = ix[0]
    if t == "s":
        return [ix[1] - 1] if 1 <= ix[1] <= n else None
    if t == "v":
        return [z - 1 for z in ix[1:]] if all(1 <= z <= n for z in ix[1:]) else None
    if t == "r":
        l = list(range(ix[1], ix[2]))
        return [z - 1 for z in l] if l and all(1 <= z <= n for z in l) else None
    if t == "all":
        return list(range(n))
    if t == "m":
        return [i for i, b in enumerate(ix[1:]) if b] if len(ix) - 1 == n else None


def gen_ix(n, rng, flavour):
    """flavour: 'ok' in range; 'oob' some out-of-range variant; 'odd' degenerate (singleton vector, short mask ...)"""
    forms = ["s", "v", "r", "all", "m"]
    f = rng.choice(forms)
    if flavour == "ok":
        if f == "s":
            return ("s", rng.choice([1, n, rng.randint(1, n)]))
        if f == "v":
            if n == 1:
                return ("s", 1)
            k = rng.randint(2, min(n, 4))
            if rng.random() < 0.85:
                return ("v",) + tuple(rng.sample(range(1, n + 1), k))
            return ("v",) + tuple(rng.randint(1, n) for _ in range(k))       # repeats
        if f == "r":
            if n < 2:
                return ("all",)
            a = rng.randint(1, n - 1)
            b = rng.randint(a + 2, n + 1)
            return ("r", a, b, rng.random() < 0.5)
        if f == "all":
            return ("all",)
        if n < 2:
            return ("s", 1)
        m = [rng.random() < 0.5 for _ in range(n)]
        if rng.random() < 0.1:
            m = [False] * n
        return ("m",) + tuple(m)
    if flavour == "oob":
        if f == "s" or f == "all":
            return ("s", rng.choice([0, n + 1, n + 2]))
        if f == "v":
            k = rng.randint(2, 4)
            l = [rng.randint(1, n) for _ in range(k)]
            l[rng.randrange(k)] = rng.choice([0, n + 1, n + 3])
            return ("v",) + tuple(l)
        if f == "r":
            if rng.random() < 0.3:
                return ("r", 0, rng.randint(2, n + 1), rng.random() < 0.5)
            a = rng.randint(1, n)
            return ("r", a, n + rng.randint(2, 3), rng.random() < 0.5)
        m = [rng.random() < 0.5 for _ in range(n)] + [True] + [rng.random() < 0.5 for _ in range(rng.randint(0, 1))]
        return ("m",) + tuple(m)
    # odd
    c = rng.random()
    if c < 0.25:
        return ("v", rng.randint(1, n))                      # one-element vector
    if c < 0.45:
        a = rng.randint(1, n)
        return ("r", a, a + 1, rng.random() < 0.5)          # one-element range
    if c < 0.6 and n >= 2:
        return ("m",) + tuple(rng.random() < 0.6 for _ in range(n - 1))     # short mask
    if c < 0.75:
        return ("m",) + tuple([rng.random() < 0.6 for _ in range(n)] + [False])   # long mask, false tail
    if c < 0.85:
        a = rng.randint(1, n)
        return ("r", a, a, False)                            # empty range
    return ("m",) + tuple([False] * n)


def gen_target(r, c, rng, op, vec_src):
    n = r * c
    u = rng.random()
    fl = "ok" if u < 0.72 else ("oob" if u < 0.9 else "odd")
    if op != "set" and rng.random() < 0.12:
        return ("w",)
    if vec_src or rng.random() < 0.45:
        return ("i1", gen_ix(n, rng, fl))
    # two positions: at most one of them is not ok
    if rng.random() < 0.5:
        return ("i2", gen_ix(r, rng, fl), gen_ix(c, rng, "ok" if rng.random() < 0.9 else "oob"))
    return ("i2", gen_ix(r, rng, "ok" if rng.random() < 0.9 else "oob"), gen_ix(c, rng, fl))


def target_text(t):
    if t[0] == "w":
        return "x"
    if t[0] == "i1":
        return "x[%s]" % ix_text(t[1])
    return "x[%s,%s]" % (ix_text(t[1]), ix_text(t[2]))


def target_sx(t):
    if t[0] == "w":
        return ["w"]
    return [t[0]] + [ix_sx(i) for i in t[1:]]


def target_positions(t, r, c):
    if t[0] == "w":
        return list(range(r * c))
    if t[0] == "i1":
        return ix_positions(t[1], r * c)
    ri, cj = ix_positions(t[1], r), ix_positions(t[2], c)
    if ri is None or cj is None:
        return None
    return [cc * r + rr for cc in cj for rr in ri]


# ---- a rough reference semantics, only used to choose good operands -----------
def apply_op(k, op, old, v):
    try:
        if op == "set":
            return v
        if k == "c64":
            a, b = complex(*old), complex(*v)
            z = {"add": a + b, "sub": a - b, "mul": a * b}.get(op)
            return (z.real, z.imag) if z is not None else None
        if k in ms.INT_KINDS:
            lo, hi = ms.kind_range(k)
            if op == "div":
                if v == 0 or old % v != 0:
                    return None
                z = old // v
            else:
                z = {"add": old + v, "sub": old - v, "mul": old * v}[op]
            return z if lo <= z <= hi else None
        a, b = Fraction(old), Fraction(v)
        if op == "div":
            if b == 0:
                return None
            z = a / b
        else:
            z = {"add": a + b, "sub": a - b, "mul": a * b}[op]
        if k in ("f64", "f32"):
            if z.denominator & (z.denominator - 1) or z.denominator > 2 ** 20 or abs(z) > 2 ** 22:
                return None
            return float(z)
        return z
    except Exception:
        return None


def choose_scalar(k, op, cur, pos, rng):
    """operand for an op-assign that keeps the addressed elements exact when possible"""
    if op == "div" and k in ms.INT_KINDS and pos:
        olds = [cur[p] for p in pos if 0 <= p < len(cur)]
        cands = [d for d in (1, 2, 3, -1, -2, 5) if (d > 0 or k[0] == "i") and all(o % d == 0 for o in olds)]
        if cands and rng.random() < 0.9:
            return rng.choice(cands)
    if op == "div" and k in ("f64", "f32"):
        return rng.choice([1.0, 2.0, -2.0, 4.0, 0.5, -0.25])
    if op == "mul" and k in ("f64", "f32"):
        return rng.choice([1.0, 2.0, -2.0, 0.5, 3.0, -1.0, 1.5])
    if op == "mul" and k in ms.INT_KINDS:
        return rng.choice([1, 2, 3] + ([-1, -2] if k[0] == "i" else []))
    if op == "sub" and k in ms.INT_KINDS and k[0] == "u" and pos:
        olds = [cur[p] for p in pos if 0 <= p < len(cur)]
        m = min(olds) if olds else 0
        if rng.random() < 0.85:
            return rng.randint(0, max(0, min(m, 9)))
    return small_value(k, rng, nonzero=(op == "div"))


# ---- forms that mech implements (used by the "clean" stream: whole sessions expected to bind) -----------
def comp_class(ix, n):
    t = ix[0]
    if t == "s":
        return "s"
    if t == "all":
        return "a"
    if t == "v":
        return "u" if len(ix) - 1 >= 2 else "bad"
    if t == "r":
        return "u" if ix[2] - ix[1] >= 2 else "bad"
    return "b" if len(ix) - 1 >= 2 else "bad"


def clean_stmt(k, r, c, op, t, vec, pos):
    """True when the statement is of a form mech handles as the property demands (in range), or fails at once"""
    numeric_op = k in ms.NUM_KINDS and k != "i128"
    if t[0] == "w":
        return op != "set" and numeric_op and not vec
    comps = [comp_class(t[1], r * c)] if t[0] == "i1" else [comp_class(t[1], r), comp_class(t[2], c)]
    if "bad" in comps:
        return False
    if pos is None:
        # only failures that happen before any element is written
        return (not vec) and op == "set" and all(x == "s" for x in comps)
    if len(set(pos)) != len(pos) and (vec or op != "set"):
        return False
    if vec:
        return t[0] == "i1" and comps[0] == "u" and (op == "set" or numeric_op)
    if op == "set":
        if t[0] == "i1":
            return True
        ci, cj = comps
        if (ci, cj) in (("a", "a"), ("b", "a"), ("u", "b")):
            return False
        if (ci, cj) == ("b", "u"):
            return k == "f64"
        if (ci, cj) == ("u", "a"):
            return k != "i128"
        return True
    if not numeric_op:
        return False
    if t[0] == "i1":
        return comps[0] == "u"
    return comps == ["u", "a"] and op != "div"


# ---- sessions ---------------------------------------------------------------
def make_session(k, r, c, rng, nst, tags, clean=False):
    n = r * c
    data = [small_value(k, rng) if k in ms.NUM_KINDS and rng.random() < 0.8 else any_value(k, rng) for _ in range(n)]
    cur = list(data)
    srcs = [ms.define_matrix("x", k, r, c, data, mutable=True)]
    stmts = []
    numeric = k in ms.NUM_KINDS
    last_target = None
    while len(stmts) < nst:
        if last_target is not None and rng.random() < 0.3:
            t = last_target
            last_target = None
            srcs.append(target_text(t))
            stmts.append(["read", target_sx(t)])
            continue
        op = "set" if (not numeric and rng.random() < 0.9) or rng.random() < 0.45 else rng.choice(OPS[1:])
        u = rng.random()
        vec_src = u < 0.25
        wrong_kind = 0.25 <= u < 0.35
        t = gen_target(r, c, rng, op, vec_src)
        if t[0] == "w" and op == "set":
            op = "add" if numeric else "set"
            if op == "set":
                t = ("i1", ("all",))
        pos = target_positions(t, r, c)
        if clean:
            if not clean_stmt(k, r, c, op, t, vec_src, pos):
                tries = tags.setdefault("_tries", 0) + 1
                tags["_tries"] = tries
                if tries < 400:
                    continue
        sk = other_kind(k, rng) if wrong_kind else k
        if vec_src:
            m = len(pos) if pos is not None else rng.randint(2, 4)
            v = rng.random() if not clean else 1.0
            if v < 0.15:
                m = max(0, m - rng.randint(1, 2))
            elif v < 0.3:
                m = m + rng.randint(1, 2)
            if t[0] == "i1" and t[1][0] == "m" and rng.random() < 0.4 and not clean:
                m = len(t[1]) - 1                                    # source as long as the mask
            m = max(m, 2)
            col = (c == 1 and r > 1) if rng.random() < 0.7 else rng.random() < 0.5
            vals = []
            for i in range(m):
                if sk == k and op != "set":
                    vals.append(choose_scalar(k, op, cur, [pos[i]] if pos is not None and i < len(pos) else [], rng))
                else:
                    vals.append(any_value(sk, rng) if op == "set" else small_value(sk, rng, nonzero=(op == "div")))
            stxt = "[" + ("; " if col else " ").join(lit(sk, v) for v in vals) + "]"
            ssx = ["vec", sk, "c" if col else "r", [ms.payload(sk, v) for v in vals]]
            newvals = vals
        else:
            if sk == k and op != "set":
                v = choose_scalar(k, op, cur, pos or [], rng)
            else:
                v = any_value(sk, rng) if op == "set" else small_value(sk, rng, nonzero=(op == "div"))
            stxt = lit(sk, v)
            ssx = ["sc", sk, ms.payload(sk, v)]
            newvals = None
        spos = [i for i in range(1, len(t)) if t[i][0] == "s"] if t[0] in ("i1", "i2") else []
        if spos and rng.random() < 0.12:
            # the statement is executed as a transition of a one-shot state machine and ONE scalar index component is the
            # machine's pattern variable `n` (a local environment) which shadows a global `n` of another value: every
            # index form must evaluate its components with the local bindings.  The model statement is unchanged.
            i = rng.choice(spos)
            parts = [ix_text(t[j]) if j != i else "n" for j in range(1, len(t))]
            nfsm = sum(1 for z in srcs if "#W" in z) + 1
            wrapped = ("" if any(z.startswith("n := 99") for z in srcs) else "n := 99\n") + (
                "#W%d(n<f64>) => <f64>\n  ├ :Go(n<f64>)\n  └ :Done(n<f64>).\n\n"
                "#W%d(n<f64>) -> :Go(n)\n  :Go(n)\n    ├ n > -100 -> x[%s] %s %s -> :Done(0)\n    └ * -> :Done(0)\n  :Done(n) => n.\n\n"
                "#W%d(%d)") % (nfsm, nfsm, ",".join(parts), OPTXT[op], stxt, nfsm, t[i][1])
            srcs.append(wrapped)
            tags["fsm_wrapped"] = tags.get("fsm_wrapped", 0) + 1
        else:
            srcs.append("%s %s %s" % (target_text(t), OPTXT[op], stxt))
        stmts.append(["asg", op, target_sx(t), ssx])
        # track the state roughly (only to pick operands)
        if pos is not None and sk == k and all(0 <= p < n for p in pos):
            if newvals is None or len(newvals) == len(pos):
                nxt = list(cur)
                ok = True
                for i, p in enumerate(pos):
                    z = apply_op(k, op, nxt[p], v if newvals is None else newvals[i])
                    if z is None:
                        ok = False
                        break
                    nxt[p] = z
                if ok:
                    cur = nxt
                    if t[0] != "w" and (t[0] == "i2" and t[1][0] == "s" and t[2][0] == "s" or
                                        t[0] == "i1" and t[1][0] in ("s", "v", "m")) and pos and not (t[1][0] in ("v", "m") and len(t[1]) < 3):
                        last_target = t
    tags.pop("_tries", None)
    case = ["c04", k, r, c, [ms.payload(k, v) for v in data], stmts]
    return dict(sx=sx(case), impl=dict(stmts=srcs), tags=tags)


# hand-written corpus of the behaviours seen by earlier ad-hoc probes (f64 default literals)
def fixed_cases():
    def f64m(r, c, vals):
        return [float(v) for v in vals]
    out = []
    def add(k, r, c, data, stmts, tag):
        srcs = [ms.define_matrix("x", k, r, c, data, mutable=True)]
        ssx = []
        for (op, t, src) in stmts:
            if op == "read":
                srcs.append(target_text(t)); ssx.append(["read", target_sx(t)]); continue
            if src[0] == "sc":
                stxt = lit(src[1], src[2]); s = ["sc", src[1], ms.payload(src[1], src[2])]
            else:
                stxt = "[" + ("; " if src[2] else " ").join(lit(src[1], v) for v in src[3]) + "]"
                s = ["vec", src[1], "c" if src[2] else "r", [ms.payload(src[1], v) for v in src[3]]]
            srcs.append("%s %s %s" % (target_text(t), OPTXT[op], stxt))
            ssx.append(["asg", op, target_sx(t), s])
        out.append(dict(sx=sx(["c04", k, r, c, [ms.payload(k, v) for v in data], ssx]), impl=dict(stmts=srcs),
                        tags=dict(stream="fixed", what=tag)))
    add("f64", 1, 3, [1.0, 2.0, 3.0], [("add", ("i1", ("s", 1)), ("sc", "f64", 5.0))], "opassign-scalar")
    add("f64", 1, 3, [15.0, 3.0, 3.0], [("set", ("i1", ("v", 1, 5)), ("sc", "f64", 7.0))], "partial-oob")
    add("f64", 1, 3, [1.0, 2.0, 3.0], [("set", ("i1", ("m", True, False, True, True)), ("sc", "f64", 7.0))], "long-mask")
    add("f64", 1, 4, [9.0, 9.0, 9.0, 9.0], [("add", ("w",), ("vec", "f64", False, [1.0, 1.0, 1.0]))], "whole-short")
    add("f64", 2, 3, [1.0, 4.0, 2.0, 5.0, 3.0, 6.0], [("set", ("i2", ("m", False, True), ("all",)), ("sc", "f64", 18.0))], "mask-all")
    add("f64", 3, 4, [float(i) for i in range(12)], [("set", ("i2", ("v", 3, 1), ("m", False, True, False, True)), ("sc", "f64", 100.0))], "vec-mask")
    add("f64", 1, 4, [1.0, 2.0, 3.0, 4.0], [("set", ("i1", ("m", True, False, False, True)), ("vec", "f64", False, [50.0, 60.0]))], "mask-vec")
    add("i64", 3, 1, [8, 6, 4], [("div", ("i2", ("v", 1, 2), ("all",)), ("sc", "i64", 2))], "div-rows-all")
    add("i64", 2, 2, [1, 2, 3, 4], [("add", ("i2", ("s", 1), ("s", 2)), ("sc", "i64", 5))], "not-implemented")
    add("f64", 2, 3, [1.0, 4.0, 2.0, 5.0, 3.0, 6.0],
        [("set", ("i2", ("s", 2), ("s", 1)), ("sc", "f64", 10.0)), ("read", ("i2", ("s", 2), ("s", 1)), None),
         ("add", ("i1", ("v", 1, 3)), ("sc", "f64", 10.0)), ("read", ("i1", ("v", 1, 3)), None),
         ("set", ("i1", ("s", 2)), ("sc", "string", "a")), ("set", ("i1", ("s", 7)), ("sc", "f64", 1.0))], "plain-sequence")
    return out


def generate(tier, rng):
    for c in fixed_cases():
        yield c
    shapes = list(SHAPES) + (SHAPES_MORE if tier != "quick" else [])
    per = 7 if tier == "quick" else 12
    ki = 0
    for (r, c) in shapes:
        for rep in range(per):
            kinds = [KINDS[(ki + j) % len(KINDS)] for j in range(16 if tier != "quick" else 4)]
            ki += len(kinds) + 1 if tier == "quick" else 1
            for j, k in enumerate(kinds):
                nst = rng.randint(1, 6)
                clean = (j + rep) % 2 == 0
                yield make_session(k, r, c, rng, nst, dict(stream="clean" if clean else "any", kind=k, shape="%dx%d" % (r, c)),
                                   clean=clean)


def shrink(case):
    """drop statements one at a time (the case text is regenerated from its parsed form)"""
    from vlib.core import parse_sx
    p = parse_sx(case["sx"])
    stmts = p[5]
    srcs = case["impl"]["stmts"]
    out = []
    if len(stmts) <= 1:
        return out
    for i in range(len(stmts)):
        ns = stmts[:i] + stmts[i + 1:]
        nsrc = srcs[:1 + i] + srcs[2 + i:]
        q = list(p)
        q[5] = ns
        out.append(dict(sx=sx(q), impl=dict(stmts=nsrc), tags=dict(case.get("tags", {}))))
    return out
