"""C07 — bytecode files round-trip; corrupted files are rejected.
Two phases: (1) compile a family of programs with the real compiler (mvh bytecode, hex) to get
emitted files; (2) corruptions of those files + random/structurally mutated byte strings."""
import struct, zlib
from vlib import core
from vlib.core import sx, q

PROP = "C07"
MODE = "loader"
PROPS_FILES = ["theories/Props/C07.v"]
RULE = ("emitted files of a program family x {identity, every/sampled truncation length, single-bit flips, bursts <= 32 bits at "
        "random offsets incl. header/section/trailer boundaries}; random byte strings; structural mutations of header fields, "
        "const entries, opcodes, counts with the CRC recomputed (zlib.crc32, an independent oracle); crc32fast vs the Coq CRC on "
        "random strings. non-trivial = distinct case judged ok (rejections of corrupted files and round-trips alike)")
ASSUMPTIONS = [
    "symbol and dictionary sections are HashMaps in the implementation; the Coq model decodes header, constant table entries and "
    "instructions only; the other sections are covered by the implementation-level re-encode equality",
    "a process abort or hang of the loader is observed by the driver (child restarted) and judged as a violation",
    "error kinds are compared only as CRC-level vs later (CrcMismatch/FileTooShort vs anything else)",
]
TRIVIAL_TAGS = []
STALL = 20.0
# the loader works on files of at most a few KB: any request for more than ~1 GB of address space is an unbounded allocation
core.RLIMIT_AS_BYTES[0] = 1 << 30

PROGRAMS = [
    "x := 1 + 2",
    "x := [1 2 3] + 1\ny := x * 2",
    "a := true && false",
    "s := \"hello\"",
    "m := [1 2; 3 4]\nn := m'\nk := m ** n",
    "x := 10\ny := 20\nz := x * y + 3",
    "r := 1..5",
    "x<u8> := 200\ny<u8> := 55\nz := x + y",
    "x := [1.5 2.5 3.5]\ny := x[2]",
    "q := 1/2 + 3/4",
    "a := 1\nb := 2\nc := 3\nd := 4\ne := 5\nf := 6\ng := 7\nh := 8\ni := 9\nj := 10\nk := 11\nl := 12\nm := 13\nn := a + b + c + d + e + f + g + h + i + j + k + l + m",
    "x := {1,2,3}",
    "t := (1, true, \"a\")",
    "x := math/sin(0.5)\ny := math/cos(x)",
    "~x := [1 2 3]\nx[2] = 42",
    "z := 2 ^ 10 - 24",
    "b := [true false] || [false false]",
    "c := [1 2 3] > 2",
]


def emitted_files():
    cases = [dict(id="p%d" % i, impl=dict(src=p, hex=True)) for i, p in enumerate(PROGRAMS)]
    res = core.run_impl("bytecode", cases)
    out = []
    for c in cases:
        o = res.get(c["id"], "")
        p = core.parse_sx(o)
        if isinstance(p, list) and len(p) >= 9 and isinstance(p[2], list) and p[2][0] == "ok" and isinstance(p[8], str) and len(p[8]) > 2:
            out.append((c["impl"]["src"], bytes.fromhex(p[8].strip('"'))))
    return out


def case(kind_sx, hexstr, tags, crc=False):
    impl = dict(hex=hexstr)
    if crc:
        impl["crc"] = 1
    return dict(sx=kind_sx, impl=impl, tags=tags)


def with_crc(payload):
    return payload + struct.pack("<I", zlib.crc32(payload) & 0xFFFFFFFF)


def generate(tier, rng):
    allfiles = emitted_files()
    quick = tier == "quick"
    for src, f in allfiles:
        yield case(sx(["emitted", q(f.hex())]), f.hex(), dict(stream="emitted"))
    # corruption streams: quick uses the 6 smallest-to-median files, thorough all
    files = sorted(allfiles, key=lambda x: len(x[1]))[:6] if quick else allfiles
    # truncations
    for k, (src, f) in enumerate(files):
        lens = range(len(f)) if (not quick or k < 1) else sorted(set(rng.sample(range(len(f)), 60) + [0, 1, 3, 4, 5, len(f) - 1, len(f) - 4, len(f) - 5]))
        for n in lens:
            yield case(sx(["trunc", q(f.hex()), n]), f[:n].hex(), dict(stream="trunc"))
    # single bit flips
    for k, (src, f) in enumerate(files):
        nbits = len(f) * 8
        if not quick:
            positions = range(nbits)
        else:
            positions = sorted(set(rng.sample(range(nbits), 100) + list(range(0, 16)) + list(range(nbits - 34, nbits))))
        for pos in positions:
            g = bytearray(f); g[pos // 8] ^= 1 << (pos % 8)
            yield case(sx(["burst", q(f.hex()), q(bytes(g).hex())]), bytes(g).hex(), dict(stream="bitflip"))
    # bursts up to 32 bits
    nb = 80 if quick else 3000
    for k, (src, f) in enumerate(files):
        nbits = len(f) * 8
        hsz = 159
        anchors = [0, hsz * 8 - 16, nbits - 48, nbits - 32, nbits - 16]
        for t in range(nb):
            w = rng.randint(2, 32)
            start = rng.choice(anchors) + rng.randint(0, 16) if rng.random() < 0.3 else rng.randint(0, nbits - w)
            start = max(0, min(nbits - w, start))
            pat = [1] + [rng.randint(0, 1) for _ in range(w - 2)] + [1]
            g = bytearray(f)
            for i, b in enumerate(pat):
                if b:
                    pos = start + i
                    g[pos // 8] ^= 1 << (pos % 8)
            yield case(sx(["burst", q(f.hex()), q(bytes(g).hex())]), bytes(g).hex(), dict(stream="burst", width=w))
    # random byte strings
    for t in range(300 if quick else 5000):
        n = rng.choice([0, 1, 3, 4, 5, 8, 100, 158, 159, 160, 163, 200, 400]) if rng.random() < 0.5 else rng.randint(0, 300)
        b = bytes(rng.randrange(256) for _ in range(n))
        if rng.random() < 0.5 and n >= 4:
            b = with_crc(b[:-4])
        if rng.random() < 0.3 and n >= 8:
            b = with_crc(b"MECH" + b[4:-4])
        yield case(sx(["any", q(b.hex())]), b.hex(), dict(stream="random"))
    # structural mutations with recomputed CRC
    boundary = [0, 1, 2, 12, 13, 23, 24, 25, 255, 256, 65535, 2 ** 31, 2 ** 32 - 1, 2 ** 32, 2 ** 40, 2 ** 62, 2 ** 63, 2 ** 64 - 1]
    # header field layout (offset, width)
    widths = [4, 1, 2, 2, 4, 4, 4, 8, 4, 8, 4, 8, 8, 8, 8, 8, 8, 8, 8, 8, 8, 4]
    offs = [sum(widths[:i]) for i in range(len(widths))]
    for k, (src, f) in enumerate(files):
        payload = f[:-4]
        nmut = 0
        for fi, (o, w) in enumerate(zip(offs, widths)):
            vals = boundary + [len(f), len(f) - 4, len(f) - 3, len(f) + 1]
            if quick:
                vals = rng.sample(vals, 4)
            for v in vals:
                v &= (1 << (8 * w)) - 1
                g = bytearray(payload); g[o:o + w] = v.to_bytes(w, "little")
                b = with_crc(bytes(g))
                yield case(sx(["any", q(b.hex())]), b.hex(), dict(stream="struct-header", field=fi))
        # mutate bytes in the sections after the header (type ids, lengths, opcodes, counts)
        nrand = 50 if quick else 1500
        for t in range(nrand):
            g = bytearray(payload)
            pos = rng.randint(159, len(g) - 1)
            w = rng.choice([1, 1, 2, 4, 8])
            v = rng.choice(boundary) & ((1 << (8 * w)) - 1)
            g[pos:pos + w] = v.to_bytes(w, "little")[: max(0, min(w, len(g) - pos))]
            b = with_crc(bytes(g))
            yield case(sx(["any", q(b.hex())]), b.hex(), dict(stream="struct-body"))
    # field-level mutations of the instruction stream (opcode, function id, registers, VarArg count) with recomputed CRC
    fieldvals = [0, 1, 2, 5, 255, 256, 65535, 2 ** 30, 2 ** 30 + 1, 2 ** 31, 2 ** 31 + 1, 3 * 2 ** 30, 2 ** 32 - 1, 2 ** 32 - 4]
    for k, (src, f) in enumerate(allfiles):
        payload = f[:-4]
        ioff = int.from_bytes(payload[93:101], "little"); ilen = int.from_bytes(payload[101:109], "little")
        pos = ioff; fields = []
        widths = {0x01: [4, 4], 0x10: [8, 4], 0x20: [8, 4, 4], 0x30: [8, 4, 4, 4], 0x40: [8, 4, 4, 4, 4], 0x50: [8, 4, 4, 4, 4, 4], 0xFF: [4]}
        while pos < ioff + ilen and pos < len(payload):
            op = payload[pos]; fields.append((pos, 1, "opcode")); pos += 1
            if op == 0x60:
                fields += [(pos, 8, "fxn"), (pos + 8, 4, "dst"), (pos + 12, 4, "argc")]
                n = int.from_bytes(payload[pos + 12:pos + 16], "little"); pos += 16
                for a in range(n):
                    fields.append((pos, 4, "arg")); pos += 4
            elif op in widths:
                for w in widths[op]:
                    fields.append((pos, w, "field")); pos += w
            else:
                break
        argc = [x for x in fields if x[2] == "argc"]
        others = [x for x in fields if x[2] != "argc"]
        chosen = argc + (rng.sample(others, min(len(others), 6 if quick else 60)))
        for (o, w, name) in chosen:
            vals = fieldvals if name == "argc" else rng.sample(fieldvals, 3 if quick else 8)
            for v in vals:
                g = bytearray(payload); g[o:o + w] = (v & ((1 << (8 * w)) - 1)).to_bytes(w, "little")
                b = with_crc(bytes(g))
                yield case(sx(["any", q(b.hex())]), b.hex(), dict(stream="struct-instr", field=name))
    # crc32fast vs the model
    for t in range(100 if quick else 2000):
        n = rng.choice([0, 1, 2, 3, 4, 5, 7, 8, 9, 15, 16, 17, 31, 32, 33, 63, 64, 65]) if rng.random() < 0.5 else rng.randint(0, 400)
        b = bytes(rng.randrange(256) for _ in range(n)) if rng.random() < 0.8 else bytes([rng.choice([0, 255])]) * n
        yield case(sx(["crc", q(b.hex())]), b.hex(), dict(stream="crc"), crc=True)
    for b in [b"123456789", b"", b"a", b"\x00" * 32, b"\xff" * 32, b"The quick brown fox jumps over the lazy dog"]:
        yield case(sx(["crc", q(b.hex())]), b.hex(), dict(stream="crc-vectors"), crc=True)
