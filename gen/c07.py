"""C07 — bytecode files round-trip; corrupted files are rejected.
Two phases: (1) compile a family of programs with the real compiler (mvh bytecode, hex) to get
emitted files; (2) corruptions of those files + random/structurally mutated byte strings."""
import struct, zlib
from vlib import core
from vlib.core import sx, q

PROP = "C07"
MODE = "loader"
PROPS_FILES = ["theories/Props/C07.v"]
def pregen():
    """regenerate coq/theories/Gen/InstrArms.v from the current Rust source (translators/instr_arms.py): the per-instruction arm
    obligations of Props/C07.v are stated over that table"""
    import os, sys
    from vlib import core as _core
    sys.path.insert(0, os.path.join(_core.ROOT, "translators"))
    import armlib
    return armlib.pregen(PROP, [("instr_arms", "theories/Proofs/InstrArmsP.vo")])


RULE = ("emitted files of a program family (every modelled kind of constant: typed scalars u8..u128/i8..i128/f32/f64, strings incl. "
        "multi-byte, rationals, complex, bool, index, matrices of several kinds and shapes) and files laid out by CompileCtx::compile with "
        "1..40 defined symbols x {identity: every decoded section and every decoded constant value compared with the Coq model's decoding "
        "of the same bytes, model re-encoding = file, every/sampled truncation length, single-bit flips, bursts <= 32 bits at random offsets "
        "incl. header/section/trailer boundaries}; random byte strings; structural mutations of header fields, type entries, const entries, "
        "constant payload prefixes/bytes, symbol and dictionary entries, opcodes, counts with the CRC recomputed (zlib.crc32, an independent "
        "oracle): model accept/reject, sections and constant-decoder outcome compared; crc32fast vs the Coq CRC on random strings. "
        "non-trivial = distinct case judged ok (rejections of corrupted files and round-trips alike)")
ASSUMPTIONS = [
    "symbol and dictionary sections are HashMaps in the implementation and ordered lists in the Coq model: they are compared as sorted "
    "lists, and only when the ids in the file are pairwise distinct; the compiler itself never defines a symbol (define_symbol has no "
    "caller), so files with symbols are produced by calling CompileCtx::define_symbol + compile from the harness (stream emitted-syms), "
    "for which the byte-exact re-encoding is advisory (HashMap iteration order)",
    "constants of kinds the model does not decode (sets, tables) are compared at the container level only (tag roundtrip-some-constants-opaque)",
    "a process abort or hang of the loader is observed by the driver (child restarted) and judged as a violation",
    "error kinds are compared only as CRC-level vs later (CrcMismatch/FileTooShort vs anything else)",
    "disagreements between the model's and the implementation's accept/reject on non-emitted files are advisory (adv tags); none occurs on the unchanged tree",
]
TRIVIAL_TAGS = []
STALL = 20.0
# the loader works on files of at most a few KB: any request for more than ~1 GB of address space is an unbounded allocation
core.RLIMIT_AS_BYTES[0] = 1 << 30

PROGRAMS = [
    # an instruction of every arity with pairwise distinct operand registers (unary, binary, ternary, quaternary, variadic):
    # vertical / horizontal concatenation of 2, 3, 4, 5 operands; stepped ranges; calls
    "x := [1 2; 3 4; 5 6; 7 8]",
    "x := [1; 2; 3; 4]",
    "a := [1 2]\nb := [3 4]\nc := [5 6]\nd := [7 8]\nx := [a; b; c; d]",
    "a := [1; 2]\nb := [3; 4]\nc := [5; 6]\nd := [7; 8]\nx := [a b c d]",
    "a := [1 2]\nb := [3 4]\nc := [5 6]\nx := [a; b; c]\ny := [a; b]\nz := [a; b; c; a; b]",
    "a := 1\ns := 2\nb := 9\nr := a..s..=b\nq := -r\nt := r'",
    "x := [true false; false true; true true; false false]\ny := [\"a\" \"b\"; \"c\" \"d\"; \"e\" \"f\"; \"g\" \"h\"]",
    # strings nested in containers, with multi-byte characters (their encoder is not the scalar-string one)
    'x := ["héllo" "wörld"]',
    'x := ["温度" "ok" "Δt"; "a" "ß" "😀"]',
    's := {"é", "ß", "plain"}',
    'y := "naïve café"',
    "x := 1 + 2",
    "x := [1 2 3] + 1\ny := x * 2",
    "a := true && false",
    "s := \"hello\"",
    "m := [1 2; 3 4]\nn := m'\nk := m ** n",
    "x := 10\ny := 20\nz := x * y + 3",
    "r := 1..5",
    "x<u8> := 200\ny<u8> := 55\nz := x + y",
    "x := [1.5 2.5 3.5]\ny := x[2]",
    "q := 1/2 + 3/4",
    "a := 1\nb := 2\nc := 3\nd := 4\ne := 5\nf := 6\ng := 7\nh := 8\ni := 9\nj := 10\nk := 11\nl := 12\nm := 13\nn := a + b + c + d + e + f + g + h + i + j + k + l + m",
    "x := {1,2,3}",
    "t := (1, true, \"a\")",
    "x := math/sin(0.5)\ny := math/cos(x)",
    "~x := [1 2 3]\nx[2] = 42",
    "z := 2 ^ 10 - 24",
    "b := [true false] || [false false]",
    "c := [1 2 3] > 2",
    # every modelled kind of constant (typed scalars, strings incl. multi-byte, rationals, complex, bool, matrices)
    "a<u8> := 200\nb<u16> := 60000\nc<u32> := 4000000000\nd<u64> := 123456789012\ne<u128> := 7",
    "a<i8> := 100\nb<i16> := 30000\nc<i32> := 2000000000\nd<i64> := 123456789012\ne<i128> := 9",
    "a<i8> := -5\nb<i16> := -300\nc<i32> := -70000\nd<i64> := -5000000000\ne<i128> := -1",
    "a<f32> := 1.5\nb<f64> := 2.25\nc := -0.1\nd := 1e10",
    "s := \"h\u00e9llo w\u00f6rld \u2713 \U0001d11e\"\nt := \"\"\nu := \"a\\\"b\"",
    "q := 1/2\nr := -3/4\ns := 22/7\nt := 10/4",
    "c := 1+2i\nd := 3.5-4.25i",
    "a := true\nb := false\nc := a && b",
    "m<[u8]:2,3> := [1 2 3; 4 5 6]\nn<[u16]:1,3> := [1 2 3]\no<[u32]:3,1> := [1; 2; 3]\np<[u64]:2,2> := [1 2; 3 4]\nq<[u128]:1,2> := [1 2]",
    "m<[i8]:2,3> := [1 2 3; 4 5 6]\nn<[i16]:1,3> := [1 2 3]\no<[i32]:3,1> := [1; 2; 3]\np<[i64]:2,2> := [1 2; 3 4]\nq<[i128]:1,2> := [1 2]",
    "m<[f32]:2,2> := [1.5 2.5; 3.5 4.5]\nn := [1.5 2.5 3.5 4.5 5.5; 6 7 8 9 10]\no := [1; 2; 3; 4; 5; 6; 7]",
    "m := [\"a\" \"bcd\"; \"\u00e9\u2713\" \"\"]\nn := [true false; false true]\no := [1/2 3/4; 5/6 7/8]\np := [1+2i 3+4i]",
    "x := [1 2 3]\ny := x[2]\nz := x[1..=2]",
    "averyveryverylongvariablenamethatgoesonandonandonandonforeverandeverandthensome := 1\nanotherquitelongidentifierforgoodmeasure := averyveryverylongvariablenamethatgoesonandonandonandonforeverandeverandthensome + 1",
]

# files laid out by CompileCtx::compile after symbols were defined through its public API (define_symbol): the
# compiler itself never calls it, so only these files have non-empty symbol and dictionary sections.
# (source, [(name, register, mutable)...])
_NAMES = ["a", "b", "c", "alpha", "beta", "gamma", "delta", "x1", "y2", "h\u00e9llo", "\u2713", "\U0001d11e", "temperature",
          "a-rather-long-symbol-name-that-goes-on-and-on-and-on-and-on-and-on-and-on-and-on-and-on-and-on-and-on-and-on-and-on-and-on",
          "n" * 300, "", "zeta/eta", "w"]
SYM_PROGRAMS = [
    ("x := 1", [("x", 0, False)]),
    ("x := 1 + 2", [("x", 0, False), ("y", 1, True)]),
    ("x := 10\ny := 20\nz := x * y + 3", [(n, i % 5, i % 3 == 0) for i, n in enumerate(_NAMES[:12])]),
    ("s := \"hello\"\nm := [1 2; 3 4]", [(n, 7 * i, i % 2 == 1) for i, n in enumerate(_NAMES)]),
    ("q := 1/2 + 3/4", [("sym%d" % i, i, i % 4 == 0) for i in range(40)]),
]


def emitted_files():
    """-> [(src, bytes, kind)] with kind 'emitted' (what the compiler wrote) or 'emitted-syms' (see SYM_PROGRAMS)"""
    cases = [dict(id="p%d" % i, impl=dict(src=p, hex=True), kind="emitted") for i, p in enumerate(PROGRAMS)]
    cases += [dict(id="s%d" % i, impl=dict(src=p, hex=True, defsyms=[[n, r, m] for (n, r, m) in syms]), kind="emitted-syms")
              for i, (p, syms) in enumerate(SYM_PROGRAMS)]
    res = core.run_impl("bytecode", cases)
    out = []
    for c in cases:
        o = res.get(c["id"], "")
        p = core.parse_sx(o)
        if isinstance(p, list) and len(p) >= 9 and isinstance(p[2], list) and p[2][0] == "ok" and isinstance(p[8], str) and len(p[8]) > 2:
            out.append((c["impl"]["src"], bytes.fromhex(p[8].strip('"')), c["kind"]))
    return out


HW = [4, 1, 2, 2, 4, 4, 4, 8, 4, 8, 4, 8, 8, 8, 8, 8, 8, 8, 8, 8, 8, 4]
HO = [sum(HW[:i]) for i in range(len(HW))]
HSZ = sum(HW)     # 129


def header_of(payload):
    return [int.from_bytes(payload[o:o + w], "little") for o, w in zip(HO, HW)]


def slow_decode(payload):
    """True when some constant entry resolves to a matrix type whose payload starts with rows = 0 and a huge column count:
    Matrix<T>::from_le then runs `for _c in 0..cols { for _r in 0..0 {} }` for up to 2^32 iterations before it panics
    (16 s for cols = 2^30 in the dev build: a 318-byte file; part of the known finding const-decoder-panic, but too close to
    the stall limit of the driver to be observed reliably, so such files are not generated)."""
    try:
        h = header_of(payload)
        toff, ccount, tbloff, bloboff, bloblen = h[9], h[10], h[11], h[13], h[14]
        tags = []
        pos = toff
        tcount = int.from_bytes(payload[pos:pos + 4], "little"); pos += 4
        for t in range(min(tcount, 4096)):
            if pos + 12 > len(payload):
                break
            tags.append(int.from_bytes(payload[pos:pos + 2], "little"))
            pos += 12 + int.from_bytes(payload[pos + 8:pos + 12], "little")
        for i in range(min(ccount, 4096)):
            e = tbloff + 24 * i
            if e + 24 > len(payload):
                break
            tid = int.from_bytes(payload[e:e + 4], "little")
            off = int.from_bytes(payload[e + 8:e + 16], "little"); ln = int.from_bytes(payload[e + 16:e + 24], "little")
            if tid < len(tags) and 21 <= tags[tid] <= 37 and ln >= 8 and off + ln <= bloblen:
                b = bloboff + off
                rows = int.from_bytes(payload[b:b + 4], "little"); cols = int.from_bytes(payload[b + 4:b + 8], "little")
                if rows == 0 and cols > 10 ** 6:
                    return True
    except Exception:
        return False
    return False


def section_fields(payload):
    """(offset, width, name, interesting values) of the fields inside the sections of a well-formed file"""
    h = header_of(payload)
    (foff, toff, ccount, tbloff, tbllen, bloboff, bloblen, symlen, symoff, ioff, ilen, doff, dlen) = (
        h[7], h[9], h[10], h[11], h[12], h[13], h[14], h[15], h[16], h[17], h[18], h[19], h[20])
    B32 = [0, 1, 2, 3, 7, 255, 65536, 2 ** 31, 2 ** 32 - 1]
    out = [(foff, 4, "feature-count", B32 + [len(payload)])]
    pos = toff
    tcount = int.from_bytes(payload[pos:pos + 4], "little")
    out.append((pos, 4, "types-count", B32 + [tcount + 1, tcount - 1 if tcount else 5]))
    pos += 4
    for t in range(tcount):
        blen = int.from_bytes(payload[pos + 8:pos + 12], "little")
        out.append((pos, 2, "type-tag", [0, 1, 12, 15, 16, 14, 21, 32, 34, 36, 37, 42, 43, 45, 48, 49, 65535]))
        out.append((pos + 2, 2, "type-reserved", [1, 65535]))
        out.append((pos + 4, 4, "type-version", [0, 2, 2 ** 32 - 1]))
        out.append((pos + 8, 4, "type-bytes-len", B32 + [blen + 1, max(0, blen - 1), len(payload) - pos - 12, len(payload) - pos - 11]))
        pos += 12 + blen
    for i in range(ccount):
        e = tbloff + 24 * i
        off = int.from_bytes(payload[e + 8:e + 16], "little"); ln = int.from_bytes(payload[e + 16:e + 24], "little")
        out.append((e, 4, "const-type-id", [0, 1, 2, 3, tcount - 1, tcount, 2 ** 32 - 1]))
        out.append((e + 4, 1, "const-enc", [0, 2, 255]))
        out.append((e + 5, 1, "const-align", [0, 1, 2, 3, 4, 8, 16, 32, 255]))
        out.append((e + 6, 1, "const-flags", [1, 255]))
        out.append((e + 7, 1, "const-reserved", [1, 255]))
        out.append((e + 8, 8, "const-offset", [0, off + 1, max(0, off - 1), off + 8, bloblen, bloblen - ln, bloblen - ln + 1, 2 ** 63, 2 ** 64 - 1, 2 ** 64 - ln]))
        out.append((e + 16, 8, "const-length", [0, 1, ln + 1, max(0, ln - 1), 4, 8, 16, bloblen - off, bloblen - off + 1, 2 ** 64 - 1, 2 ** 64 - off, 2 ** 64 - 1 - off]))
        # the payload: rows / cols / string length prefixes and raw bytes
        b = bloboff + off
        out.append((b, 4, "payload-word0", B32))
        if ln >= 8:
            out.append((b + 4, 4, "payload-word1", B32))
        if ln >= 16:
            out.append((b + 8, 8, "payload-denominator", [0, 1, 2, 2 ** 63, 2 ** 64 - 1]))
        for k in range(min(ln, 24)):
            out.append((b + k, 1, "payload-byte", [0, 1, 0x7f, 0x80, 0xc0, 0xe0, 0xed, 0xf4, 0xf5, 0xff]))
    for i in range(symlen // 13):
        e = symoff + 13 * i
        out.append((e + 8, 1, "symbol-mutable", [0, 1, 2, 255]))
        out.append((e, 8, "symbol-id", [0, 2 ** 64 - 1, int.from_bytes(payload[symoff:symoff + 8], "little")]))
        out.append((e + 9, 4, "symbol-register", [0, 2 ** 32 - 1]))
    pos = doff
    while pos + 12 <= doff + dlen:
        nl = int.from_bytes(payload[pos + 8:pos + 12], "little")
        out.append((pos + 8, 4, "dict-name-len", B32 + [nl + 1, max(0, nl - 1), doff + dlen - pos - 12, doff + dlen - pos - 11]))
        out.append((pos, 8, "dict-id", [0, 2 ** 64 - 1, int.from_bytes(payload[doff:doff + 8], "little")]))
        for k in range(min(nl, 6)):
            out.append((pos + 12 + k, 1, "dict-name-byte", [0, 0x7f, 0x80, 0xc0, 0xe0, 0xed, 0xf4, 0xf5, 0xff]))
        pos += 12 + nl
    # header lengths of the variable sections, relative to their true values
    for fi, v in ((12, tbllen), (14, bloblen), (15, symlen), (18, ilen), (20, dlen)):
        out.append((HO[fi], 8, "header-len-%d" % fi, [0, 1, v + 1, max(0, v - 1), v + 13, max(0, v - 13), 12, 13, 14, 24, len(payload) - 4]))
    for fi in (7, 9, 11, 13, 16, 17, 19):
        v = h[fi]
        out.append((HO[fi], 8, "header-off-%d" % fi, [0, 1, v + 1, max(0, v - 1), HSZ, len(payload), len(payload) - 4, len(payload) - 3, len(payload) - 1]))
    out.append((HO[10], 4, "header-const-count", [0, 1, ccount + 1, max(0, ccount - 1), 2 ** 32 - 1]))
    return [(o, w, n, vs) for (o, w, n, vs) in out if 0 <= o and o + w <= len(payload)]


def case(kind_sx, hexstr, tags, crc=False):
    impl = dict(hex=hexstr)
    if crc:
        impl["crc"] = 1
    return dict(sx=kind_sx, impl=impl, tags=tags)


def with_crc(payload):
    return payload + struct.pack("<I", zlib.crc32(payload) & 0xFFFFFFFF)


def generate(tier, rng):
    allfiles = emitted_files()
    quick = tier == "quick"
    for src, f, kind in allfiles:
        yield case(sx([kind, q(f.hex())]), f.hex(), dict(stream=kind))
    symfiles = [(s_, f) for (s_, f, k) in allfiles if k == "emitted-syms"]
    allfiles = [(s_, f) for (s_, f, k) in allfiles]
    # corruption streams: quick uses the 6 smallest-to-median files, thorough all
    # corruption streams: quick uses the 6 smallest files, thorough every second file by size (all files: > 350 000 cases)
    files = sorted(allfiles, key=lambda x: len(x[1]))[:6] if quick else sorted(allfiles, key=lambda x: len(x[1]))[::2]
    # truncations
    for k, (src, f) in enumerate(files):
        lens = range(len(f)) if (not quick or k < 1) else sorted(set(rng.sample(range(len(f)), 60) + [0, 1, 3, 4, 5, len(f) - 1, len(f) - 4, len(f) - 5]))
        for n in lens:
            yield case(sx(["trunc", q(f.hex()), n]), f[:n].hex(), dict(stream="trunc"))
    # single bit flips
    for k, (src, f) in enumerate(files):
        nbits = len(f) * 8
        if not quick:
            # every bit of the six smallest files, 1000 sampled bits (plus header/trailer ends) of the others
            positions = range(nbits) if k < 6 else sorted(set(rng.sample(range(nbits), min(nbits, 1000)) + list(range(0, 64)) + list(range(nbits - 64, nbits))))
        else:
            positions = sorted(set(rng.sample(range(nbits), 100) + list(range(0, 16)) + list(range(nbits - 34, nbits))))
        for pos in positions:
            g = bytearray(f); g[pos // 8] ^= 1 << (pos % 8)
            yield case(sx(["burst", q(f.hex()), q(bytes(g).hex())]), bytes(g).hex(), dict(stream="bitflip"))
    # bursts up to 32 bits
    nb = 80 if quick else 600
    for k, (src, f) in enumerate(files):
        nbits = len(f) * 8
        hsz = HSZ
        anchors = [0, hsz * 8 - 16, nbits - 48, nbits - 32, nbits - 16]
        for t in range(nb):
            w = rng.randint(2, 32)
            start = rng.choice(anchors) + rng.randint(0, 16) if rng.random() < 0.3 else rng.randint(0, nbits - w)
            start = max(0, min(nbits - w, start))
            pat = [1] + [rng.randint(0, 1) for _ in range(w - 2)] + [1]
            g = bytearray(f)
            for i, b in enumerate(pat):
                if b:
                    pos = start + i
                    g[pos // 8] ^= 1 << (pos % 8)
            yield case(sx(["burst", q(f.hex()), q(bytes(g).hex())]), bytes(g).hex(), dict(stream="burst", width=w))
    # random byte strings
    for t in range(300 if quick else 5000):
        n = rng.choice([0, 1, 3, 4, 5, 8, 100, 158, 159, 160, 163, 200, 400]) if rng.random() < 0.5 else rng.randint(0, 300)
        b = bytes(rng.randrange(256) for _ in range(n))
        if rng.random() < 0.5 and n >= 4:
            b = with_crc(b[:-4])
        if rng.random() < 0.3 and n >= 8:
            b = with_crc(b"MECH" + b[4:-4])
        yield case(sx(["any", q(b.hex())]), b.hex(), dict(stream="random"))
    # structural mutations with recomputed CRC
    boundary = [0, 1, 2, 12, 13, 23, 24, 25, 255, 256, 65535, 2 ** 31, 2 ** 32 - 1, 2 ** 32, 2 ** 40, 2 ** 62, 2 ** 63, 2 ** 64 - 1]
    # header field layout (offset, width)
    widths = [4, 1, 2, 2, 4, 4, 4, 8, 4, 8, 4, 8, 8, 8, 8, 8, 8, 8, 8, 8, 8, 4]
    offs = [sum(widths[:i]) for i in range(len(widths))]
    for k, (src, f) in enumerate(files):
        payload = f[:-4]
        nmut = 0
        for fi, (o, w) in enumerate(zip(offs, widths)):
            vals = boundary + [len(f), len(f) - 4, len(f) - 3, len(f) + 1]
            if quick:
                vals = rng.sample(vals, 4)
            for v in vals:
                v &= (1 << (8 * w)) - 1
                g = bytearray(payload); g[o:o + w] = v.to_bytes(w, "little")
                b = with_crc(bytes(g))
                yield case(sx(["any", q(b.hex())]), b.hex(), dict(stream="struct-header", field=fi))
        # mutate bytes in the sections after the header (type ids, lengths, opcodes, counts)
        nrand = 50 if quick else 600
        for t in range(nrand):
            g = bytearray(payload)
            pos = rng.randint(HSZ, len(g) - 1)
            w = rng.choice([1, 1, 2, 4, 8])
            v = rng.choice(boundary) & ((1 << (8 * w)) - 1)
            g[pos:pos + w] = v.to_bytes(w, "little")[: max(0, min(w, len(g) - pos))]
            b = with_crc(bytes(g))
            yield case(sx(["any", q(b.hex())]), b.hex(), dict(stream="struct-body"))
    # field-level mutations of the instruction stream (opcode, function id, registers, VarArg count) with recomputed CRC
    fieldvals = [0, 1, 2, 5, 255, 256, 65535, 2 ** 30, 2 ** 30 + 1, 2 ** 31, 2 ** 31 + 1, 3 * 2 ** 30, 2 ** 32 - 1, 2 ** 32 - 4]
    for k, (src, f) in enumerate(allfiles if quick else allfiles[::2]):
        payload = f[:-4]
        ioff = int.from_bytes(payload[93:101], "little"); ilen = int.from_bytes(payload[101:109], "little")
        pos = ioff; fields = []
        widths = {0x01: [4, 4], 0x10: [8, 4], 0x20: [8, 4, 4], 0x30: [8, 4, 4, 4], 0x40: [8, 4, 4, 4, 4], 0x50: [8, 4, 4, 4, 4, 4], 0xFF: [4]}
        while pos < ioff + ilen and pos < len(payload):
            op = payload[pos]; fields.append((pos, 1, "opcode")); pos += 1
            if op == 0x60:
                fields += [(pos, 8, "fxn"), (pos + 8, 4, "dst"), (pos + 12, 4, "argc")]
                n = int.from_bytes(payload[pos + 12:pos + 16], "little"); pos += 16
                for a in range(n):
                    fields.append((pos, 4, "arg")); pos += 4
            elif op in widths:
                for w in widths[op]:
                    fields.append((pos, w, "field")); pos += w
            else:
                break
        argc = [x for x in fields if x[2] == "argc"]
        others = [x for x in fields if x[2] != "argc"]
        chosen = argc + (rng.sample(others, min(len(others), 6 if quick else 60)))
        for (o, w, name) in chosen:
            vals = fieldvals if name == "argc" else rng.sample(fieldvals, 3 if quick else 8)
            for v in vals:
                g = bytearray(payload); g[o:o + w] = (v & ((1 << (8 * w)) - 1)).to_bytes(w, "little")
                b = with_crc(bytes(g))
                yield case(sx(["any", q(b.hex())]), b.hex(), dict(stream="struct-instr", field=name))
    # section-aware mutations with recomputed CRC: every field of the type section, the constant table, the constant
    # payloads (rows / cols / length prefixes, UTF-8 bytes, denominators), the symbol and dictionary entries and the header
    # offsets/lengths, set to boundary values.  The model predicts accept/reject and the outcome of the constant decoder.
    secfiles = (sorted(allfiles, key=lambda x: len(x[1]))[:4] + symfiles[:3] + allfiles[-14:-1:3]) if quick else (allfiles[1::2] + symfiles)
    seen_f = set()
    for k, (src, f) in enumerate(secfiles):
        if f in seen_f:
            continue
        seen_f.add(f)
        payload = f[:-4]
        fields = section_fields(payload)
        budget = 260 if quick else 800
        muts = [(o, w, name, v) for (o, w, name, vs) in fields for v in vs]
        if len(muts) > budget:
            muts = rng.sample(muts, budget)
        for (o, w, name, v) in muts:
            g = bytearray(payload); g[o:o + w] = (v & ((1 << (8 * w)) - 1)).to_bytes(w, "little")
            if bytes(g) == payload or slow_decode(bytes(g)):
                continue
            b = with_crc(bytes(g))
            yield case(sx(["any", q(b.hex())]), b.hex(), dict(stream="struct-section", field=name))
    # crc32fast vs the model
    for t in range(100 if quick else 2000):
        n = rng.choice([0, 1, 2, 3, 4, 5, 7, 8, 9, 15, 16, 17, 31, 32, 33, 63, 64, 65]) if rng.random() < 0.5 else rng.randint(0, 400)
        b = bytes(rng.randrange(256) for _ in range(n)) if rng.random() < 0.8 else bytes([rng.choice([0, 255])]) * n
        yield case(sx(["crc", q(b.hex())]), b.hex(), dict(stream="crc"), crc=True)
    for b in [b"123456789", b"", b"a", b"\x00" * 32, b"\xff" * 32, b"The quick brown fox jumps over the lazy dog"]:
        yield case(sx(["crc", q(b.hex())]), b.hex(), dict(stream="crc-vectors"), crc=True)
