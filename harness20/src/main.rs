// mvh20 — implementation side of the C20 correspondence check (source includes).
// Reads one JSON object per line on stdin: {"id": .., "root": "<path of the .mec file to load>"[, "files": [[rel, text]..]]},
// calls the real `mech::read_mech_source_file` (src/mechfs.rs) and prints `<id>\t<observation>`:
//   (ok "<expanded text>") | (err "<kind name>" "<message>") | (other "<variant>") | (panic)
// Same line protocol and string escaping as harness/src/main.rs + canon.rs::qstr.
#![allow(unused)]
use serde_json::Value as J;
use std::io::{BufRead, Write};
use std::panic::{catch_unwind, AssertUnwindSafe};
use std::path::{Path, PathBuf};

pub fn qstr(s: &str) -> String {
  let mut o = String::with_capacity(s.len() + 2);
  o.push('"');
  for b in s.bytes() {
    match b {
      b'"' => o.push_str("\\\""),
      b'\\' => o.push_str("\\\\"),
      b'\n' => o.push_str("\\n"),
      b'\r' => o.push_str("\\r"),
      b'\t' => o.push_str("\\t"),
      0x20..=0x7e => o.push(b as char),
      _ => o.push_str(&format!("\\x{:02x}", b)),
    }
  }
  o.push('"');
  o
}

// If "files" ([[relative path, content], ...]) is present the tree is materialised under
// $MVH20_SCRATCH/<id>/ (the Python plugin creates that scratch directory with tempfile.mkdtemp and
// removes it at exit) and "root" is relative to it; otherwise "root" is used as given.
fn mode_include(j: &J, id: &str) -> String {
  let root_s = j["root"].as_str().unwrap_or("").to_string();
  let mut made: Option<PathBuf> = None;
  let root: PathBuf = if let Some(files) = j["files"].as_array() {
    let scratch = match std::env::var("MVH20_SCRATCH") {
      Ok(s) if !s.is_empty() => PathBuf::from(s),
      _ => std::env::temp_dir().join(format!("mvh20-{}", std::process::id())),
    };
    let safe_id: String = id.chars().map(|c| if c.is_ascii_alphanumeric() || c == '_' || c == '-' { c } else { '_' }).collect();
    let base = scratch.join(safe_id);
    let _ = std::fs::remove_dir_all(&base);
    if std::fs::create_dir_all(&base).is_err() { return "(harness-io mkdir)".to_string(); }
    for f in files {
      let rel = f[0].as_str().unwrap_or("");
      let content = f[1].as_str().unwrap_or("");
      if rel.is_empty() || rel.starts_with('/') || rel.split('/').any(|c| c == "..") { return "(harness-io badpath)".to_string(); }
      let p = base.join(rel);
      if let Some(parent) = p.parent() { if std::fs::create_dir_all(parent).is_err() { return "(harness-io mkdir)".to_string(); } }
      if std::fs::write(&p, content.as_bytes()).is_err() { return "(harness-io write)".to_string(); }
    }
    made = Some(base.clone());
    base.join(&root_s)
  } else { PathBuf::from(&root_s) };
  let r = catch_unwind(AssertUnwindSafe(|| mech::read_mech_source_file(root.as_path())));
  let out = match r {
    Ok(Ok(mech::MechSourceCode::String(s))) => format!("(ok {})", qstr(&s)),
    Ok(Ok(_)) => "(other \"not-a-string-source\")".to_string(),
    Ok(Err(e)) => format!("(err {} {})", qstr(&e.kind_name()), qstr(&e.display_message())),
    Err(_) => "(panic)".to_string(),
  };
  if let Some(b) = made {
    let _ = std::fs::remove_dir_all(&b);
    // a default scratch directory (no MVH20_SCRATCH) is removed again once it is empty
    if std::env::var("MVH20_SCRATCH").map(|s| s.is_empty()).unwrap_or(true) { if let Some(p) = b.parent() { let _ = std::fs::remove_dir(p); } }
  }
  out
}

fn main() {
  if std::env::var("MVH_PANIC").is_err() { std::panic::set_hook(Box::new(|_| {})); }
  else { std::panic::set_hook(Box::new(|i| { eprintln!("PANIC {}", i); })); }
  let mode = std::env::args().nth(1).unwrap_or("include".to_string());
  let stdin = std::io::stdin();
  let stdout = std::io::stdout();
  let mut out = stdout.lock();
  for line in stdin.lock().lines() {
    let line = match line { Ok(l) => l, Err(_) => break };
    if line.trim().is_empty() { continue; }
    let j: J = match serde_json::from_str(&line) { Ok(j) => j, Err(_) => { writeln!(out, "?\t(badjson)").ok(); continue; } };
    let id = j["id"].as_str().map(|s| s.to_string()).unwrap_or_else(|| j["id"].to_string());
    writeln!(out, "#start\t{}", id).ok();
    out.flush().ok();
    let r = match mode.as_str() {
      "include" => mode_include(&j, &id),
      _ => "(badmode)".to_string(),
    };
    writeln!(out, "{}\t{}", id, r).ok();
    out.flush().ok();
  }
}
