#!/usr/bin/env python3
"""tools/armflow_demo.py <Cxx> <seeded id | path/to/patch.diff>
Shows what the STANDARD FLOW (`./check Cxx`: pregen -> proof step -> VIOLATION line and replay) prints when a seeded change makes an
arm obligation fail — without touching /repo or the shared tree:
  * /verif is copied to /tmp/armflow-<Cxx> (without .cache, .git, replays, evidence),
  * a scratch git worktree of /repo HEAD gets the patch, MECH_REPO points at it,
  * in the copy the plugin's pregen and flow.standard_check run with the harness build switched off (no cargo build: the
    correspondence part is skipped, the proof step decides, exactly as flow.py orders it).
Prints the `[Cxx]` log lines, the VIOLATION line and the `broken` entry of the replay.  Removes the scratch trees."""
import json, os, re, shutil, subprocess, sys

ROOT = os.path.dirname(os.path.dirname(os.path.abspath(__file__)))


def sh(cmd, **kw):
    return subprocess.run(cmd, stdout=subprocess.PIPE, stderr=subprocess.STDOUT, text=True, **kw)


def main():
    prop, seeded = sys.argv[1].upper(), sys.argv[2]
    patch = seeded if os.path.exists(seeded) else os.path.join(ROOT, "seeded", seeded, "patch.diff")
    copy = "/tmp/armflow-" + prop
    wt = "/tmp/armflow-wt-" + prop
    try:
        shutil.rmtree(copy, ignore_errors=True)
        r = sh(["rsync", "-a", "--exclude", ".cache", "--exclude", ".git", "--exclude", "replays", "--exclude", "evidence",
                "--exclude", "seeded", "--exclude", "harness*/target", ROOT + "/", copy + "/"])
        if r.returncode != 0:
            print(r.stdout); return 2
        sh(["git", "-C", "/repo", "worktree", "remove", "--force", wt])
        r = sh(["git", "-C", "/repo", "worktree", "add", "--detach", wt, "HEAD"])
        if r.returncode != 0:
            print(r.stdout); return 2
        r = sh(["git", "-C", wt, "apply", patch])
        if r.returncode != 0:
            print("patch does not apply:", r.stdout); return 2
        prog = ("import sys; sys.path.insert(0, %r)\n"
                "from vlib import core, flow\n"
                "core.build_harness = lambda *a, **k: (False, 'armflow demo: harness build skipped')\n"
                "plugin = core.load_plugin(%r)\n"
                "rc = flow.standard_check(plugin, 'quick', 1)\n"
                "print('exit status', rc)\n") % (copy, prop)
        r = sh([sys.executable, "-c", prog], cwd=copy, env=dict(os.environ, MECH_REPO=wt))
        out = r.stdout
        for line in out.split("\n"):
            if line.startswith("[%s]" % prop) or line.startswith("VIOLATION") or line.startswith("exit status"):
                print(line[:1200])
        m = re.search(r"VIOLATION property=\S+ replay=(\S+)", out)
        if m:
            p = m.group(1) if os.path.isabs(m.group(1)) else os.path.join(copy, m.group(1))
            rep = json.load(open(p))
            b = rep.get("broken", {})
            print("replay.broken.kind =", b.get("kind"))
            print("replay.broken.what =", b.get("what"))
            log = re.sub(r"\s+", " ", b.get("log", ""))
            i = log.find("Unable to unify")
            print("replay.broken.log  = ...", log[max(0, i - 160):i + 500] if i >= 0 else log[-600:])
        return 0
    finally:
        sh(["git", "-C", "/repo", "worktree", "remove", "--force", wt])
        shutil.rmtree(copy, ignore_errors=True)


if __name__ == "__main__":
    sys.exit(main())
