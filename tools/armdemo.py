#!/usr/bin/env python3
"""tools/armdemo.py <translator> <Gen name> <Proofs name> <seeded id | path/to/patch.diff | none>
   e.g.  tools/armdemo.py opassign_arms OpAssignArms OpAssignArmsP C05-2

Shows what the arm obligations of one family say about a seeded change WITHOUT touching /repo or the shared Coq tree:
  1. scratch git worktree of /repo HEAD under /tmp, the patch applied there;
  2. the translator run with MECH_REPO pointing at the scratch tree, output to a scratch Gen/<name>.v;
  3. scratch Coq directory: symlinks to the compiled libraries of /verif/coq/theories, except Gen/<name>.v (the seeded
     table) and Proofs/<name>.v (a copy), which are compiled there with coqc;
  4. prints the translator status, the first Coq error and the irregular sites it names; removes the scratch tree.
Exit status: 0 obligations hold, 1 an obligation fails, 2 tool problem."""
import os, re, shutil, subprocess, sys

ROOT = os.path.dirname(os.path.dirname(os.path.abspath(__file__)))
sys.path.insert(0, os.path.join(ROOT, "translators"))


def sh(cmd, **kw):
    return subprocess.run(cmd, stdout=subprocess.PIPE, stderr=subprocess.STDOUT, text=True, **kw)


def main():
    translator, gen, proofs, seeded = sys.argv[1:5]
    tag = re.sub(r"\W", "_", "%s_%s" % (gen, os.path.basename(seeded)))
    wt = "/tmp/armdemo-wt-" + tag
    scr = "/tmp/armdemo-coq-" + tag
    patch = None if seeded == "none" else seeded if os.path.exists(seeded) else os.path.join(ROOT, "seeded", seeded, "patch.diff")
    try:
        sh(["git", "-C", "/repo", "worktree", "remove", "--force", wt])
        r = sh(["git", "-C", "/repo", "worktree", "add", "--detach", wt, "HEAD"])
        if r.returncode != 0:
            print(r.stdout); return 2
        if patch:
            r = sh(["git", "-C", wt, "apply", patch])
            if r.returncode != 0:
                print("patch does not apply:", r.stdout); return 2
        shutil.rmtree(scr, ignore_errors=True)
        th = os.path.join(scr, "theories")
        src_th = os.path.join(ROOT, "coq", "theories")
        for sub in ("Base", "Model", "Gen", "Proofs"):
            os.makedirs(os.path.join(th, sub))
            for f in os.listdir(os.path.join(src_th, sub)):
                if f.endswith((".vo", ".v", ".glob", ".vos", ".vok")):
                    if (sub == "Gen" and f.startswith(gen + ".")) or (sub == "Proofs" and f.startswith(proofs + ".")):
                        continue
                    os.symlink(os.path.join(src_th, sub, f), os.path.join(th, sub, f))
        shutil.copy(os.path.join(src_th, "Proofs", proofs + ".v"), os.path.join(th, "Proofs", proofs + ".v"))
        out = os.path.join(th, "Gen", gen + ".v")
        env = dict(os.environ, MECH_REPO=wt)
        r = sh([sys.executable, os.path.join(ROOT, "translators", translator + ".py"), out], env=env)
        print("[armdemo] seeded change: %s" % (patch or "none (unchanged tree)"))
        print("[armdemo] translator: %s" % r.stdout.strip())
        if not os.path.exists(out):
            return 2
        for f in ("Gen/%s.v" % gen, "Proofs/%s.v" % proofs):
            r = sh(["coqc", "-Q", "theories", "MechV", "-w", "-notation-overridden,-deprecated-hint-without-locality,-deprecated-syntactic-definition,-deprecated-instance-without-locality",
                    "theories/" + f], cwd=scr)
            if r.returncode != 0:
                import armlib
                m = re.search(r'File "\./theories/([^"]+)", line (\d+)', r.stdout)
                where = "%s:%s" % (m.group(1), m.group(2)) if m else f
                thm = ""
                if m:
                    lines = open(os.path.join(scr, "theories", m.group(1))).read().split("\n")[:int(m.group(2))]
                    for l in reversed(lines):
                        mm = re.match(r"\s*(?:Theorem|Lemma)\s+([\w']+)", l)
                        if mm:
                            thm = mm.group(1); break
                print("[armdemo] OBLIGATION FAILS at %s (theorem %s)" % (where, thm))
                flat = re.sub(r"\s+", " ", r.stdout)
                print("[armdemo] coq: %s" % flat[-700:])
                for s in armlib.irregular_from_log(r.stdout):
                    print("[armdemo] irregular arm: %s" % s)
                return 1
        print("[armdemo] obligations hold")
        return 0
    finally:
        sh(["git", "-C", "/repo", "worktree", "remove", "--force", wt])
        shutil.rmtree(scr, ignore_errors=True)


if __name__ == "__main__":
    sys.exit(main())
