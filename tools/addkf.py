#!/usr/bin/env python3
"""tools/addkf.py <file.json>  — merge a list of finding entries into known-findings.json (by property+id)."""
import json, sys
p = '/verif/known-findings.json'
d = json.load(open(p))
new = json.load(open(sys.argv[1]))
if isinstance(new, dict):
    new = new.get('findings', [new])
have = {(f['property'], f['id']): i for i, f in enumerate(d['findings'])}
for n in new:
    n.setdefault('status', 'open')
    k = (n['property'], n['id'])
    if k in have:
        d['findings'][have[k]] = n
    else:
        d['findings'].append(n)
json.dump(d, open(p, 'w'), indent=1)
print('findings now:', len(d['findings']))
