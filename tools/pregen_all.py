#!/usr/bin/env python3
"""Run the translators (the `pregen` step of every claimed property's plugin) so that coq/theories/Gen/*.v is what the
CURRENT /repo source says, not whatever was committed.  Used by setup.sh; every ./check runs its own pregen anyway."""
import json, os, sys
ROOT = os.path.dirname(os.path.dirname(os.path.abspath(__file__)))
sys.path.insert(0, ROOT)
os.chdir(ROOT)
from vlib import core
ids = [c["property_id"] for c in json.load(open(os.path.join(ROOT, "MANIFEST.json")))["checks"]]
rc = 0
for pid in ids:
    try:
        pl = core.load_plugin(pid)
        if hasattr(pl, "pregen"):
            r = pl.pregen()
            print("[pregen] %s: %s" % (pid, str(r)[:160]))
    except Exception as e:      # a translator problem must not stop the build: the check itself reports it
        print("[pregen] %s: FAILED %r" % (pid, e)); rc = 0
sys.exit(rc)
