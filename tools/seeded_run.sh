#!/bin/bash
# tools/seeded_run.sh <seeded-id-dir> <check ids...>   — apply the seeded change to /repo, run the checks, undo.
# Only run when nothing else is building against /repo.
set -u
D=$1; shift
cd /verif
if ! git -C /repo diff --quiet; then echo "/repo is dirty"; exit 2; fi
git -C /repo apply $D/patch.diff || exit 2
RES=""
for c in "$@"; do
  ./check $c --tier quick > $D/run_$c.log 2>&1; rc=$?
  V=$(grep -c "^VIOLATION" $D/run_$c.log)
  RES="$RES $c:rc=$rc:violations=$V"
  grep "^VIOLATION" $D/run_$c.log | head -3
done
git -C /repo checkout -- .
echo "$RES" | tee $D/run_summary.txt
# restore the evidence of the unchanged tree
for c in "$@"; do ./check $c --tier quick > /dev/null 2>&1; done
