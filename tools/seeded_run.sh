#!/bin/bash
# tools/seeded_run.sh <seeded-dir> <check ids...>
# Runs the quick checks against a scratch worktree of /repo HEAD with the seeded change applied (MECH_REPO override:
# the harness is rebuilt with its /repo paths rewritten into .cache/alt); /repo itself is not touched.
# The evidence files of the unchanged tree are saved and restored.
set -u
# one seeded run / confirmation at a time (they share scratch worktrees)
exec 9>/tmp/seeded.lock; flock 9
D=$(realpath $1); shift
WT=/tmp/seed-wt
cd /verif
if [ ! -d $WT ]; then git -C /repo worktree add --detach $WT HEAD >/dev/null 2>&1 || exit 2; fi
git -C $WT checkout -q --detach $(git -C /repo rev-parse HEAD); git -C $WT checkout -q -- .
git -C $WT apply $D/patch.diff || { echo "patch does not apply"; exit 2; }
RES=""
for c in "$@"; do
  cp evidence/$c.json /tmp/evidence_$c.json.bak 2>/dev/null
  MECH_REPO=$WT ./check $c --tier quick > $D/run_$c.log 2>&1; rc=$?
  V=$(grep -c "^VIOLATION" $D/run_$c.log)
  RES="$RES $c:rc=$rc:violations=$V"
  grep "^VIOLATION" $D/run_$c.log | head -2
  for r in $(grep "^VIOLATION" $D/run_$c.log | sed 's/.*replay=\([^ ]*\).*/\1/' | head -1); do cp $r $D/caught_by_$c.json 2>/dev/null; done
  cp /tmp/evidence_$c.json.bak evidence/$c.json 2>/dev/null
done
git -C $WT checkout -q -- .
# the translators rewrote coq/theories/Gen/*.v from the scratch worktree: put the tables of the unchanged tree back
git -C /verif checkout -q -- coq/theories/Gen 2>/dev/null
echo "$RES" | tee $D/run_summary.txt
