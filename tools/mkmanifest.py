#!/usr/bin/env python3
"""Regenerates /verif/MANIFEST.json from the table below (one entry per claimed property)."""
import json, os
ROOT = os.path.dirname(os.path.dirname(os.path.abspath(__file__)))
TECH = "Rocq/Coq proof about a hand-written executable model + differential correspondence (extracted Coq judge vs the real implementation)"
TRUST = ("Trusted: Coq 8.16.1 kernel (vm_compute only in Examples/witnesses; no native_compute), extraction (ExtrOcamlBasic, ExtrOcamlString) + "
         "the 10-line OCaml line driver, the Rust harness (canonical printer, catch_unwind), the Python generators/comparer. The Rust code is "
         "modelled, not verified: agreement with the model is checked on the generated cases only. ")
E = {}
E["C11"] = dict(
 text="Coq theorems (Props/C11.v) prove, for every element type and every number and size of blocks: placement of each block element at its prefix-sum offset, result shape, coverage (nothing else in the result), definedness iff the tiling is valid, and soundness of the judge applied to the implementation's output. Tie: every generated tiling (all tilings up to 4x4, larger random ones, perturbed and mixed-kind ones, all 16 kinds) is evaluated by the real interpreter and judged by the extracted Coq judge.",
 note=TRUST + "Error kinds are not compared.", design="DESIGN.md §5 C11")
E["C07"] = dict(
 text="Machine-checked (Coq, Props/C07.v, no axioms), for payloads and programs of ANY size: every burst of 1..32 bits anywhere in payload||CRC (incl. straddling the trailer) and every non-zero corruption confined to 4 consecutive bytes makes CRC-32 verification fail (xor-linearity of the shift register + bit 31 of the polynomial; no polynomial algebra), emitted files verify; the WHOLE container codec — header, features, types, constant table, blob, symbols, instruction stream, dictionary, trailer — round-trips (load_program (encode_program p) = Ok p for every well-formed program; re-encoding a decoded encoder-produced file reproduces it; to_bytes and compile agree); the loader's allocation ledger is bounded by the file length on all inputs; the constant payload decoders invert the encoders for all well-formed scalars (u8..i128, f32/f64, bool, index, string, r64, c64) and dense matrices of any shape. Tie: for every emitted file of a program family all decoded sections and all decoded constant values of the real loader equal the model's decoding of the same bytes and the model re-encodes to the file; every/sampled truncation, single-bit flips and random bursts must be rejected; random, header-field, instruction-field and section-level mutations with recomputed CRC must not panic/abort/hang (1 GB address-space limit) and the model's accept/reject is compared; crc32fast is compared with the Coq CRC on random strings.",
 note=TRUST + "Truncation is decided per file by enumeration (a 2^-32 CRC coincidence cannot be excluded by proof). Set and table constant payloads are opaque to the model; 'canonical' in the re-encode theorem means 'produced by the encoder'; symbols and dictionary are ordered lists in the model but HashMaps in the code (compared sorted; byte-exact re-encoding with >= 2 symbols is order dependent — advisory, unreachable because the compiler defines no symbols). Accept/reject agreement on mutated files is advisory by rule. Files whose matrix payload has rows = 0 and a huge column count are excluded from generation (multi-second spin before the panic). Open findings: const-decoder-panic, emitted-constant-undecodable. Absence of panics for all byte strings is searched, not proved.",
 design="DESIGN.md §5 C07 and §0")
E["C15"] = dict(
 text="Coq theorems (Props/C15.v, 28 obligations, no axioms) define the value of the four range forms over unbounded integers and prove for all inputs: the closed form equals the recursive 'add s while before b' reading, soundness, completeness, exact position and length, maximality, kind-range preservation, emptiness for zero step or wrong direction; rational and exactly representable float operands are reduced to the integer grid by a proved scaling lemma. The extracted judge, proved sound, checks each observation of the real interpreter; for integer kinds a faithful model of the kernels is proved to meet the spec outside six narrow known-finding classes (C15_holds), each refuted by a witness (C15_refuted_*).",
 note=TRUST + "Binding: all 10 integer kinds, r64, and f32/f64 grids whose terms are exactly representable; c64, inexact float grids, ranges over 200,000 elements and single-element ranges used as an index are advisory. IEEE rounding used for known-finding prediction is an executable definition validated by agreement, not by proof. Six open findings are listed in known-findings.json.",
 design="DESIGN.md §5 C15")

def main():
    extra = os.path.join(ROOT, "tools", "manifest_entries.json")
    if os.path.exists(extra):
        E.update(json.load(open(extra)))
    # texts appended to an entry's claim (the translator ties added after the entries were written)
    app = os.path.join(ROOT, "tools", "manifest_append.json")
    if os.path.exists(app):
        for k, v in json.load(open(app)).items():
            if k in E and v.strip() not in E[k]["text"]:
                E[k] = dict(E[k], text=E[k]["text"].rstrip() + v)
    props = [json.loads(l)["id"] for l in open(os.path.join(ROOT, "properties.jsonl"))]
    checks = []
    for pid in props:
        if pid not in E:
            continue
        e = E[pid]
        checks.append({
            "property_id": pid,
            "quick_cmd": "./check %s --tier quick" % pid,
            "thorough_cmd": "./check %s --tier thorough" % pid,
            "evidence_file": "/verif/evidence/%s.json" % pid,
            "replay_cmd_template": "./check %s --replay {path}" % pid,
            "engine": "coq-proof+correspondence",
            "level_claimed": {"category": e.get("category", "proof"), "text": e["text"], "design_ref": e.get("design", "DESIGN.md §5")},
            "level_note": e["note"],
            "technique": e.get("technique", TECH),
        })
    na = [{"property_id": p, "reason": "not yet built (work in progress, see DESIGN.md §10 order of work): no check is registered and nothing is claimed"}
          for p in props if p not in E]
    hooks_commits = ["957a001 hook: guarded parser instrumentation for the C09 correspondence check (cfg mech_lang_mech_verif); add-only, in src/syntax/src/parser.rs and src/syntax/src/mechdown.rs"]
    m = {
        "version": 1,
        "setup_cmd": "./setup.sh",
        "hooks": {"guard": "mech_lang_mech_verif",
                  "enable": "RUSTFLAGS=\"--cfg mech_lang_mech_verif\" cargo build in /verif/harness (set by vlib/core.py)",
                  "baseline_off_cmd": "cd /repo && cargo test --workspace --no-fail-fast --offline",
                  "source_commits": hooks_commits, "add_only": True},
        "engines": [{"name": "coq-proof+correspondence", "path": "/verif/check", "serves_properties": [c["property_id"] for c in checks],
                     "kind_free_text": "Coq 8.16.1 development (coq/theories) + extracted OCaml judges + Rust harness (harness/) linked against /repo + Python driver (vlib/, gen/)"}],
        "checks": checks,
        "not_applicable": na,
        "notes": "See DESIGN.md. Genuine defects repaired by fix: commits in /repo are listed in known-findings.json under fixed; open findings under findings.",
    }
    json.dump(m, open(os.path.join(ROOT, "MANIFEST.json"), "w"), indent=1)
    print("claimed:", [c["property_id"] for c in checks])

main()
