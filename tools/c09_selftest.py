#!/usr/bin/env python3
"""tools/c09_selftest.py — does the C09 progress obligation notice a broken parser?

Copies /repo/src/syntax (sources + Cargo.toml, NOT the build tree) to a scratch directory, applies one small mutation
at a time (delete a consuming token from a repetition body, remove a progress check, make a recovery path return the
unchanged input, introduce left recursion), runs the translator on the copy and evaluates the SAME Coq analysis
(`analyse (cut assumed_loops grammar)` of Model/ProgressInst.v) on the mutated grammar with coqc on a scratch file.
Every mutant must make the report differ from the allow-listed one; the unmutated copy must not.

  python3 tools/c09_selftest.py [--keep] [--only NAME] [--python-only]
Exit 0: every mutant detected and the baseline clean.  Prints one JSON line per mutant.
/repo is never written to.
"""
import json, os, re, shutil, subprocess, sys, tempfile
ROOT = os.path.dirname(os.path.dirname(os.path.abspath(__file__)))
sys.path.insert(0, os.path.join(ROOT, "translators"))
REPO = os.environ.get("MECH_REPO", "/repo")

# (name, file, old text, new text, what must show up)
MUTANTS = [
    ("skip_till_eol-body-consumes-nothing", "parser.rs",
     "  let (input, matched) = many0(nom_tuple((\n    is_not(new_line),\n    any_token,\n  )))(input)?;\n  let mut matched: Vec<Token> = matched.into_iter().map(|(_, t)| t).collect(); \n  let tkn = Token::merge_tokens(&mut matched).unwrap_or(Token::default()); \n  #[cfg(mech_lang_mech_verif)]\n  verif_hook::push(verif_hook::SKIP_TILL_EOL",
     "  let (input, matched) = many0(nom_tuple((\n    is_not(new_line),\n    is_not(new_line),\n  )))(input)?;\n  let mut matched: Vec<Token> = vec![]; \n  let tkn = Token::merge_tokens(&mut matched).unwrap_or(Token::default()); \n  #[cfg(mech_lang_mech_verif)]\n  verif_hook::push(verif_hook::SKIP_TILL_EOL",
     dict(guard="skip_till_eol$many0#1")),
    ("body-progress-check-removed", "mechdown.rs",
     "        if input.cursor == new_input.cursor {\n          break;\n        }\n",
     "",
     dict(cycle="body$loop#1")),
    ("whitespace0-made-optional-in-many1", "base.rs",
     "  let (input, _) = many1(whitespace)(input)?;",
     "  let (input, _) = many1(opt(whitespace))(input)?;",
     dict(guard="whitespace1$many1#1")),
    ("left-recursion-parenthetical-term", "expressions.rs",
     "  let (input, (_, r)) = range(left_parenthesis)(input)?;\n  let (input, _) = space_tab0(input)?;\n  let (input, frmla) = label!(formula, msg1)(input)?;",
     "  let (input, (_, r)) = range(opt(left_parenthesis))(input)?;\n  let (input, _) = space_tab0(input)?;\n  let (input, frmla) = label!(formula, msg1)(input)?;",
     dict(cycle="parenthetical_term")),
    ("pattern-array-loop-no-progress", "patterns.rs",
     "    let (next_input, token) = pattern_array_token(input.clone())?;\n    input = next_input;\n    tokens.push(token);",
     "    let (next_input, token) = opt(pattern_array_token)(input.clone())?;\n    input = next_input;",
     dict(cycle="pattern_array$loop#1")),
    ("recovery-returns-unchanged-input", "parser.rs",
     "  if input.is_empty() {\n    return Ok((input, Token::default()));\n  }\n  let (input, matched) = skip_past_eol(input)?;\n  let (input, matched2) = many0(nom_tuple((\n    is_not(section_element),\n    skip_past_eol,\n  )))(input)?;",
     "  if input.is_empty() {\n    return Ok((input, Token::default()));\n  }\n  let (input, matched) = skip_till_eol(input)?;\n  let (input, matched2) = many0(nom_tuple((\n    is_not(section_element),\n    skip_till_eol,\n  )))(input)?;",
     dict(guard="skip_till_section_element$many0#1")),
    ("title-front-matter-forgets-to-advance", "mechdown.rs",
     "    let (next_input, paragraph) = inline_paragraph(next_input)?;\n    let (next_input, _) = new_line(next_input)?;\n    input = next_input;\n",
     "    let (next_input, paragraph) = inline_paragraph(next_input)?;\n    let (next_input, _) = new_line(next_input)?;\n",
     dict(cycle="title_front_matter$loop#1")),
    ("separator-made-nullable", "structures.rs",
     "  let (input, exprs) = separated_list0(list_separator, expression)(input)?;",
     "  let (input, exprs) = separated_list0(whitespace0, expression)(input)?;",
     dict(guard="tuple$separated_list0#1")),
    ("unordered-list-continue-without-item", "mechdown.rs",
     "    let (next_input, list_item) = match unordered_list_item(next_input.clone()) {\n      Ok((next_input, list_item)) => (next_input, list_item),\n      Err(err) => {\n        if !items.is_empty() {\n          return Ok((input, MDList::Unordered(items)));\n        } else {\n          return Err(err);\n        }\n      }\n    };",
     "    let (next_input, list_item) = match unordered_list_item(next_input.clone()) {\n      Ok((next_input, list_item)) => (next_input, list_item),\n      Err(err) => {\n        continue;\n      }\n    };",
     dict(cycle="unordered_list$loop#1")),
]
MUTANTS = [m for m in MUTANTS if m[4] is not None]

SCRATCH_V = """From Coq Require Import List String.
From MechV Require Import Model.Progress.
Require Import ParserGrammarMut.
Import ListNotations.
Open Scope string_scope.
Definition assumed_loops : list (string * bool) := [("mech_code$loop#1", false); ("section$loop#1", false)].
Definition rep := Eval vm_compute in analyse (cut assumed_loops grammar).
Eval vm_compute in r_nu_bad rep.
Eval vm_compute in r_cycles rep.
Eval vm_compute in r_guards rep.
Eval vm_compute in on_cycle (compute_nu grammar) grammar.
"""


def copy_sources(dst):
    os.makedirs(os.path.join(dst, "src", "syntax", "src"))
    shutil.copy(os.path.join(REPO, "src", "syntax", "Cargo.toml"), os.path.join(dst, "src", "syntax", "Cargo.toml"))
    for f in os.listdir(os.path.join(REPO, "src", "syntax", "src")):
        if f.endswith(".rs"):
            shutil.copy(os.path.join(REPO, "src", "syntax", "src", f), os.path.join(dst, "src", "syntax", "src", f))


def python_report(root):
    import parser_grammar as PG, pg_analysis as A
    S, X, entries, aux = PG.translate(root)
    G = [(k, b) for k, _, _, b in entries] + aux
    an = A.Analysis(G)
    return dict(cycles=an.cycles(), guards=sorted(g.split(":", 1)[1] for g in an.guards_live()),
                unknown=len(X.unknown_sites))


def coq_report(root, work):
    import parser_grammar as PG
    out = os.path.join(work, "ParserGrammarMut.v")
    PG.regenerate(root=root, out=out, side=None)
    open(os.path.join(work, "Scratch.v"), "w").write(SCRATCH_V)
    coq = os.path.join(ROOT, "coq")
    for f in ("ParserGrammarMut.v", "Scratch.v"):
        p = subprocess.run(["timeout", "600", "coqc", "-q", "-Q", os.path.join(coq, "theories"), "MechV", "-Q", work, "", os.path.join(work, f)],
                           cwd=coq, stdout=subprocess.PIPE, stderr=subprocess.STDOUT, universal_newlines=True)
        if p.returncode != 0:
            return dict(error=p.stdout[-1500:])
    vals = re.findall(r"=\s*(\[.*?\])\s*:\s*list", p.stdout, re.S)
    def strs(t):
        return re.findall(r'"([^"]*)"', t)
    if len(vals) < 4:
        return dict(error="cannot read coqc output: " + p.stdout[-800:])
    cyc = strs(vals[1])
    return dict(nu_bad=strs(vals[0]), cycles=[(cyc[i], cyc[i + 1]) for i in range(0, len(cyc) - 1, 2)], guards=strs(vals[2]), on_cycle=strs(vals[3]))


BASE_GUARDS = ["paragraph$many1#1", "regular_table$separated_list1#1"]


def run(only=None, python_only=False, keep=False, log=print):
    work = tempfile.mkdtemp(prefix="c09mut-")
    results, ok = [], True
    try:
        todo = [("baseline", None, None, None, dict())] + [m for m in MUTANTS if only in (None, m[0])]
        for name, fn, old, new, expect in todo:
            root = os.path.join(work, name)
            copy_sources(root)
            if fn is not None:
                p = os.path.join(root, "src", "syntax", "src", fn)
                src = open(p, encoding="utf-8", newline="").read()
                crlf = "\r\n" in src
                s2 = src.replace("\r\n", "\n")
                if s2.count(old) != 1:
                    results.append(dict(mutant=name, detected=None, error="mutation site not found (the source changed): update tools/c09_selftest.py"))
                    ok = False
                    continue
                s2 = s2.replace(old, new)
                open(p, "w", encoding="utf-8", newline="").write(s2.replace("\n", "\r\n") if crlf else s2)
            try:
                rep = python_report(root)
                if not python_only:
                    cw = os.path.join(work, name + "-coq")
                    os.makedirs(cw)
                    rep["coq"] = coq_report(root, cw)
            except Exception as ex:       # noqa
                results.append(dict(mutant=name, detected=None, error=repr(ex)[:300]))
                ok = False
                continue
            if python_only:
                flagged_cycles = [x for c in rep["cycles"] for x in c if x not in ("mech_code$loop#1", "section$loop#1")]
                guards = [g for g in rep["guards"] if g not in BASE_GUARDS]
            else:
                c = rep["coq"]
                if "error" in c:
                    results.append(dict(mutant=name, detected=None, error=c["error"][-400:]))
                    ok = False
                    continue
                flagged_cycles = sorted(set(x for e in c["cycles"] for x in e)) + c["nu_bad"]
                guards = [g for g in c["guards"] if g not in BASE_GUARDS]
            detected = bool(flagged_cycles or guards)
            r = dict(mutant=name, detected=detected, cycles=flagged_cycles[:8], guards=guards[:8])
            if name == "baseline":
                r["clean"] = not detected
                ok = ok and not detected
            else:
                want = expect.get("cycle") or expect.get("guard")
                r["expected_site_reported"] = any(want in x for x in flagged_cycles + guards)
                ok = ok and detected and r["expected_site_reported"]
            results.append(r)
            log(json.dumps(r))
    finally:
        if not keep:
            shutil.rmtree(work, ignore_errors=True)
    return ok, results


if __name__ == "__main__":
    import argparse
    ap = argparse.ArgumentParser()
    ap.add_argument("--keep", action="store_true")
    ap.add_argument("--only")
    ap.add_argument("--python-only", action="store_true")
    a = ap.parse_args()
    ok, _ = run(a.only, a.python_only, a.keep)
    sys.exit(0 if ok else 1)
