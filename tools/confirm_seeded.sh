#!/bin/bash
# tools/confirm_seeded.sh <out-dir with patch.diff + demo.rs + meta.json> <ID>
# Confirms in a scratch worktree (/tmp/confirm-wt, warm target copied from /repo/target once):
#   (1) patch applies, (2) whole existing suite passes with it, (3) demo fails with it, (4) demo passes without it.
# Writes <out-dir>/confirm.json.  The worktree is kept between calls (removed by tools/confirm_cleanup.sh).
set -u
# one seeded run / confirmation at a time (they share scratch worktrees)
exec 9>/tmp/seeded.lock; flock 9
OUT=$1; ID=$2
WT=/tmp/confirm-wt
export CARGO_NET_OFFLINE=true RUSTC_BOOTSTRAP=1 CARGO_INCREMENTAL=0
if [ ! -d $WT ]; then
  git -C /repo worktree add --detach $WT HEAD >/dev/null 2>&1 || exit 2
  cp -r /tmp/mut-template-target $WT/target
fi
cd $WT
git checkout -q --detach $(git -C /repo rev-parse HEAD) 2>/dev/null
git checkout -q -- . ; rm -f tests/seeded_*.rs
R() { echo "$1" >> $OUT/confirm.log; }
: > $OUT/confirm.log
APPLY=no; SUITE=no; DEMO_FAIL=no; DEMO_PASS=no
if git apply --check $OUT/patch.diff 2>>$OUT/confirm.log; then APPLY=yes; fi
DEMO=$(ls $OUT/demo*.rs 2>/dev/null | head -1)
TESTNAME=seeded_$(echo $ID | tr 'A-Z' 'a-z')
if [ "$APPLY" = yes ] && [ -n "$DEMO" ]; then
  # without patch: demo must pass
  cp $DEMO tests/$TESTNAME.rs
  if timeout 3000 cargo test --offline --test $TESTNAME >> $OUT/confirm.log 2>&1; then DEMO_PASS=yes; fi
  git apply $OUT/patch.diff
  if timeout 3000 cargo test --offline --test $TESTNAME >> $OUT/confirm.log 2>&1; then DEMO_FAIL=no; else DEMO_FAIL=yes; fi
  rm -f tests/$TESTNAME.rs
  timeout 3000 cargo test --workspace --no-fail-fast --offline > $OUT/suite.log 2>&1
  P=$(grep -E "^test result" $OUT/suite.log | awk '{p+=$4; f+=$6} END {print p" "f}')
  R "suite passed/failed: $P"
  if [ "$P" = "652 0" ]; then SUITE=yes; fi
  git checkout -q -- .
fi
printf '{"id":"%s","applies":"%s","suite_passes_with_patch":"%s","demo_fails_with_patch":"%s","demo_passes_without_patch":"%s"}\n' $ID $APPLY $SUITE $DEMO_FAIL $DEMO_PASS > $OUT/confirm.json
cat $OUT/confirm.json
# keep the scratch target small: drop test binaries and incremental state
rm -rf $WT/target/debug/incremental
( cd $WT/target/debug/deps 2>/dev/null && ls | grep -E "^(mech|mechc|interpreter|bytecode|seeded_[a-z0-9]+)-[0-9a-f]+$" | xargs rm -f )
