#!/bin/sh
# Build everything the checks need, offline, from files on disk.
set -e
cd "$(dirname "$0")"
export CARGO_NET_OFFLINE=true RUSTC_BOOTSTRAP=1
./mk
( cd harness && RUSTFLAGS="--cfg mech_lang_mech_verif" CARGO_TARGET_DIR=/verif/.cache/target timeout 3000 cargo build --offline --quiet )
echo setup ok
