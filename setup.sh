#!/bin/sh
# Build everything the registered checks need, offline, from files on disk.
# Only the Coq targets of properties claimed in MANIFEST.json are built here (work in progress on
# other properties may sit in the tree); every ./check rebuilds what it needs anyway.
set -e
cd "$(dirname "$0")"
export CARGO_NET_OFFLINE=true RUSTC_BOOTSTRAP=1
TARGETS=$(python3 - <<'PY'
import json, os
m = json.load(open("MANIFEST.json"))
t = []
for c in m["checks"]:
    p = c["property_id"]
    for f in ("theories/Props/%s.v" % p, "theories/Extract/%sx.v" % p):
        if os.path.exists(os.path.join("coq", f)):
            t.append(f[:-2] + ".vo")
print(" ".join(t))
PY
)
# the Gen/*.v tables are regenerated from /repo's current source first (translators; never trust the committed copies)
python3 tools/pregen_all.py || true
./mk $TARGETS
( cd harness && RUSTFLAGS="--cfg mech_lang_mech_verif" CARGO_TARGET_DIR=/verif/.cache/target timeout 3000 cargo build --offline --quiet )
for d in harness20; do
  if [ -f "$d/Cargo.toml" ] && grep -q '"C20"' MANIFEST.json; then
    ( cd $d && RUSTFLAGS="--cfg mech_lang_mech_verif" timeout 3000 cargo build --offline --quiet ) || true
  fi
done
echo setup ok
