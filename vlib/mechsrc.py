"""Rendering of values to Mech source text and to the canonical payloads printed
by harness/src/canon.rs.  Shared by the generators."""
import struct
from fractions import Fraction

INT_KINDS = ["u8", "u16", "u32", "u64", "u128", "i8", "i16", "i32", "i64", "i128"]
FLOAT_KINDS = ["f32", "f64"]
NUM_KINDS = INT_KINDS + FLOAT_KINDS + ["r64", "c64"]
ALL_KINDS = NUM_KINDS + ["bool", "string"]

def bits_of(k):
    return int(k[1:]) if k[0] in "ui" else None

def kind_range(k):
    w = int(k[1:])
    if k[0] == "u":
        return 0, (1 << w) - 1
    return -(1 << (w - 1)), (1 << (w - 1)) - 1

def f64_bits(x):
    return struct.unpack("<Q", struct.pack("<d", x))[0]

def f32_bits(x):
    return struct.unpack("<I", struct.pack("<f", x))[0]

def bits_f64(b):
    return struct.unpack("<d", struct.pack("<Q", b))[0]

def bits_f32(b):
    return struct.unpack("<f", struct.pack("<I", b))[0]

def fmt_float(x):
    """Decimal spelling without exponent; only used for values that are short dyadic decimals."""
    if x == int(x) and abs(x) < 2 ** 53:
        return str(int(x)) + (".0" if False else "")
    s = repr(x)
    assert "e" not in s and "E" not in s, s
    return s

# ---- element model: python value per kind ---------------------------------
#  ints: int ; f64/f32: float ; r64: Fraction ; c64: (float, float) ; bool ; string: str

def payload(k, v):
    """canonical payload as printed by canon.rs (python structure for vlib.core.sx)"""
    from .core import q
    if k in INT_KINDS:
        return int(v)
    if k == "f64":
        return f64_bits(v)
    if k == "f32":
        return f32_bits(v)
    if k == "r64":
        v = Fraction(v)
        return [v.numerator, v.denominator]
    if k == "c64":
        return [f64_bits(v[0]), f64_bits(v[1])]
    if k == "bool":
        return 1 if v else 0
    if k == "string":
        return q(v)
    raise ValueError(k)

def lit(k, v, typed=False):
    """source literal of a value of kind k.  typed=True appends a kind annotation where needed."""
    if k in INT_KINDS:
        s = str(int(v))
        return s + ("<%s>" % k if typed else "")
    if k in ("f64", "f32"):
        s = fmt_float(v)
        return s + ("<%s>" % k if (typed and k == "f32") else "")
    if k == "r64":
        v = Fraction(v)
        return "%d/%d" % (v.numerator, v.denominator)
    if k == "c64":
        re, im = v
        return "%s%s%si" % (fmt_float(re), "+" if im >= 0 else "-", fmt_float(abs(im)))
    if k == "bool":
        return "true" if v else "false"
    if k == "string":
        return '"%s"' % v
    raise ValueError(k)

def mat_literal(k, rows, cols, data_colmajor, typed_elems=False):
    rws = []
    for i in range(rows):
        rws.append(" ".join(lit(k, data_colmajor[j * rows + i], typed_elems) for j in range(cols)))
    return "[" + "; ".join(rws) + "]"

def define_scalar(name, k, v, mutable=False):
    pre = "~" if mutable else ""
    if k in INT_KINDS or k == "f32":
        return "%s%s<%s> := %s" % (pre, name, k, lit(k, v))
    return "%s%s := %s" % (pre, name, lit(k, v))

def define_matrix(name, k, rows, cols, data, mutable=False):
    pre = "~" if mutable else ""
    if k in INT_KINDS or k == "f32":
        return "%s%s<[%s]:%d,%d> := %s" % (pre, name, k, rows, cols, mat_literal(k, rows, cols, data))
    return "%s%s := %s" % (pre, name, mat_literal(k, rows, cols, data))

def kval_scalar(k, v):
    return ["s", k, payload(k, v)]

def kval_matrix(k, rows, cols, data):
    return ["m", k, rows, cols, [payload(k, v) for v in data]]

# ---- value pools ------------------------------------------------------------
def sample_value(k, rng, small=False):
    """A value of kind k that the literal syntax denotes exactly (|ints| < 2^53, short dyadic floats)."""
    if k in INT_KINDS:
        lo, hi = kind_range(k)
        lo, hi = max(lo, -(2 ** 53) + 1), min(hi, 2 ** 53 - 1)
        if small:
            lo, hi = max(lo, -9), min(hi, 9)
        pool = [0, 1, 2, 3, hi, hi - 1, lo, lo + 1, hi // 2]
        if rng.random() < 0.5:
            return rng.choice([p for p in pool if lo <= p <= hi])
        return rng.randint(max(lo, -1000), min(hi, 1000))
    if k in ("f64", "f32"):
        if rng.random() < 0.3:
            return float(rng.choice([0, 1, -1, 2, 0.5, -0.5, 0.25, 1.5, -2.75, 100, 1024, 0.125]))
        return float(rng.randint(-2000, 2000)) / rng.choice([1, 2, 4, 8])
    if k == "r64":
        return Fraction(rng.randint(-20, 20), rng.randint(1, 12))
    if k == "c64":
        return (float(rng.randint(-9, 9)), float(rng.randint(-9, 9)))
    if k == "bool":
        return rng.random() < 0.5
    if k == "string":
        return rng.choice(["a", "b", "xy", "hello", "", "Z9", "q r"])
    raise ValueError(k)
