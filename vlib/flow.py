"""The standard check flow shared by most properties (DESIGN.md §3.1, §3.5, §10)."""
import collections, glob, hashlib, json, os, random, sys, time
from . import core
from .core import log


class Case(dict):
    """id: str, sx: case S-expression text (model side), impl: dict (mvh JSON), tags: dict, src: text for humans"""


def judge_cases(model_exe, mode, cases, harness_exe=None, stall=30.0):
    """Run implementation then model; returns list of (case, obs_text, verdict_text)."""
    obs = core.run_impl(mode, cases, exe=harness_exe, stall=stall)
    # a case without an observation, or one the supervisor attributed a hang / abort to, is run once more on its own
    # (a heavily loaded machine can starve a process past the stall limit, and the attribution of an abort to "the
    # current case" is a guess when the process died between two cases); a reproducible hang or abort stays one
    redo = [c for c in cases if obs.get(c["id"], "(missing)").startswith(("(missing", "(hang", "(abort"))]
    if 0 < len(redo) <= 40 and len(cases) > len(redo):
        obs.update(core.run_impl(mode, redo, exe=harness_exe, stall=stall * 2, workers=4))
    lines = []
    for c in cases:
        o = obs.get(c["id"], "(missing)")
        lines.append("(%s %s)" % (c["sx"], o))
    verdicts = core.run_model(model_exe, lines)
    return [(c, obs.get(c["id"], "(missing)"), v) for c, v in zip(cases, verdicts)]


def classify(v):
    p = core.parse_sx(v)
    if isinstance(p, list) and p and p[0] in ("ok", "adv", "kf", "bad"):
        return p[0], (p[1] if len(p) > 1 else ""), p
    return "internal", v, p


def shrink_case(plugin, model_exe, mode, case, harness_exe, budget_s=60.0):
    if not hasattr(plugin, "shrink"):
        return case
    t0 = time.time()
    cur = case
    improved = True
    rounds = 0
    while improved and time.time() - t0 < budget_s and rounds < 40:
        improved = False
        rounds += 1
        cands = list(plugin.shrink(cur))[:64]
        if not cands:
            break
        for k, c in enumerate(cands):
            c["id"] = "shrink%d_%d" % (rounds, k)
        res = judge_cases(model_exe, mode, cands, harness_exe)
        for c, o, v in res:
            if classify(v)[0] == "bad":
                cur = c
                improved = True
                break
    return cur


def standard_check(plugin, tier, seed, replay=None):
    prop = plugin.PROP
    t0 = time.time()
    mode = getattr(plugin, "MODE", "prog")
    crate = getattr(plugin, "CRATE", "harness")
    props_files = getattr(plugin, "PROPS_FILES", ["theories/Props/%s.v" % prop])
    level = getattr(plugin, "LEVEL", "proof")
    assumptions = list(getattr(plugin, "ASSUMPTIONS", []))
    known = core.load_known(prop)
    violations = []       # list of (replay_path, suffix)
    notes = []

    # ---- 0. translators: regenerate Gen/*.v from /repo's current source ----
    translator_status = None
    if hasattr(plugin, "pregen"):
        try:
            translator_status = plugin.pregen()      # returns a dict / string recorded in the evidence
        except Exception as ex:                       # a translator that cannot read the source never alarms by itself
            translator_status = "unavailable: %r" % (ex,)
        log("[%s] translator: %s" % (prop, translator_status))

    # ---- 1. proof step --------------------------------------------------
    proof = core.proof_step(prop, props_files, ["theories/Extract/%sx.vo" % prop])
    if not proof["ok"]:
        log("[%s] proof step FAILED: %s" % (prop, proof["failed"]))
    else:
        log("[%s] proof step ok: %d theorems, axioms: %s" % (prop, proof["obligations"], proof["axioms"] or "none"))

    # ---- 1b. thorough tier: independent re-check of the compiled libraries with coqchk ----
    if tier == "thorough" and proof["ok"]:
        mods = ["MechV." + pf[len("theories/"):-2].replace("/", ".") for pf in props_files]
        rc, out = core.run(["coqchk", "-silent", "-o", "-Q", "theories", "MechV"] + mods, cwd=core.COQ, timeout=3000)
        ax = []
        grab = False
        for line in out.split("\n"):
            if line.strip().startswith("* Axioms:"):
                grab = True; continue
            if grab:
                if line.strip().startswith("*") or not line.strip():
                    grab = False
                else:
                    ax.append(line.strip())
        proof["coqchk"] = dict(rc=rc, axioms=ax, tail=out[-800:])
        bad_ax = [a for a in ax if a != "<none>" and not any(a.endswith(x.split(".")[-1]) or x in a for x in core.STDLIB_AXIOMS_ALLOWED)]
        if rc != 0 or bad_ax:
            proof["ok"] = False
            proof["failed"] = "coqchk: rc=%d axioms outside the allow-list: %s" % (rc, bad_ax)
            proof["discharged"] = 0
        log("[%s] coqchk rc=%d axioms=%s" % (prop, rc, ax))

    # ---- 2. model binary ------------------------------------------------
    model_exe, mlog = core.build_model(prop)
    # ---- 3. implementation ----------------------------------------------
    target_dir = getattr(plugin, "TARGET_DIR", None) or core.TARGET      # a plugin with its own crate may name its own target dir
    hok, hlog = core.build_harness(crate, target=target_dir) if target_dir != core.TARGET else core.build_harness(crate)
    harness_exe = os.path.join(core.alt_target(target_dir), "debug", getattr(plugin, "BIN", "mvh"))

    cov = dict(evaluations=0, distinct_nontrivial=0, rule=getattr(plugin, "RULE", ""), samples=[],
               traces_validated_against_impl=0, binding_ok=0, advisory=0, known_finding_hits={},
               verdict_tags={}, input_distribution={}, internal_errors=0)

    results = []
    if model_exe is None:
        notes.append("model does not build: " + mlog[-1500:])
    if not hok:
        notes.append("harness does not build against /repo: " + hlog[-1500:])

    if model_exe and hok:
        # ---- 4. correspondence: corpus first, then generator ------------
        cases = []
        if replay:
            r = json.load(open(replay))
            c = Case(r["case"]); c["id"] = "replay"; cases = [c]
        else:
            for f in sorted(glob.glob(os.path.join(core.REPLAYS, "corpus", prop, "*.json"))):
                r = json.load(open(f))
                c = Case(r["case"]); c["id"] = "corpus_" + os.path.basename(f)[:-5]
                c.setdefault("tags", {})["stream"] = "corpus"
                cases.append(c)
            rng = random.Random(seed)
            for i, c in enumerate(plugin.generate(tier, rng)):
                c = Case(c); c["id"] = "g%d" % i
                cases.append(c)
        log("[%s] %d cases" % (prop, len(cases)))
        results = judge_cases(model_exe, mode, cases, harness_exe, stall=getattr(plugin, "STALL", 30.0))
        if replay:
            for c, o, v in results:
                print("case:   ", c["sx"]); print("source: ", json.dumps(c.get("impl"))); print("impl:   ", o); print("verdict:", v)

        seen_nontrivial = set()
        dist = collections.Counter()
        tags = collections.Counter()
        kf_hits = collections.Counter()
        bad = []
        trivial = set(getattr(plugin, "TRIVIAL_TAGS", ["error"]))
        for c, o, v in results:
            cov["evaluations"] += 1
            for k, val in (c.get("tags") or {}).items():
                dist["%s=%s" % (k, val)] += 1
            cls, tag, parsed = classify(v)
            tags["%s:%s" % (cls, tag)] += 1
            if cls == "ok":
                cov["binding_ok"] += 1
                cov["traces_validated_against_impl"] += 1
                if tag not in trivial:
                    seen_nontrivial.add(hashlib.sha1(c["sx"].encode()).hexdigest())
            elif cls == "adv":
                cov["advisory"] += 1
            elif cls == "kf":
                # a verdict may name several candidate classes (C08 documents combining elements of several classes):
                # it is explained when one of them is listed
                ids = [x for x in parsed[1:] if isinstance(x, str)] or [tag]
                listed = [x for x in ids if x in known]
                kf_hits[(listed or ids)[0]] += 1
                if not listed:
                    bad.append((c, o, v, "known-finding class %s is not listed in known-findings.json" % "/".join(ids)))
            elif cls == "bad":
                bad.append((c, o, v, tag))
            else:
                cov["internal_errors"] += 1
                if cov["internal_errors"] <= 5:
                    log("[%s] INTERNAL: case %s verdict %r obs %r" % (prop, c["sx"][:300], v, o[:300]))
        cov["distinct_nontrivial"] = len(seen_nontrivial)
        cov["verdict_tags"] = dict(tags)
        cov["input_distribution"] = dict(dist)
        cov["known_finding_hits"] = dict(kf_hits)
        step = max(1, len(results) // 6)
        for c, o, v in results[::step][:8]:
            cov["samples"].append(dict(case=c["sx"][:600], impl_input=c.get("impl"), impl_obs=o[:600], verdict=v[:300]))

        for fid, n in sorted(kf_hits.items()):
            if fid in known:
                print("KNOWN-FINDING: property=%s %s: %s (%d cases this run)" % (prop, fid, known[fid].get("what_fails", ""), n))

        # ---- 5. violations: shrink, replay -------------------------------
        reported = set()
        for c, o, v, why in bad[:200]:
            key = why if isinstance(why, str) else str(why)
            if key in reported and len(reported) >= 1:
                continue
            reported.add(key)
            small = shrink_case(plugin, model_exe, mode, c, harness_exe) if not replay else c
            rs = judge_cases(model_exe, mode, [small], harness_exe)
            sc, so, sv = rs[0]
            path = core.write_replay(prop, dict(property=prop, mode=mode, why=why, case=dict(sx=sc["sx"], impl=sc["impl"], tags=sc.get("tags", {})),
                                               impl_obs=so, verdict=sv, original_case=c["sx"], seed=seed, tier=tier,
                                               how_to_replay="./check %s --replay <this file>" % prop))
            violations.append((path, ""))
            if len(violations) >= 5:
                break
        cov["bad_cases"] = len(bad)

    # ---- proof or tie broken and no failing input found -------------------
    if not violations:
        broken = None
        if not proof["ok"]:
            broken = dict(kind="proof", what=proof["failed"], log=proof["log"][-3000:], theorems=proof["theorems"])
        elif model_exe is None:
            broken = dict(kind="model-build", what="extracted model does not build", log=mlog[-3000:])
        elif not hok:
            broken = dict(kind="correspondence", what="correspondence:%s harness does not compile against /repo" % mode, log=hlog[-3000:])
        elif cov["internal_errors"] > 0:
            broken = dict(kind="correspondence", what="correspondence:%s produced %d unreadable verdicts" % (mode, cov["internal_errors"]))
        if broken:
            path = core.write_replay(prop, dict(property=prop, no_failing_input_found=True, broken=broken, seed=seed, tier=tier))
            violations.append((path, " no-failing-input-found"))
    elif not proof["ok"]:
        notes.append("proof step also failed: %s" % proof["failed"])

    cov["notes"] = notes
    cov["translator"] = translator_status
    if "coqchk" in proof:
        cov["coqchk"] = proof["coqchk"]
    core.write_evidence(prop, tier, seed, t0, proof, cov, assumptions, len(violations), level=level)
    for path, suffix in violations:
        print("VIOLATION property=%s replay=%s%s" % (prop, path, suffix))
    log("[%s] %s: %d evaluations, %d distinct nontrivial, %d advisory, %d violations, %.1fs" % (
        prop, tier, cov["evaluations"], cov["distinct_nontrivial"], cov["advisory"], len(violations), time.time() - t0))
    return 1 if violations else 0
