"""Shared driver machinery for ./check (see DESIGN.md §2, §3, §7).

Pipeline per property:
  1. proof step     : (re)compile the Coq targets of the property, hygiene greps,
                      Print Assumptions allow-list             -> obligations/discharged
  2. model binary   : extracted OCaml model + generic driver   -> coq/ocaml/<id>/mechmodel
  3. implementation : cargo build of harness/ against /repo's working tree
  4. correspondence : generator -> mvh (real code) -> model judge (extracted Coq)
  5. verdicts       : ok / adv / kf / bad  -> KNOWN-FINDING, VIOLATION, evidence
"""
import hashlib, importlib.util, json, os, random, re, resource, shutil, subprocess, sys, threading, time

ROOT = os.path.dirname(os.path.dirname(os.path.abspath(__file__)))
COQ = os.path.join(ROOT, "coq")
HARNESS = os.path.join(ROOT, "harness")
CACHE = os.path.join(ROOT, ".cache")
TARGET = os.path.join(CACHE, "target")
# testing aid only (MECH_REPO): the harness built against a scratch worktree lives under .cache/alt
MVH = os.path.join(TARGET if os.environ.get("MECH_REPO", "/repo") == "/repo" else os.path.join(CACHE, "alt", "target"), "debug", "mvh")
EVID = os.path.join(ROOT, "evidence")
REPLAYS = os.path.join(ROOT, "replays")
GUARD = "mech_lang_mech_verif"
NCPU = min(16, os.cpu_count() or 4)

STDLIB_AXIOMS_ALLOWED = {
    # named in DESIGN.md §6 (Flocq's real-number layer; Program/Equations)
    "ClassicalDedekindReals.sig_not_dec",
    "ClassicalDedekindReals.sig_forall_dec",
    "FunctionalExtensionality.functional_extensionality_dep",
    "Classical_Prop.classic",
    "Eqdep.Eq_rect_eq.eq_rect_eq",
    "JMeq.JMeq_eq",
    "ProofIrrelevance.proof_irrelevance",
    "PropExtensionality.propositional_extensionality",
}

FORBIDDEN = re.compile(
    r"\b(Admitted|admit|Axiom|Axioms|Parameter|Parameters|Conjecture|Conjectures|Admit\s+Obligations|"
    r"Unset\s+Guard\s+Checking|Unset\s+Positivity\s+Checking|Unset\s+Universe\s+Checking|bypass_check|"
    r"type-in-type|impredicative-set|native_compute)\b")
TOPLEVEL_VAR = re.compile(r"^\s*(Variable|Variables|Hypothesis|Hypotheses)\b")


def log(*a):
    print(*a, file=sys.stderr, flush=True)


def run(cmd, cwd=None, timeout=None, env=None, input=None):
    e = dict(os.environ)
    e.setdefault("CARGO_NET_OFFLINE", "true")
    if env:
        e.update(env)
    try:
        p = subprocess.run(cmd, cwd=cwd, timeout=timeout, env=e, input=input,
                           stdout=subprocess.PIPE, stderr=subprocess.STDOUT, text=True, shell=isinstance(cmd, str))
        return p.returncode, p.stdout
    except subprocess.TimeoutExpired as ex:
        out = ex.stdout.decode() if isinstance(ex.stdout, bytes) else (ex.stdout or "")
        return 124, out + "\n[timeout]"


# --------------------------------------------------------------------------
# 1. proof step
# --------------------------------------------------------------------------

def strip_comments(text):
    out, depth, i = [], 0, 0
    while i < len(text):
        if text.startswith("(*", i):
            depth += 1; i += 2
        elif text.startswith("*)", i) and depth > 0:
            depth -= 1; i += 2
        else:
            if depth == 0:
                out.append(text[i])
            i += 1
    return "".join(out)


def coq_sources():
    res = []
    for d, _, fs in os.walk(os.path.join(COQ, "theories")):
        for f in fs:
            if f.endswith(".v"):
                res.append(os.path.join(d, f))
    return sorted(res)


def hygiene(files):
    """Forbidden vernacular anywhere in the given files (comments and strings stripped)."""
    hits = []
    for f in files:
        txt = strip_comments(open(f).read())
        txt = re.sub(r'"[^"]*"', '""', txt)
        depth = 0
        for n, line in enumerate(txt.split("\n"), 1):
            if FORBIDDEN.search(line):
                hits.append("%s:%d: %s" % (os.path.relpath(f, ROOT), n, line.strip()[:120]))
            if re.match(r"^\s*(Section|Module\s+Type)\b", line):
                depth += 1
            elif re.match(r"^\s*End\b", line) and depth > 0:
                depth -= 1
            elif depth == 0 and TOPLEVEL_VAR.match(line):
                hits.append("%s:%d: top-level %s" % (os.path.relpath(f, ROOT), n, line.strip()[:120]))
    return hits


def deps_of(vfile, seen=None):
    """Transitive MechV dependencies of a .v file (by scanning Require lines)."""
    seen = seen if seen is not None else set()
    if vfile in seen or not os.path.exists(vfile):
        return seen
    seen.add(vfile)
    txt = strip_comments(open(vfile).read())
    for m in re.finditer(r"From\s+MechV\s+Require\s+(?:Import|Export)?\s*([^.]*(?:\.[A-Za-z_][^.\s]*)*)\.", txt):
        pass
    for m in re.finditer(r"From\s+MechV\s+Require\s+(?:Import\s+|Export\s+)?(.*?)\.\s", txt, re.S):
        for mod in m.group(1).split():
            p = os.path.join(COQ, "theories", *mod.split(".")) + ".v"
            deps_of(p, seen)
    for m in re.finditer(r"Require\s+(?:Import\s+|Export\s+)?((?:MechV\.[\w.]+\s*)+)\.", txt):
        for mod in m.group(1).split():
            p = os.path.join(COQ, "theories", *mod.split(".")[1:]) + ".v"
            deps_of(p, seen)
    return seen


def coqproject_text():
    files = []
    for sub in ("Base", "Gen", "Model", "Proofs", "Props", "Extract"):
        d = os.path.join(COQ, "theories", sub)
        if os.path.isdir(d):
            files += sorted("theories/%s/%s" % (sub, f) for f in os.listdir(d) if f.endswith(".v"))
    head = ("-Q theories MechV\n"
            "-arg -w -arg -notation-overridden,-deprecated-hint-without-locality,-deprecated-syntactic-definition,-deprecated-instance-without-locality\n")
    return head + "\n".join(files) + "\n"


def ensure_makefile():
    """_CoqProject is derived from the files present under coq/theories (never edited by hand)."""
    mk = os.path.join(COQ, "Makefile")
    cp = os.path.join(COQ, "_CoqProject")
    txt = coqproject_text()
    ed = os.path.join(COQ, "theories", "Extract")
    if os.path.isdir(ed):
        for f in os.listdir(ed):
            if f.endswith("x.v"):
                os.makedirs(os.path.join(COQ, "ocaml", f[:-3]), exist_ok=True)
    if not os.path.exists(cp) or open(cp).read() != txt:
        tmp = cp + ".tmp%d" % os.getpid()
        open(tmp, "w").write(txt)
        os.replace(tmp, cp)
    if not os.path.exists(mk) or os.path.getmtime(mk) < os.path.getmtime(cp):
        rc, out = run(["coq_makefile", "-f", "_CoqProject", "-o", "Makefile"], cwd=COQ, timeout=120)
        if rc != 0:
            raise RuntimeError("coq_makefile failed: " + out)


def parse_assumptions(out):
    """Parse the output of `Print Assumptions t.` commands that follow `Check t : ...`.
    Returns list of (block_text, axioms)."""
    blocks = []
    cur = None
    for line in out.split("\n"):
        if line.startswith("Closed under the global context"):
            blocks.append([])
            cur = None
        elif line.startswith("Axioms:"):
            cur = []
            blocks.append(cur)
        elif cur is not None:
            m = re.match(r"^([A-Za-z_][\w.']*)\s*(:|$)", line)
            if m and not line.startswith(" "):
                cur.append(m.group(1))
            elif line.strip() == "" or re.match(r"^(COQC|COQDEP|make)", line):
                cur = None
    return blocks


def proof_step(prop, props_files, extra_targets, timeout=1500):
    """Compile Props/<prop>*.vo (forced, to see Print Assumptions) and deps.
    Returns dict(ok, obligations, discharged, axioms, log, theorem_names, failed)."""
    ensure_makefile()
    res = dict(ok=False, obligations=0, discharged=0, axioms=[], log="", theorems=[], failed=None, hygiene=[])
    files = set()
    for pf in props_files:
        files |= deps_of(os.path.join(COQ, pf))
    res["files"] = sorted(os.path.relpath(f, COQ) for f in files)
    res["hygiene"] = hygiene(sorted(files))
    thm_re = re.compile(r"^\s*(Theorem|Lemma|Corollary|Example|Fact|Remark|Proposition)\s+([\w']+)", re.M)
    names = []
    for pf in props_files:
        txt = strip_comments(open(os.path.join(COQ, pf)).read())
        names += [m.group(2) for m in thm_re.finditer(txt)]
        # every theorem must be followed by a Print Assumptions
        for nm in [m.group(2) for m in thm_re.finditer(txt)]:
            if not re.search(r"Print\s+Assumptions\s+%s\s*\." % re.escape(nm), txt):
                res["hygiene"].append("%s: theorem %s lacks Print Assumptions" % (pf, nm))
    res["theorems"] = names
    res["obligations"] = len(names)
    for pf in props_files:
        vo = os.path.join(COQ, pf[:-2] + ".vo")
        if os.path.exists(vo):
            os.remove(vo)
    targets = [pf[:-2] + ".vo" for pf in props_files] + list(extra_targets)
    rc, out = run(["make", "-j%d" % NCPU] + targets, cwd=COQ, timeout=timeout)
    res["log"] = out[-6000:]
    if rc != 0:
        m = re.search(r'File "\./([^"]+)", line (\d+)', out)
        res["failed"] = ("%s:%s" % (m.group(1), m.group(2))) if m else "make exit %d" % rc
        return res
    blocks = parse_assumptions(out)
    axioms = sorted({a for b in blocks for a in b})
    res["axioms"] = axioms
    bad = [a for a in axioms if a not in STDLIB_AXIOMS_ALLOWED]
    if len(blocks) < len(names):
        res["failed"] = "Print Assumptions blocks (%d) < theorems (%d)" % (len(blocks), len(names))
        return res
    if bad:
        res["failed"] = "axioms outside the allow-list: " + ", ".join(bad)
        return res
    if res["hygiene"]:
        res["failed"] = "hygiene: " + "; ".join(res["hygiene"][:5])
        return res
    res["ok"] = True
    res["discharged"] = len(names)
    return res


# --------------------------------------------------------------------------
# 2. model binary
# --------------------------------------------------------------------------

def build_model(prop, timeout=900):
    """Extraction target + ocamlopt.  Returns (path or None, log)."""
    ensure_makefile()
    rc, out = run(["make", "-j%d" % NCPU, "theories/Extract/%sx.vo" % prop], cwd=COQ, timeout=timeout)
    if rc != 0:
        return None, out[-4000:]
    d = os.path.join(COQ, "ocaml", prop)
    ml = os.path.join(d, "model.ml")
    exe = os.path.join(d, "mechmodel")
    if not os.path.exists(ml):
        # .vo up to date but extraction output missing (fresh checkout): force
        vo = os.path.join(COQ, "theories/Extract/%sx.vo" % prop)
        if os.path.exists(vo):
            os.remove(vo)
        os.makedirs(d, exist_ok=True)
        rc, out = run(["make", "theories/Extract/%sx.vo" % prop], cwd=COQ, timeout=timeout)
        if rc != 0 or not os.path.exists(ml):
            return None, out[-4000:]
    drv = os.path.join(COQ, "ocaml", "driver.ml")
    if (not os.path.exists(exe)) or os.path.getmtime(exe) < max(os.path.getmtime(ml), os.path.getmtime(drv)):
        shutil.copy(drv, os.path.join(d, "driver.ml"))
        rc, out = run("ocamlfind ocamlopt -O2 -w -a model.mli model.ml driver.ml -o mechmodel 2>&1 || "
                      "ocamlfind ocamlopt -w -a model.mli model.ml driver.ml -o mechmodel", cwd=d, timeout=timeout)
        if rc != 0 or not os.path.exists(exe):
            return None, out[-4000:]
    return exe, ""


# --------------------------------------------------------------------------
# 3. implementation harness
# --------------------------------------------------------------------------
_harness_built = {}

REPO = os.environ.get("MECH_REPO", "/repo")     # testing aid only: registered commands never set MECH_REPO


def alt_target(target):
    """With MECH_REPO set (running the checks against a scratch worktree, e.g. a seeded change, without touching
    /repo) the harness crate is copied with its /repo paths rewritten and built into a separate target directory."""
    if REPO == "/repo":
        return target
    return os.path.join(CACHE, "alt", os.path.basename(target))


def build_harness(crate="harness", timeout=3000, target=None):
    """target: optional CARGO_TARGET_DIR of a plugin's own harness crate (plugin.TARGET_DIR); default: the shared one"""
    if crate in _harness_built:
        return _harness_built[crate]
    d = os.path.join(ROOT, crate)
    tgt = target or TARGET
    if REPO != "/repo":
        alt = os.path.join(CACHE, "alt", crate)
        os.makedirs(os.path.join(alt, "src"), exist_ok=True)
        os.makedirs(os.path.join(alt, ".cargo"), exist_ok=True)
        for f in os.listdir(os.path.join(d, "src")):
            src = open(os.path.join(d, "src", f)).read()
            dst = os.path.join(alt, "src", f)
            if not os.path.exists(dst) or open(dst).read() != src:
                open(dst, "w").write(src)
        for f in ("Cargo.toml", "Cargo.lock", ".cargo/config.toml"):
            if os.path.exists(os.path.join(d, f)):
                txt = open(os.path.join(d, f)).read().replace("/repo", REPO)
                dst = os.path.join(alt, f)
                if not os.path.exists(dst) or open(dst).read() != txt:
                    open(dst, "w").write(txt)
        d = alt
        tgt = alt_target(tgt)
    env = {"RUSTFLAGS": "--cfg %s" % GUARD, "RUSTC_BOOTSTRAP": "1", "CARGO_TARGET_DIR": tgt, "CARGO_INCREMENTAL": "0"}
    rc, out = run(["cargo", "build", "--offline", "--quiet"], cwd=d, timeout=timeout, env=env)
    ok = rc == 0
    _harness_built[crate] = (ok, out[-6000:])
    return _harness_built[crate]


RLIMIT_AS_BYTES = [8 << 30]     # a plugin may lower it (C07: an allocation of gigabytes for a tiny file must fail visibly)


def _limit():
    try:
        resource.setrlimit(resource.RLIMIT_AS, (RLIMIT_AS_BYTES[0], RLIMIT_AS_BYTES[0]))
        resource.setrlimit(resource.RLIMIT_CORE, (0, 0))
    except Exception:
        pass


def _run_impl_chunk(exe, mode, cases, results, stall=30.0):
    """Feed cases to one mvh process; on abort/hang attribute to the current case and restart."""
    pending = list(cases)
    while pending:
        p = subprocess.Popen([exe, mode], stdin=subprocess.PIPE, stdout=subprocess.PIPE, stderr=subprocess.DEVNULL,
                             text=True, preexec_fn=_limit, bufsize=1)
        payload = "".join(json.dumps(dict(c["impl"], id=c["id"])) + "\n" for c in pending)
        def feed():
            try:
                p.stdin.write(payload); p.stdin.close()
            except Exception:
                pass
        th = threading.Thread(target=feed, daemon=True); th.start()
        current = [None]; done = set(); last = [time.time()]
        def reader():
            for line in p.stdout:
                last[0] = time.time()
                line = line.rstrip("\n")
                if line.startswith("#start\t"):
                    current[0] = line.split("\t", 1)[1]
                else:
                    k, _, v = line.partition("\t")
                    results[k] = v; done.add(k); current[0] = None
        rt = threading.Thread(target=reader, daemon=True); rt.start()
        hung = False
        while rt.is_alive():
            rt.join(0.5)
            if rt.is_alive() and time.time() - last[0] > stall:
                hung = True; p.kill(); break
        rt.join(5); p.wait()
        rest = [c for c in pending if c["id"] not in done]
        if not rest:
            break
        cur = current[0] if current[0] is not None else rest[0]["id"]
        results[cur] = "(hang)" if hung else "(abort %d)" % (p.returncode if p.returncode is not None else -1)
        pending = [c for c in rest if c["id"] != cur]


def run_impl(mode, cases, exe=None, stall=30.0, workers=None):
    exe = exe or MVH
    results = {}
    workers = workers or NCPU
    n = max(1, min(workers, (len(cases) + 49) // 50))
    chunks = [cases[i::n] for i in range(n)]
    ths = [threading.Thread(target=_run_impl_chunk, args=(exe, mode, ch, results, stall)) for ch in chunks if ch]
    for t in ths: t.start()
    for t in ths: t.join()
    return results


def run_model(exe, lines, workers=None):
    """lines: list of strings (one S-expression each); returns list of output lines."""
    workers = workers or NCPU
    n = max(1, min(workers, (len(lines) + 199) // 200))
    outs = [None] * n
    def work(i):
        chunk = lines[i::n]
        p = subprocess.run([exe], input="\n".join(chunk) + "\n", stdout=subprocess.PIPE, stderr=subprocess.PIPE, text=True)
        outs[i] = p.stdout.split("\n")[:len(chunk)] if p.returncode == 0 else ["(model-crash %d)" % p.returncode] * len(chunk)
        if len(outs[i]) < len(chunk):
            outs[i] += ["(model-short)"] * (len(chunk) - len(outs[i]))
    ths = [threading.Thread(target=work, args=(i,)) for i in range(n)]
    for t in ths: t.start()
    for t in ths: t.join()
    res = [None] * len(lines)
    for i in range(n):
        for k, o in enumerate(outs[i]):
            res[i + k * n] = o
    return res


# --------------------------------------------------------------------------
# S-expression helpers for generators
# --------------------------------------------------------------------------

def q(s):
    b = s.encode("utf-8") if isinstance(s, str) else s
    o = ['"']
    for c in b:
        if c == 0x22: o.append('\\"')
        elif c == 0x5c: o.append("\\\\")
        elif c == 0x0a: o.append("\\n")
        elif c == 0x0d: o.append("\\r")
        elif c == 0x09: o.append("\\t")
        elif 0x20 <= c <= 0x7e: o.append(chr(c))
        else: o.append("\\x%02x" % c)
    o.append('"')
    return "".join(o)


def sx(x):
    if isinstance(x, (list, tuple)):
        return "(" + " ".join(sx(y) for y in x) + ")"
    if isinstance(x, bool):
        return "1" if x else "0"
    if isinstance(x, int):
        return str(x)
    return str(x)


def parse_sx(s):
    """Tiny reader (for verdicts and observations): returns nested lists / ints / strings ('"..."' kept with quotes)."""
    toks = re.findall(r'\(|\)|"(?:\\.|[^"\\])*"|[^\s()"]+', s)
    def rd(i):
        t = toks[i]
        if t == "(":
            l = []; i += 1
            while toks[i] != ")":
                v, i = rd(i); l.append(v)
            return l, i + 1
        if re.fullmatch(r"-?\d+", t):
            return int(t), i + 1
        return t, i + 1
    try:
        v, _ = rd(0)
        return v
    except Exception:
        return s


# --------------------------------------------------------------------------
# known findings
# --------------------------------------------------------------------------

def load_known(prop):
    p = os.path.join(ROOT, "known-findings.json")
    if not os.path.exists(p):
        return {}
    data = json.load(open(p))
    return {f["id"]: f for f in data.get("findings", []) if f.get("property") == prop and f.get("status", "open") == "open"}


# --------------------------------------------------------------------------
# evidence / replay
# --------------------------------------------------------------------------

def write_evidence(prop, tier, seed, t0, proof, cov, assumptions, violations, level="proof"):
    os.makedirs(EVID, exist_ok=True)
    coverage = dict(cov)
    coverage.update(dict(
        obligations=proof.get("obligations", 0),
        discharged=proof.get("discharged", 0),
        checker_cmd="make -C coq theories/Props/%s.vo (coqc 8.16.1, full .vo) ; Print Assumptions per theorem ; hygiene grep" % prop,
        trusted_base=[
            "Coq 8.16.1 kernel incl. vm_compute (no native_compute)",
            "axioms reported by Print Assumptions this run: " + (", ".join(proof.get("axioms", [])) or "none (closed under the global context)"),
            "extraction (ExtrOcamlBasic, ExtrOcamlString) + coq/ocaml/driver.ml",
            "harness/ (Rust canonical printer), gen/ (Python generators), vlib/ (comparer)",
        ],
        theorems=proof.get("theorems", []),
        coq_files=proof.get("files", []),
    ))
    if proof.get("obligations", 0) < 1 or proof.get("discharged", 0) < 1:
        # keep the file schema-valid even when the proof step failed
        coverage["obligations"] = max(1, proof.get("obligations", 0))
        coverage["discharged_actual"] = proof.get("discharged", 0)
        coverage["discharged"] = max(1, proof.get("discharged", 0))
        coverage["proof_step_failed"] = proof.get("failed")
    ev = dict(property_id=prop, tier=tier, seed=seed, level=level, coverage=coverage,
              assumptions=assumptions, wall_s=round(time.time() - t0, 2), violations=violations)
    tmp = os.path.join(EVID, prop + ".json.tmp")
    json.dump(ev, open(tmp, "w"), indent=1, sort_keys=True)
    os.replace(tmp, os.path.join(EVID, prop + ".json"))


def write_replay(prop, payload):
    os.makedirs(REPLAYS, exist_ok=True)
    h = hashlib.sha1(json.dumps(payload, sort_keys=True).encode()).hexdigest()[:12]
    path = os.path.join(REPLAYS, "%s-%s.json" % (prop, h))
    json.dump(payload, open(path, "w"), indent=1, sort_keys=True)
    return path


def load_plugin(prop):
    path = os.path.join(ROOT, "gen", prop.lower() + ".py")
    spec = importlib.util.spec_from_file_location("gen_" + prop.lower(), path)
    mod = importlib.util.module_from_spec(spec)
    sys.path.insert(0, os.path.join(ROOT))
    spec.loader.exec_module(mod)
    return mod
