(* C09 — The parser is total: any text yields a tree or a located error report.
   Property theorems only; proofs live in Proofs/ParseLoopP.v.

   PARTIAL.  Theorems 1-19: the nom grammar (~5000 lines) is not modelled there; theorems 20-28 (end of the file) are a
   progress analysis of the grammar re-extracted from the parser source on every run.  Proved in 1-19, for ALL sources and ALL leaf
   parsers satisfying the explicit assumptions `leaf_ok` (cursors stay in [i, len]; code_terminal consumes nothing
   only at eof / before a mika close; subtitles, mika blocks and section elements consume >= 1 grapheme):
     - the hand-written loops mech_code / section / body terminate (fuel len+1), each iteration makes progress,
     - parse() returns Ok only with the whole input consumed and an empty log, otherwise a non-empty report,
     - every range built from cursors of the source converts to (row, col) pairs inside the line table.
   Not proved (searched by the correspondence run): that the leaf parsers satisfy `leaf_ok`, do not panic, do not
   overflow the stack and answer in reasonable time.  Open findings there (observed only): exp-nesting (nested brackets
   cost ~4x-7x per level), stack-overflow-prefix-run (a run of ~500-900 prefix operators aborts the process).
   Five defects found by this check are fixed in /repo (fix: commits d162281, 6eb0df4, 213fdb6, 35b608b): the model
   follows the fixed code; theorem 7 records what the first of them repaired. *)
From Coq Require Import List Arith ZArith String.
From MechV Require Import Base.Sexp Base.Obs Model.ParseLoop Proofs.ParseLoopP.
From MechV Require Import Model.Progress Gen.ParserGrammar Model.ProgressInst Proofs.ProgressP Proofs.ProgressInstP.
Import ListNotations.
Open Scope list_scope.

(* 1. ranges_in_bounds: in a newline-terminated source, the SourceRange built from any two cursors a <= b —
      with ParseError::new's one-column bump or without — has rows in 1..nlines, a start column in 1..width+1,
      an exclusive end column in 1..width+2, start <= end; and the formatter's `- 1`s cannot underflow. *)
Theorem C09_ranges_in_bounds : forall gs a b bump, ends_nl gs -> a <= b ->
  range_within (map Z.of_nat (line_widths gs)) (to_srange gs (CR a b bump)) /\
  fmt_safeb (to_srange gs (CR a b bump)) = true.
Proof. exact ranges_in_bounds. Qed.
Print Assumptions C09_ranges_in_bounds.

(* 1b. graphemes::init_source always produces such a source *)
Theorem C09_init_source_newline_terminated : forall body, ends_nl (init_source body).
Proof. exact init_source_ends_nl. Qed.
Print Assumptions C09_init_source_newline_terminated.

(* 1c. locations only move forward with the cursor *)
Theorem C09_loc_monotone : forall gs c1 c2, c1 <= c2 -> lex_le (loc_of gs c1) (loc_of gs c2).
Proof. exact loc_of_mono. Qed.
Print Assumptions C09_loc_monotone.

(* 1d. SourceRange::default() = 0:0-0:0 (hand-built ParseErrors before fix 6eb0df4) is outside every input and not
       formatter-safe, whereas no range built from cursors of a newline-terminated source is of that form. *)
Theorem C09_zero_range_outside : forall ws,
  range_withinb ws (SR 0 0 0 0) = false /\ fmt_safeb (SR 0 0 0 0) = false /\ is_zero (SR 0 0 0 0) = true.
Proof. exact zero_range_outside. Qed.
Print Assumptions C09_zero_range_outside.

Theorem C09_cursor_range_not_zero : forall gs a b bump, ends_nl gs -> a <= b -> is_zero (to_srange gs (CR a b bump)) = false.
Proof. exact cursor_range_not_zero. Qed.
Print Assumptions C09_cursor_range_not_zero.

(* 2. progress_or_stop: one iteration of mech_code's loop either returns (with cursors/log in range; an Ok
      return is at the iteration's start with >= 1 statement, or at the end of input) or continues with the
      cursor strictly advanced, not yet at the end, and one more statement. *)
Theorem C09_progress_or_stop : forall L, leaf_ok L -> forall i n log,
  i <= l_len L -> Forall (Lcr_ok L) log ->
  match L_mech_step L i n log with
  | MRet r => Lmres_ok L r /\ forall jj m lg, r = MOk jj m lg -> (jj = i /\ 0 < n) \/ jj = l_len L
  | MNext j n' log' => i < j /\ j < l_len L /\ n' = S n /\ Forall (Lcr_ok L) log'
  end.
Proof. exact L_progress_or_stop. Qed.
Print Assumptions C09_progress_or_stop.

(* 3. mech_code_terminates: fuel len + 1 suffices from any cursor; an Ok result has consumed input. *)
Theorem C09_mech_code_terminates : forall L, leaf_ok L -> forall i log,
  i <= l_len L -> Forall (Lcr_ok L) log ->
  exists r, L_mech_code L i log = Some r /\ Lmres_ok L r /\
            forall jj m lg, r = MOk jj m lg -> i <= jj /\ (i < l_len L -> i < jj).
Proof. exact L_mech_code_terminates. Qed.
Print Assumptions C09_mech_code_terminates.

(* 4. section terminates; it returns Ok without consuming only at the end or before a stray mika close. *)
Theorem C09_section_terminates : forall L, leaf_ok L -> forall i log,
  i <= l_len L -> Forall (Lcr_ok L) log ->
  exists r, L_section L i log = Some r /\ Lsres_ok L r /\
    forall j lg, r = SOk j lg -> i <= j /\ (i < l_len L -> l_close_at L i = false -> i < j).
Proof. exact L_section_terminates. Qed.
Print Assumptions C09_section_terminates.

(* 5. C09_holds / parse_outcome_total: parse() always returns; Ok(tree) only with the remaining input empty
      (cursor = len); otherwise a NON-EMPTY report whose ranges are all built from cursors inside the source. *)
Theorem C09_holds : forall L, leaf_ok L ->
  match L_parse L with
  | PTree f => f = l_len L
  | PReport rep => rep <> [] /\ Forall (Lcr_ok L) rep
  | PHang => False
  end.
Proof. exact L_parse_outcome_total. Qed.
Print Assumptions C09_holds.

(* 6. ... and such a report converts to ranges inside the line table of the source. *)
Theorem C09_report_ranges_in_bounds : forall gs rep,
  ends_nl gs -> Forall (cr_ok (List.length gs)) rep ->
  Forall (fun cr => range_within (map Z.of_nat (line_widths gs)) (to_srange gs cr)) rep.
Proof. exact report_ranges_in_bounds. Qed.
Print Assumptions C09_report_ranges_in_bounds.

(* 7. what fix d162281 repaired (finding mika-close-loop, now fixed): WITHOUT body's progress check, wherever
      mika_section_close matches at a position where `body` starts a section (and no subtitle does), `section` returns
      Ok without consuming and `body` never returns, for every fuel — although every leaf assumption holds. *)
Theorem C09_unguarded_body_diverges_general : forall L i log,
  i < l_len L -> l_close_at L i = true -> l_ul_subtitle L i = None ->
  forall fuel, L_body_loop_unguarded L fuel i log = None.
Proof. exact L_unguarded_body_hangs_at_close. Qed.
Print Assumptions C09_unguarded_body_diverges_general.

(* 7b. the witness: the source "⸥" (graphemes ["⸥"; "\n"]): unguarded loop diverges; the current loop yields the
       one-entry report "Inputs since here are not parsed" at cursor 0. *)
Theorem C09_unguarded_body_diverges :
  exists L, leaf_ok L /\ (forall fuel, L_body_loop_unguarded L fuel 0 [] = None) /\ L_parse L = PReport [CR 0 0 true].
Proof.
  exists stray_leaves. split; [exact stray_leaf_ok|]. split; [exact stray_close_unguarded_never_returns|exact stray_parse_reports].
Qed.
Print Assumptions C09_unguarded_body_diverges.

(* 8. judge soundness: an `ok` verdict on a line (case, observation) means: the parser returned a tree or a report
      (no panic, no hang, no abort), the same both times, the harness's line table is the text's, EVERY range of the report
      lies within the text, the consumers of the report did not panic and no read system call was issued (no flags), the
      hook log (when present) satisfies the loop invariants, a tree comes with no ranges and a report is non-empty. *)
Theorem C09_judge_sound : forall x tag,
  judge_c09 x = v_ok tag ->
  exists text o p, x = Lx [Lx [Ax "c09"%string; Qx text]; o] /\ dec_obs o = RParse p /\ C09_obs_spec text p.
Proof. exact judge_c09_sound. Qed.
Print Assumptions C09_judge_sound.

(* 9. a known-finding verdict is given only inside its class (decided from the text) and only for the predicted
      defective behaviour: no answer within the budget on a text nested >= 6 deep / process abort on a text with a run of
      >= 400 prefix operators.  (Both findings are observed only: the grammar is not modelled.) *)
Theorem C09_judge_kf_narrow : forall text o id,
  judge_parse text o = v_kf id ->
  (id = "exp-nesting"%string /\ o = RHang /\ nest_threshold <= nest_depth text) \/
  (id = "stack-overflow-prefix-run"%string /\ o = RAbort /\ run_threshold <= max_prefix_run text) \/
  (id = "rational-suffix-dropped"%string /\ kf_rat_suffix text = true /\
   exists p, o = RParse p /\ obs_okb text p = false /\ obs_okb text (drop_uncovered p) = true).
Proof. exact judge_kf_narrow. Qed.
Print Assumptions C09_judge_kf_narrow.

(* 10. format_error's count of errors not shown (errors.1.len() - min(len, 10), since fix 213fdb6) cannot underflow. *)
Theorem C09_fmt_not_shown_nonneg : forall nerr, (0 <= nerr)%Z -> (0 <= fmt_not_shown nerr)%Z.
Proof. exact fmt_not_shown_nonneg. Qed.
Print Assumptions C09_fmt_not_shown_nonneg.

(* 11. the line table the judge recomputes from the text bytes is the model's line table (line_widths of the
       newline-terminated grapheme list) — stated over the ASCII grapheme view (one grapheme per byte, CR LF one grapheme;
       control characters width 0); for non-ASCII lines the judge only bounds the harness's counts (see line_okb). *)
Theorem C09_ascii_line_table_agrees : forall s,
  map bl_width (text_lines s) = map Z.of_nat (line_widths (init_source (gks_of_ascii s))).
Proof. exact ascii_line_table_agrees. Qed.
Print Assumptions C09_ascii_line_table_agrees.

(* ---- non-vacuity ---- *)
(* the assumptions are satisfiable and the model then produces a tree with the whole input consumed *)
Example C09_example_tiny : leaf_ok tiny_leaves /\ L_parse tiny_leaves = PTree (l_len tiny_leaves).
Proof. split; [exact tiny_leaf_ok|exact tiny_parse]. Qed.
Print Assumptions C09_example_tiny.

(* "ab\n\tc" + appended "\n": cursor 3 (the tab, first grapheme of line 2) is (2,1); cursor 5 (the final "\n") and
   cursor 6 (eof) are both (2,3): the last terminator does not start a new row; a control character has width 0. *)
Example C09_example_locations :
  let gs := init_source [GCh 1; GCh 1; GNl; GCh 1; GCh 0; GCh 1] in
  line_widths gs = [2; 2] /\ loc_of gs 0 = (1, 1) /\ loc_of gs 2 = (1, 3) /\ loc_of gs 3 = (2, 1) /\
  loc_of gs 5 = (2, 2) /\ loc_of gs 6 = (2, 3) /\ loc_of gs 7 = (2, 3) /\
  to_srange gs (CR 0 2 true) = SR 1 1 1 4 /\
  range_withinb [2; 2]%Z (SR 1 1 1 4) = true /\ range_withinb [2; 2]%Z (SR 1 1 1 5) = false /\
  range_withinb [2; 2]%Z (SR 0 0 0 0) = false /\ range_withinb [2; 2]%Z (SR 2 1 3 1) = false.
Proof. vm_compute. repeat split; reflexivity. Qed.
Print Assumptions C09_example_locations.

(* the judge on observations: in-range report, out-of-range report, hang, abort, panic, a 0:0-0:0 range with a
   panicking formatter (the behaviour before fix 6eb0df4), hook logs *)
Example C09_example_judge :
  run_line "((c09 ""x := [1 2"") (parse err 1 (ranges (c 1 1 1 10)) 1 (linelens 9) (linewidths 9) (flags ) (info 1 10 5) (hook off)))"
    = "(ok report)"%string /\
  run_line "((c09 ""x := [1 2"") (parse err 1 (ranges (c 1 1 1 12)) 1 (linelens 9) (linewidths 9) (flags ) (info 1 10 5) (hook off)))"
    = "(bad range-outside-input ok-or-err-in-range)"%string /\
  run_line "((c09 ""["") (parse err 1 (ranges (c 1 2 1 3) (c 1 2 1 3)) 1 (linelens 1) (linewidths 1) (flags fmtpanic) (info 2 2 9) (hook off)))"
    = "(bad format_error-panicked ok-or-err-in-range)"%string /\
  run_line "((c09 ""\xe2\xb8\xa5"") (hang))" = "(bad parser-did-not-return-within-budget ok-or-err)"%string /\
  run_line "((c09 ""x := ((((((1))))))"") (hang))" = "(kf exp-nesting)"%string /\
  run_line "((c09 ""x := -1"") (abort -6))" = "(bad process-aborted ok-or-err)"%string /\
  run_line "((c09 ""x := 1"") (parse ok 1 (ranges ) 1 (linelens 6) (linewidths 6) (flags ) (info 0 7 1) (hook 5 (1 0 6 7) (5 6 7 7) (6 0 7 7) (7 0 7 7) (8 0 7 7))))"
    = "(ok tree)"%string /\
  run_line "((c09 ""x := 1"") (parse ok 1 (ranges ) 1 (linelens 6) (linewidths 6) (flags ) (info 0 7 1) (hook 2 (1 0 6 7) (8 3 3 7))))"
    = "(bad hook-progress-invariant-violated ok-or-err-in-range)"%string /\
  run_line "((c09 ""```mech\n<=\n```\n"") (parse err 1 (ranges (c 0 0 0 0)) 4 (linelens 7 2 3 0) (linewidths 7 2 3 0) (flags fmtpanic) (info 1 16 3) (hook off)))"
    = "(bad range-outside-input ok-or-err-in-range)"%string /\
  run_line "((c09 ""x := 1"") (parse ok 1 (ranges ) 1 (linelens 6) (linewidths 6) (flags ioread) (info 0 7 1) (hook off)))"
    = "(bad parser-issued-read-system-calls ok-or-err-in-range)"%string /\
  run_line "((c09 ""x := 1"") (parse panic 1 (ranges ) 1 (linelens 6) (linewidths 6) (flags ) (info 0 7 1) (hook off)))"
    = "(bad parser-panicked ok-or-err-in-range)"%string.
Proof. vm_compute. repeat split; reflexivity. Qed.
Print Assumptions C09_example_judge.

(* ====================================================================== *)
(* PROGRESS ANALYSIS OF THE REAL GRAMMAR (deepening; Model/Progress.v, Proofs/ProgressP.v, Proofs/ProgressInstP.v)       *)
(*                                                                                                                        *)
(* translators/parser_grammar.py re-extracts the grammar of /repo/src/syntax/src/*.rs on every run (Gen/ParserGrammar.v): *)
(* one entry per parser function; every nom repetition and every hand-written parsing loop is a *recursive* entry, with   *)
(* nom's `input_len() == len` check explicit.  So "every loop makes progress" = "no cycle of calls without consumption". *)
(* Theorems 20-22 are about ANY grammar, ANY oracles for the primitive leaves / unknown nodes / opaque conditions          *)
(* (`oracle_ok`: results are suffixes, leaves marked consuming return strict suffixes) and ANY (nu, rk) passing the checks. *)
(* Theorems 23-28 are the instance: closed by vm_compute on the grammar of the CURRENT source.                             *)
(* ====================================================================== *)

(* 20. soundness of the nullability analysis: every result is a suffix of the input; a successful run of a parser that
       the analysis calls non-nullable returns a STRICT suffix. *)
Theorem C09_progress_nullable_sound : forall O G nu, oracle_ok O -> nu_bad nu G = [] ->
  forall n p i r, evalp O G all_on n p i = Some r ->
    suffix (pos r) i /\ (is_ok r = true -> nullp nu p = false -> strict_suffix (pos r) i).
Proof. exact nullable_sound. Qed.
Print Assumptions C09_progress_nullable_sound.

(* 21. termination with an explicit depth bound: if no entry can reach itself through calls made before anything is
       consumed (rank_bad = []), evaluation of ANY parser expression over the grammar on ANY input never runs out of fuel
       once the fuel (recursion depth) exceeds (|input| + 1) * (1 + max rank) * (1 + max body size) + size. *)
Theorem C09_progress_terminates : forall O G nu rk, oracle_ok O -> nu_bad nu G = [] -> rank_bad nu rk G = [] ->
  forall p i n, (List.length i + 1) * (S (max_rank rk G) * S (max_size G)) + sizep p < n ->
    exists r, evalp O G all_on n p i = Some r.
Proof. exact eval_terminates. Qed.
Print Assumptions C09_progress_terminates.

(* 22. nom's infinite-loop guards: removing every guard that the analysis does not list as live changes no result
       (gd site = false removes the guard of that repetition). *)
Theorem C09_progress_guards_dead : forall O G nu gd, oracle_ok O -> nu_bad nu G = [] ->
  (forall site, In site (guards_live nu G) -> gd site = true) ->
  forall n f i, evalp O G gd n (PCall f) i = evalp O G all_on n (PCall f) i.
Proof. exact guards_dead. Qed.
Print Assumptions C09_progress_guards_dead.

(* 23. THE OBLIGATION ON THE CURRENT SOURCE.  With the two hand-written recovery loops of Model/ProgressInst.v
       (mech_code's and section's `loop`, covered by theorems 2-6 above) replaced by assumed leaves, the analysis of the
       extracted grammar reports: nu consistent, NO call cycle without consumption (no left recursion, every other loop
       — nom repetition or hand-written — advances or stops), and exactly the two allow-listed nom guards that may fire.
       A change that removes a consuming token from a loop body, makes a recovery path succeed without progress or
       introduces left recursion makes this theorem fail (tools/c09_selftest.py demonstrates it on nine mutants). *)
Theorem C09_parser_loops_guarded :
  analyse grammar_cut = {| r_nu_bad := []; r_cycles := []; r_guards := guards_allowed |}.
Proof. exact cut_analysis. Qed.
Print Assumptions C09_parser_loops_guarded.

(* 24. on the grammar as extracted (nothing assumed) the entries that lie on a cycle of calls-before-consumption are
       exactly the two assumed loops: nothing else hides behind the cut. *)
Theorem C09_parser_cycles_only_assumed : same_set (on_cycle (compute_nu grammar) grammar) cycles_expected = true.
Proof. exact uncut_cycles. Qed.
Print Assumptions C09_parser_cycles_only_assumed.

(* 25. what the translator could not read is explicit and confined to four functions (a fence parser chosen at run
       time; three loops over constant tables in mika.rs); unknown nodes are oracles that are never assumed to consume. *)
Theorem C09_parser_unknown_nodes : same_set (unknown_fns grammar) unknown_expected = true.
Proof. exact unknown_as_expected. Qed.
Print Assumptions C09_parser_unknown_nodes.

(* 26. hence every parser function of the current source terminates on every input, at depth <= (|input|+1) * rank_bound *
       size_bound + 1 (rank_bound, size_bound: Model/ProgressInst.v; about 25 and 230 for the trees seen so far),
       under oracle_ok for the primitive leaves, the unknown nodes and the two assumed loops. *)
Theorem C09_parser_terminates : forall O, oracle_ok O -> forall f i n,
  (List.length i + 1) * (rank_bound * size_bound) + 1 < n -> exists r, evalp O grammar_cut all_on n (PCall f) i = Some r.
Proof. exact parser_terminates. Qed.
Print Assumptions C09_parser_terminates.

(* 27. the parsers that the hand-written loops rely on to consume (assumed as lo_ul / lo_mika / lo_title .. in theorem 2-6's
       leaf_ok) are non-nullable in the extracted grammar: a successful run returns a strict suffix. *)
Theorem C09_parser_consuming_entries : forall O, oracle_ok O -> forall f, In f must_consume -> forall n i j,
  evalp O grammar_cut all_on n (PCall f) i = Some (ROk j) -> strict_suffix j i.
Proof. exact must_consume_consumes. Qed.
Print Assumptions C09_parser_consuming_entries.

(* 28. of the nom repetitions of the current source (165-173 sites in the trees seen so far), all but the two allow-listed
       ones have a dead guard: the parser
       behaves identically with those guards removed (so its termination does not rest on them). *)
Theorem C09_parser_other_guards_dead : forall O, oracle_ok O -> forall n f i,
  evalp O grammar_cut gd_allowed n (PCall f) i = evalp O grammar_cut all_on n (PCall f) i.
Proof. exact other_guards_dead. Qed.
Print Assumptions C09_parser_other_guards_dead.

(* the hypotheses are satisfiable, and the evaluator runs the extracted grammar *)
Example C09_progress_oracle_exists : oracle_ok fail_oracle /\ oracle_ok eat_oracle.
Proof. exact (conj fail_oracle_ok eat_oracle_ok). Qed.
Print Assumptions C09_progress_oracle_exists.

Example C09_progress_comma_runs : evalp eat_oracle grammar_cut all_on 20 (PCall "comma"%string) [44] = Some (ROk []).
Proof. exact comma_runs. Qed.
Print Assumptions C09_progress_comma_runs.
